"""C35 -- cqlengine persists exactly the model state (partial by design).

Real cqlengine models, connection.execute replaced by a recorder.  For every persisting operation of a bounded history:
 (P) the emitted (query, params), parsed into the statement AST of coq/Model/CqlSem.v, are interpreted by CqlSem inside Coq and the
     row read back is compared with the instance's values (the property itself, evaluated on the implementation's output);
 (C) the emitted AST and the value-manager state afterwards are compared with coq/Model/Mapper.v run on the value-manager state
     captured just before the operation (model tie).
Theorems: the container diffs computed by statements.py are correct for ALL lists/sets, counters (Props/C35.v).
"""
import copy, json, os
from vf import core
from vf import cqle_stmt as H
from vf import cqle_orm as O

META = {
    'technique': 'Coq proofs of the container-diff core over a hand-written model + Cassandra row semantics in Coq (CqlSem) applied to the '
                 'statements the real mapper emits + per-operation differential execution of the mapper model',
    'level_text': 'C35_list_diff / C35_set_diff / C35_counter proved for all lists, sets, integers (apply (analyze prev v) prev = v); '
                  'lifting to operation sequences is checked by executing the emitted CQL with CqlSem on bounded histories (<= 8 ops), not proved.',
    'level_note': 'PARTIAL: C35_map_diff and C35_persist (lifting over op sequences) are not proved; CqlSem is my transcription of Cassandra '
                  'semantics (trusted); harness CQL parser is glue; TTL, LWT outcomes, polymorphic models out of scope.',
    'design_ref': 'DESIGN.md section 4, C35',
}
K, CK = 1, 2
STATIC = ['st', 'st2']      # static columns live in the partition: they survive row deletes and key reassignments
CORPUS = os.path.join(core.VERIF, 'corpus', 'C35')


def kwname(a, op):
    return a + ('__' + op if op else '')


def run_history(ops, want_corr=True):
    """-> list of step records: dict(i, kind, emitted=[ast...], all=[ast... so far], exp=row literal, pre, post, persisted, touched)"""
    from cassandra.cqlengine.query import BatchQuery
    from cassandra.cqlengine import CQLEngineException, ValidationError
    Row = O.models()['Row']
    inst = None
    last_post = None
    shared_b = BatchQuery()          # one batch object re-used by every 'batch_reuse' of the history
    ck = CK
    used_ck = set([CK])
    rekeyed = False
    exp = {}
    allst = []
    steps = []
    touched = dict((a, []) for a in O.ATTR_COL)      # per column: op kinds since the last persisting operation
    for i, o in enumerate(ops):
        k = o[0]
        rec = None
        if k == 'create':
            if inst is not None:
                continue
            for sa in STATIC:
                if sa not in o[1]:
                    o = [o[0], dict(o[1], **{sa: None})]      # a static column survives a row delete: always (re)write it explicitly on create
            kw = dict((a, O.pyv(v)) for a, v in o[1].items())
            inst = Row(k=K, c=ck, **kw)
            last_post = None
            for a, v in o[1].items():
                touched[a].append('create-none' if v is None else 'create-empty' if isinstance(v, list) and not v[1] else 'create')
            rec = 'save'
        elif inst is None:
            continue
        elif k == 'set':
            setattr(inst, o[1], O.pyv(o[2]))
            touched[o[1]].append('set-none' if o[2] is None else 'set-empty' if isinstance(o[2], list) and not o[2][1] else 'set')
        elif k == 'del':
            delattr(inst, o[1])
            touched[o[1]].append('del')
        elif k == 'mut':
            cur = getattr(inst, o[1])
            if cur is None:
                continue
            a, how, x = o[1], o[2], o[3]
            if how == 'edit':
                if a != 'l' or len(cur) < 3:
                    continue
                cur[1 + (x % (len(cur) - 2))] = x + 40      # an interior element replaced ...
                if x % 2:
                    cur.insert(0, x + 50)                   # ... and growth at the head
                if x != 1:
                    cur.append(x + 60)                      # ... and / or at the tail, all before one save
            elif how == 'inner':
                if a != 'ml' or not cur:
                    continue
                key_ = x if x in cur else sorted(cur)[0]
                cur[key_].append(x + 30)            # in-place change of an inner collection: the outer dict object is untouched
            elif how == 'clear':
                cur.clear()
            elif how == 'grow':
                if a == 'l' and cur:
                    cur.insert(0, x + 10)           # the list grows at BOTH ends in one save
                    cur.append(x + 20)
                elif a == 's':
                    cur.update([x, x + 1])
                elif a == 'ml':
                    cur[x] = [x, x + 2]
                elif a != 'l':
                    cur[x] = x + 2
            elif a == 's':
                cur.add(x) if how == 'add' else cur.discard(x)
            elif a == 'l':
                if how == 'add':
                    cur.extend([x, x + 1] if x % 2 else [x])
                elif x in cur:
                    cur.remove(x)
            else:
                if how == 'add':
                    cur[x] = [x + 1] if a == 'ml' else x + 1
                else:
                    cur.pop(x, None)
            touched[a].append('mut-' + how)
        elif k == 'rekey':
            if not inst._is_persisted:
                continue
            used_ck.add(ck)
            newck = o[1] if o[1] not in used_ck else max(used_ck) + 1      # always a row that does not exist yet
            inst.c = newck                          # reassign the clustering key of a persisted instance: save() must INSERT a full row
            ck = newck
            used_ck.add(ck)
            rekeyed = True
            exp = dict((sa, exp.get(sa)) for sa in STATIC)             # the row under the new key does not exist yet (static column is per partition)
            for a in O.ATTR_COL:
                touched[a].append('rekey')
        elif k in ('save', 'batch_save', 'batch_reuse', 'batch_with_execute'):
            rec = k
        elif k == 'update':
            for a, v in o[1].items():
                setattr(inst, a, O.pyv(v))
                touched[a].append('set-none' if v is None else 'set-empty' if isinstance(v, list) and not v[1] else 'set')
            rec = 'update'
        elif k == 'delete':
            with H.Recorder() as r:
                inst.delete()
            pre = O.capture(inst)
            em = [a for t, p in r.calls for a in O.to_ast(t, p)]
            allst += em
            exp = dict((sa, exp.get(sa)) for sa in STATIC)
            steps.append({'ck': ck, 'i': i, 'kind': 'delete', 'emitted': em, 'all': list(allst), 'exp': O.row_literal(exp), 'pre': pre, 'post': None,
                          'persisted': True, 'touched': copy.deepcopy(touched), 'text': [t for t, _ in r.calls]})
            inst = None
            touched = dict((a, []) for a in O.ATTR_COL)
            continue
        elif k == 'qs_update':
            kwargs = {}
            for a, op, v in o[1]:
                kwargs[kwname(a, op)] = O.pyv(v)
            try:
                with H.Recorder() as r:
                    Row.objects(k=K, c=ck).update(**kwargs)
            except (ValidationError, CQLEngineException):
                continue
            for a, op, v in o[1]:
                O.doc_update(exp, a, op, v)
            em = [a for t, p in r.calls for a in O.to_ast(t, p)]
            allst += em
            steps.append({'ck': ck, 'i': i, 'kind': 'qs_update', 'emitted': em, 'all': list(allst), 'exp': O.row_literal(exp), 'pre': None, 'post': None,
                          'persisted': True, 'touched': dict((a, [(op or 'assign') + ('-none' if v is None else '-empty' if isinstance(v, list) and not v[1] else '')])
                                                             for a, op, v in o[1]), 'text': [t for t, _ in r.calls]})
            # the instance is stale now: read it back
            vals = {'k': K, 'c': ck}
            for a in O.ATTR_COL:
                vals['y' if a == 'yy' else a] = copy.deepcopy(exp.get(a))
            inst = Row._construct_instance(vals)
            last_post = None
            touched = dict((a, []) for a in O.ATTR_COL)
            continue
        if rec is None:
            continue
        if rekeyed and rec == 'update':
            rec = 'save'       # update() is documented to write modified fields only; after a key reassignment only save() promises a full row
        rekeyed = False
        inst.validate()
        pre = O.capture(inst)
        # previous_value is the snapshot taken when the instance was last persisted: nothing the user does in between may change it
        prev_changed = [] if last_post is None else [c['f'] for c, d in zip(pre, last_post) if c['prev'] != d['prev']]
        persisted = bool(inst._is_persisted)
        old_exp = dict(exp)
        with H.Recorder() as r:
            if rec == 'save':
                inst.save()
            elif rec == 'update':
                inst.update()
            elif rec == 'batch_reuse':
                inst.batch(shared_b).save()      # the same BatchQuery object, executed explicitly every time
                shared_b.execute()
                inst._batch = None
            elif rec == 'batch_with_execute':
                with BatchQuery() as b:          # the warned-about pattern: execute() inside the with-block, then __exit__ executes again
                    inst.batch(b).save()
                    b.execute()
                inst._batch = None
            else:
                b = BatchQuery()
                inst.batch(b).save()
                b.execute()
                inst._batch = None
        post = O.capture(inst)
        last_post = copy.deepcopy(post)
        em = [a for t, p in r.calls for a in O.to_ast(t, p)]
        allst += em
        new = O.inst_row(inst)
        if k == 'create':
            # upsert semantics: columns the caller did not mention keep what the partition already stores (static column after a row delete)
            for a in O.ATTR_COL:
                if a not in o[1] and not new[a]:
                    new[a] = old_exp.get(a)
        exp = new
        steps.append({'ck': ck, 'i': i, 'kind': 'create' if k == 'create' else rec, 'emitted': em, 'all': list(allst), 'exp': O.row_literal(exp), 'pre': pre, 'old_exp': old_exp, 'prev_changed': prev_changed,
                      'post': post, 'persisted': persisted, 'touched': copy.deepcopy(touched), 'text': [t for t, _ in r.calls]})
        touched = dict((a, []) for a in O.ATTR_COL)
    return steps


def run_counter_history(deltas):
    Cnt = O.models()['Cnt']
    inst = Cnt(k=K)
    steps, allst = [], []
    for d in deltas:
        if d[0] == 'inc':
            setattr(inst, d[1], getattr(inst, d[1]) + d[2])
            continue
        inst.validate()
        pre = O.capture(inst)
        persisted = bool(inst._is_persisted)
        with H.Recorder() as r:
            inst.save() if d[0] == 'save' else inst.update()
        post = O.capture(inst)
        em = [a for t, p in r.calls for a in O.to_ast(t, p)]
        allst += em
        steps.append({'kind': d[0], 'emitted': em, 'all': list(allst), 'exp': [inst.n1, inst.n2], 'pre': pre, 'post': post, 'persisted': persisted,
                      'text': [t for t, _ in r.calls]})
    return steps


def lst(xs):
    return '[' + '; '.join(xs) + ']'


PRELUDE = '''
Definition sc_row : schema := %s.
Definition sc_cnt : schema := %s.
Definition cnt_ok (d : db) (n1 n2 : Z) : bool :=
  (as_int (db_get (1, Some 0, 8) d) =? n1) && (as_int (db_get (1, Some 0, 9) d) =? n2).
''' % (O.SCHEMA_ROW, O.SCHEMA_CNT)


def run(ctx):
    ok = ctx.prove('Props/C35.v')
    if ctx.tier == 'thorough' and ok:
        ctx.coqchk('Props/C35.v')
    from vf.impl import import_cluster
    import_cluster()
    O.install_names()
    rng = ctx.rng
    quick = ctx.tier == 'quick'
    ctx.exhaustive = False
    ctx.rule = ('random histories of <= 8 operations on one row of a model with static, scalar (one with db_field), set, list, map columns: create, '
                'attribute set/del, in-place container mutation, save, update(**values), delete+create, batched save, blind ModelQuerySet.update '
                'with collection operations; counter model: increments/decrements then save/update.  After EVERY persisting operation the emitted '
                'CQL is executed by CqlSem (in Coq) and compared with the instance (or the documented blind-update result), and compared with '
                'the mapper model.  non-trivial = distinct history with >= 2 persisting operations')
    hists = []
    if os.path.isdir(CORPUS):
        for fn in sorted(os.listdir(CORPUS)):
            with open(os.path.join(CORPUS, fn)) as f:
                hists.append(json.load(f)['history'])
    for _ in range(70 if quick else 1500):
        hists.append(O.gen_history(rng))
    prop_cases, prop_meta, corr_cases, corr_meta = [], [], [], []
    for hi, ops in enumerate(hists):
        try:
            steps = run_history(ops)
        except H.ParseError as e:
            ctx.violation('emitted-cql.unparseable', 'history %r emits CQL the parser cannot read: %s' % (ops, e), case={'history': ops},
                          expected='INSERT/UPDATE/DELETE with equality WHERE', actual=str(e), theorem='C35_persist')
            continue
        ctx.case(['history', ops], nontrivial=len(steps) >= 2, sample={'history': ops, 'emitted': [s['text'] for s in steps][:4]})
        ctx.count('history_len', len(ops))
        for o in ops:
            ctx.count('op', o[0])
        for s in steps:
            ctx.count('persisting_op', s['kind'])
            if s.get('prev_changed'):
                ctx.disagreement('value-manager.previous_value-changed-between-persists', 'history %r step %d: previous_value of columns %r changed although nothing was persisted '
                                 '(the snapshot shares objects with the live value)' % (ops, s['i'], s['prev_changed']), case={'history': ops[:s['i'] + 1]}, actual=s['prev_changed'])
            prop_cases.append('row_eqb (read_row sc_row (exec_all sc_row [] %s) %d (Some %d) %s) %s'
                              % (lst(s['all']), K, s['ck'], H.zl(O.ROW_COLS), s['exp']))
            prop_meta.append((ops, s))
            if s['pre'] is not None:
                if s['kind'] == 'delete':
                    corr_cases.append('cqls_eqb (dml_delete %s) %s' % (O.coq_cols(s['pre']), lst(s['emitted'])))
                elif s['kind'] == 'update':
                    corr_cases.append('cqls_eqb (dml_update %s) %s && list_eqb colst_eqb (set_persisted %s) %s'
                                      % (O.coq_cols(s['pre']), lst(s['emitted']), O.coq_cols(s['pre']), O.coq_cols(s['post'])))
                else:
                    corr_cases.append('cqls_eqb (dml_save %s false %s) %s && list_eqb colst_eqb (save_post %s false %s) %s'
                                      % (H.b(s['persisted']), O.coq_cols(s['pre']), lst(s['emitted']), H.b(s['persisted']), O.coq_cols(s['pre']), O.coq_cols(s['post'])))
                corr_meta.append((ops, s))
    # counters
    cnt_cases, cnt_meta = [], []
    for _ in range(25 if quick else 120):
        h = []
        for _ in range(rng.randint(1, 6)):
            if rng.random() < 0.6:
                h.append(['inc', rng.choice(['n1', 'n2']), rng.choice([-5, -1, 0, 1, 3, 2 ** 40])])
            else:
                h.append([rng.choice(['save', 'update'])])
        h.append(['save'])
        steps = run_counter_history(h)
        ctx.case(['counter', h], nontrivial=len(steps) >= 2)
        ctx.count('op', 'counter-history')
        for s in steps:
            cnt_cases.append('cnt_ok (exec_all sc_cnt [] %s) %s %s' % (lst(s['all']), H.z(s['exp'][0]), H.z(s['exp'][1])))
            cnt_meta.append((h, s))
            corr_cases.append('cqls_eqb (dml_save %s true %s) %s && list_eqb colst_eqb (save_post %s true %s) %s'
                              % (H.b(s['persisted']), O.coq_cols(s['pre']), lst(s['emitted']), H.b(s['persisted']), O.coq_cols(s['pre']), O.coq_cols(s['post'])))
            corr_meta.append((h, s))
    try:
        bad = ctx.coq_filter(['Clauses', 'CqlSem', 'Mapper'], '(fun b : bool => b)', prop_cases + cnt_cases, shard=150, prelude=PRELUDE)
    except RuntimeError as e:
        ctx.proof_broken.append(('correspondence:CqlSem', str(e)[-800:]))
        bad = []
    nprop = len(prop_cases)
    # which column differs: one boolean per column, only for the failing steps
    col_cases, col_meta = [], []
    first = {}
    for i in bad:
        if i < nprop:
            hid = id(prop_meta[i][0])
            if hid not in first:
                first[hid] = i
    for i in bad:
        if i < nprop and first[id(prop_meta[i][0])] != i:
            continue            # later steps of a history whose row already differs
        if i >= nprop:
            h, s = cnt_meta[i - nprop]
            ctx.violation('Counter.%s.row-differs' % s['kind'], 'counter history %r: stored counters differ from the instance %r after %r' % (h, s['exp'], s['text']),
                          case={'counter_history': h}, expected=s['exp'], actual=s['text'], theorem='C35_counter')
            continue
        ops, s = prop_meta[i]
        for a, f in O.ATTR_COL.items():
            col_cases.append('row_eqb (read_row sc_row (exec_all sc_row [] %s) %d (Some %d) [%d]) (filter (fun kv => fst kv =? %d) %s)'
                             % (lst(s['all']), K, s['ck'], f, f, s['exp']))
            col_meta.append((ops, s, a))
    if col_cases:
        badc = ctx.coq_filter(['Clauses', 'CqlSem', 'Mapper'], '(fun b : bool => b)', col_cases, shard=150, prelude=PRELUDE)
        seen = set()
        for j in badc:
            ops, s, a = col_meta[j]
            cause = '>'.join(s['touched'].get(a, [])) or 'untouched'
            if s.get('pre') and s.get('old_exp') is not None:
                pc = [c for c in s['pre'] if c['f'] == O.ATTR_COL[a]][0]
                if pc['val'] is not None and pc['val'] == pc['prev'] and not s['old_exp'].get(a) and 'rekey' not in s['touched'].get(a, []):
                    # the value manager still remembers, as previous_value, a value the row no longer stores (column deleted earlier)
                    a, cause = 'column', 'stale-previous-after-delete'
            who = {'qs_update': 'ModelQuerySet.update', 'create': 'Model.save(new)', 'save': 'Model.save', 'update': 'Model.update',
                   'batch_save': 'Model.save(batch)', 'batch_reuse': 'Model.save(batch re-used)', 'batch_with_execute': 'Model.save(batch executed in with-block)', 'delete': 'Model.delete'}[s['kind']]
            key = '%s.%s.%s' % (who, a, cause)
            if key in seen:
                continue
            seen.add(key)
            ctx.violation(key, 'after %s (step %d of %r) column %s read back from the emitted CQL %r differs from the expected row %s'
                          % (who, s['i'], ops, a, s['text'], s['exp']), case={'history': ops[:s['i'] + 1]}, expected=s['exp'], actual=s['text'],
                          theorem='C35_persist', kind='history')
    try:
        badm = ctx.coq_filter(['Clauses', 'CqlSem', 'Mapper'], '(fun b : bool => b)', corr_cases, shard=150, prelude=PRELUDE)
    except RuntimeError as e:
        ctx.proof_broken.append(('correspondence:Mapper', str(e)[-800:]))
        badm = []
    for i in badm[:10]:
        ops, s = corr_meta[i]
        ctx.disagreement('model-vs-impl.%s' % s['kind'], 'Mapper.v disagrees with cqlengine at %s of %r: emitted %r, value managers before %r after %r'
                         % (s['kind'], ops, s['text'], s['pre'], s['post']), case={'history': ops}, actual=s['text'], model=corr_cases[i][:1500])
    ctx.trust('CqlSem.v: my transcription of Cassandra row semantics (collections, counters, static columns, row/partition deletes)',
              'harness CQL-text parser (lib/vf/cqle_stmt.py, cqle_orm.py)')
    ctx.assume('statements reach Cassandra in emission order with increasing timestamps (batches applied sequentially)',
               'clustering key never null; no TTL, no LWT conditions, no polymorphic models')


def replay(ctx, rp):
    from vf.impl import import_cluster
    import_cluster()
    O.install_names()
    case = rp.get('case') or {}
    if 'history' in case:
        steps = run_history(case['history'])
        for s in steps:
            print('step %d %s emitted %r expected row %s' % (s['i'], s['kind'], s['text'], s['exp']))
        s = steps[-1]
        res = ctx.coq_filter(['Clauses', 'CqlSem', 'Mapper'], '(fun b : bool => b)',
                             ['row_eqb (read_row sc_row (exec_all sc_row [] %s) %d (Some %d) %s) %s' % (lst(s['all']), K, s['ck'], H.zl(O.ROW_COLS), s['exp'])], prelude=PRELUDE)
        got = ctx.coq_eval(['Clauses', 'CqlSem', 'Mapper'], ['read_row sc_row (exec_all sc_row [] %s) %d (Some %d) %s' % (lst(s['all']), K, s['ck'], H.zl(O.ROW_COLS))], prelude=PRELUDE)
        print('row read back by CqlSem: %s' % got[0])
        print(('VIOLATION property=C35 replay=%s' % ctx.replay_path) if res else 'not reproduced')
        return 1 if res else 0
    print('nothing to replay: %s' % rp.get('theorem'))
    return 1
