"""C23 -- built-in retry policies make bounded, consistency-safe decisions.

Tie (T): every policy method is regenerated from cassandra/policies.py into coq/Gen/RetryPolicies.v and the
theorems of coq/Props/C23.v are re-checked against it.  (C): the generated Gallina is also run against the
real Python methods on a grid (translation validation), and the property's statement is evaluated directly
on the real methods (the directed search of DESIGN 2.6).
"""
import itertools, warnings
from vf import py2coq
from vf.specs import retry, retry_consts

META = {
    'technique': 'Coq proof over source-translated policy functions (py2coq) + translation validation on a grid',
    'level_text': 'Theorems C23_* (all integers, all levels/write types/retry counts) proved in Coq about Gallina '
                  'regenerated from cassandra/policies.py on every run; generated code validated against the Python '
                  'methods on a bounded grid.',
    'level_note': 'Trusted: Coq kernel; py2coq translator; block_for transcription of Cassandra ConsistencyLevel.blockFor; '
                  'reading of "what a coordinator can report" fixed in DESIGN 4.0.',
    'design_ref': 'DESIGN.md section 4, C23',
}


def zl(v):
    return '(%d)' % v if v < 0 else '%d' % v


def dec(d):
    a, b = d
    return '(%s, %s)' % (zl(a), 'None' if b is None else '(Some %s)' % zl(b))


def bl(b):
    return 'true' if b else 'false'


PRELUDE = '''
Definition dec_eqb (a b : Z * option Z) : bool :=
  (fst a =? fst b) && match snd a, snd b with Some x, Some y => x =? y | None, None => true | _, _ => false end.
'''


def gen(ctx):
    ctx.generate('RetryConsts.v', lambda: py2coq.emit_consts(ctx_repo(), retry_consts.items()))
    ctx.generate('RetryPolicies.v', lambda: py2coq.Translator(ctx_repo(), retry.fns()).emit())


def run(ctx):
    gen(ctx)
    ok = ctx.prove('Props/C23.v')
    if ctx.tier == 'thorough' and ok:
        ctx.coqchk('Props/C23.v')

    from cassandra import ConsistencyLevel as CL, WriteType as WT
    from cassandra import policies as P
    with warnings.catch_warnings():
        warnings.simplefilter('ignore')
        pols = {'Default': P.RetryPolicy(), 'Fallthrough': P.FallthroughRetryPolicy(),
                'Downgrading': P.DowngradingConsistencyRetryPolicy(), 'Never': P.NeverRetryPolicy()}
    RP = P.RetryPolicy
    needs = {CL.ONE: 1, CL.TWO: 2, CL.THREE: 3}
    serial = (CL.SERIAL, CL.LOCAL_SERIAL)
    cls = list(range(0, 11))
    counts = list(range(0, 6)) if ctx.tier == 'thorough' else [0, 1, 2, 3]
    retries = [0, 1, 2]
    wts = list(range(0, 8))
    grid = []
    for c, rq, rc, d, n in itertools.product(cls, counts, counts, (False, True), retries):
        grid.append(('read', c, None, rq, rc, d, n))
    for c, w, rq, rc, n in itertools.product(cls, wts, counts, counts, retries):
        grid.append(('write', c, w, rq, rc, None, n))
    for c, rq, rc, n in itertools.product(cls, counts, counts, retries):
        grid.append(('unav', c, None, rq, rc, None, n))
    # the grid is exhaustive in every tier (a single (level, count) point can carry a wrong decision); quick only has fewer counts
    ctx.exhaustive = True
    # boundary stream: large / negative counts (the theorems quantify over all integers)
    for big in (10**6, 2**63, -1, -7):
        grid.append(('read', CL.QUORUM, None, big, big - 1, False, 0))
        grid.append(('unav', CL.ALL, None, big, big - 1, None, 0))
        grid.append(('write', CL.QUORUM, WT.UNLOGGED_BATCH, big, big - 1, None, 0))
    ctx.rule = ('grid over consistency 0..10 x required/received 0..%d x data_retrieved x write types 0..7 x retry_num 0..2 '
                'for the 4 built-in policies (+ boundary tuples); non-trivial = distinct (policy, call, args) whose decision '
                'is not the constant RETHROW' % counts[-1])
    cases = []
    meta = []
    for pname, pol in pols.items():
        for g in grid:
            kind, c, w, rq, rc, d, n = g
            try:
                if kind == 'read':
                    out = pol.on_read_timeout(None, c, rq, rc, d, n)
                    args = '' if pname in ('Fallthrough', 'Never') else '%s %s %s %s %s' % (zl(c), zl(rq), zl(rc), bl(d), zl(n))
                    fn = '%s_on_read_timeout' % pname
                elif kind == 'write':
                    out = pol.on_write_timeout(None, c, w, rq, rc, n)
                    args = '' if pname in ('Fallthrough', 'Never') else '%s %s %s %s %s' % (zl(c), zl(w), zl(rq), zl(rc), zl(n))
                    fn = '%s_on_write_timeout' % pname
                else:
                    out = pol.on_unavailable(None, c, rq, rc, n)
                    args = '' if pname in ('Fallthrough', 'Never') else '%s %s %s %s' % (zl(c), zl(rq), zl(rc), zl(n))
                    fn = '%s_on_unavailable' % pname
                out = (int(out[0]), None if out[1] is None else int(out[1]))
            except Exception as e:  # a built-in policy must not raise on any report
                ctx.violation('raises.%s.%s' % (pname, kind), '%s.%s%r raised %r' % (pname, kind, g, e), case=[pname] + list(g),
                              expected='a (decision, consistency) pair', actual=repr(e))
                continue
            ctx.count('policy', pname)
            ctx.count('call', kind)
            ctx.count('decision', str(out[0]))
            ctx.case([pname] + list(g), nontrivial=(out != (RP.RETHROW, None)),
                     sample={'policy': pname, 'call': kind, 'consistency': c, 'write_type': w, 'required': rq,
                             'received_or_alive': rc, 'data_retrieved': d, 'retry_num': n, 'decision': out})
            cases.append('dec_eqb (%s %s) %s' % (fn, args, dec(out)))
            meta.append((pname, g, out))
            # ---- the property itself, on the implementation
            decision, cl2 = out
            key = None
            if decision not in (RP.RETRY, RP.RETHROW, RP.IGNORE, RP.RETRY_NEXT_HOST):
                key = 'bad-decision-code'
            elif pname in ('Fallthrough', 'Never') and out != (RP.RETHROW, None):
                key = 'retries'
            elif pname in ('Default', 'Downgrading') and n != 0 and out != (RP.RETHROW, None):
                key = 'retries-more-than-once'
            elif pname == 'Default' and n == 0:
                if kind == 'read':
                    exp = (RP.RETRY, c) if (rc >= rq and not d) else (RP.RETHROW, None)
                elif kind == 'write':
                    exp = (RP.RETRY, c) if w == WT.BATCH_LOG else (RP.RETHROW, None)
                else:
                    exp = (RP.RETRY_NEXT_HOST, None)
                if out != exp:
                    key = 'not-as-documented'
            elif pname == 'Downgrading' and n == 0:
                if kind in ('read', 'unav') and c in serial and cl2 is not None:
                    key = 'downgrades-serial'
                elif kind == 'write' and w == WT.CAS and out != (RP.RETHROW, None):
                    key = 'downgrades-serial'
                elif cl2 is not None:
                    if decision != RP.RETRY:
                        key = 'level-without-retry'
                    elif kind == 'read' and not ((cl2 == c and rq <= rc) or (cl2 in needs and needs[cl2] <= rc < rq)):
                        key = 'level-does-not-fit'
                    elif kind == 'unav' and not (cl2 in needs and needs[cl2] <= rc):
                        key = 'level-does-not-fit'
                    elif kind == 'write' and not ((cl2 == c and w == WT.BATCH_LOG) or
                                                  (w == WT.UNLOGGED_BATCH and cl2 in needs and needs[cl2] <= rc)):
                        key = 'level-does-not-fit'
                    elif rc < rq and cl2 != c and not (needs.get(cl2, 10**9) < rq):
                        key = 'stronger-level'
            if key:
                ctx.violation('%s.%s.%s' % (pname, kind, key),
                              '%s.on_%s%r returned %r: %s' % (pname, kind, g[1:], out, key),
                              case=[pname] + list(g), expected=key, actual=list(out), theorem='Props/C23.v')
    # ---- on_request_error (connection errors, overloaded, bootstrapping, truncate/server errors): documented = the fall-through policy
    # rethrows, every other built-in policy moves to the next host at the same level; never a consistency level
    from cassandra import OperationTimedOut
    from cassandra.connection import ConnectionException
    errors = [None, ConnectionException('closed'), OperationTimedOut(), Exception('overloaded'), 'ServerError']
    for pname, pol in pols.items():
        for c in cls:
            for n in (0, 1, 2, 5, 10**6):
                for ei, err in enumerate(errors):
                    g = ('reqerr', c, None, None, None, None, n)
                    try:
                        out = pol.on_request_error(None, c, err, n)
                        out = (int(out[0]), None if out[1] is None else int(out[1]))
                    except Exception as e:
                        ctx.violation('raises.%s.reqerr' % pname, '%s.on_request_error(consistency=%r, error #%d, retry_num=%r) raised %r' % (pname, c, ei, n, e),
                                      case=[pname] + list(g) + [ei], expected='a (decision, consistency) pair', actual=repr(e))
                        continue
                    ctx.count('call', 'reqerr')
                    ctx.case([pname] + list(g) + [ei], nontrivial=(out != (RP.RETHROW, None)),
                             sample={'policy': pname, 'call': 'reqerr', 'consistency': c, 'error': repr(err), 'retry_num': n, 'decision': out})
                    exp = (RP.RETHROW, None) if pname == 'Fallthrough' else (RP.RETRY_NEXT_HOST, None)
                    if out != exp:
                        ctx.violation('%s.reqerr.%s' % (pname, 'retries' if pname == 'Fallthrough' else 'not-as-documented'),
                                      '%s.on_request_error(consistency=%r, error=%r, retry_num=%r) returned %r, documented %r' % (pname, c, err, n, out, exp),
                                      case=[pname] + list(g) + [ei], expected=list(exp), actual=list(out), theorem='Props/C23.v')
                    if ei == 0:
                        cases.append('dec_eqb (%s_on_request_error %s) %s' % (pname, '' if pname == 'Fallthrough' else '%s %s' % (zl(c), zl(n)), dec(out)))
                        meta.append((pname, g, out))
    if 'translate:RetryPolicies.v' in [x[0] for x in ctx.proof_broken] or 'translate:RetryConsts.v' in [x[0] for x in ctx.proof_broken]:
        return
    # translation validation: generated Gallina vs the Python methods
    try:
        bad = ctx.coq_filter(['PyBase', 'RetryPolicies'], '(fun b : bool => b)', cases, prelude=PRELUDE)
    except RuntimeError as e:
        ctx.proof_broken.append(('correspondence:RetryPolicies', str(e)[-800:]))
        return
    for i in bad[:20]:
        pname, g, out = meta[i]
        ctx.disagreement('translation:%s.%s' % (pname, g[0]),
                         'generated Gallina for %s.on_%s differs from the Python method at %r (python: %r)' % (pname, g[0], g[1:], out),
                         case=[pname] + list(g), actual=list(out), model=cases[i])


def ctx_repo():
    from vf import core
    return core.REPO


def replay(ctx, rp):
    import json
    from cassandra import policies as P
    case = rp.get('case')
    if not case:
        print('nothing to replay (kind=%s): %s' % (rp.get('kind'), rp.get('theorem')))
        return 1
    pname, kind, c, w, rq, rc, d, n = case[:8]
    with warnings.catch_warnings():
        warnings.simplefilter('ignore')
        pol = {'Default': P.RetryPolicy, 'Fallthrough': P.FallthroughRetryPolicy,
               'Downgrading': P.DowngradingConsistencyRetryPolicy, 'Never': P.NeverRetryPolicy}[pname]()
    if kind == 'read':
        out = pol.on_read_timeout(None, c, rq, rc, d, n)
    elif kind == 'write':
        out = pol.on_write_timeout(None, c, w, rq, rc, n)
    elif kind == 'reqerr':
        from cassandra import OperationTimedOut
        from cassandra.connection import ConnectionException
        err = [None, ConnectionException('closed'), OperationTimedOut(), Exception('overloaded'), 'ServerError'][case[8]]
        out = pol.on_request_error(None, c, err, n)
    else:
        out = pol.on_unavailable(None, c, rq, rc, n)
    out = (int(out[0]), None if out[1] is None else int(out[1]))
    print('replay %s.%s%r -> %r (recorded %r; violated clause: %s)' % (pname, kind, case[2:], out, rp.get('actual'), rp.get('expected')))
    same = list(out) == rp.get('actual')
    print('VIOLATION property=C23 replay=%s' % ctx.replay_path if same else 'not reproduced')
    return 1 if same else 0
