"""C18 -- paged results yield every row exactly once, in order.

Proof: Props/C18.v over Model/Paging.v (any server script, any number of pages, empty pages anywhere).
Tie (C): the real ResultSet + ResponseFuture.start_fetching_next_page on a scripted fake server
(lib/vf/pgconc_paging.py), compared with the model after EVERY call (returned value, messages sent with their
paging_state, _current_rows, remaining _page_iter, _list_mode, _paging_state).
The statement itself is checked on the implementation by a Python oracle that knows nothing of the model."""
import itertools, json, os
from vf import core
from vf import pgconc_paging as P

META = {
    'technique': 'Coq proof (structural induction on the page script + request-prefix invariant over arbitrary call sequences) '
                 'on a hand-written ResultSet/ResponseFuture paging model + step-by-step correspondence with the real classes',
    'level_text': 'C18_iter / C18_iter_across_failures / C18_states / C18_states_kth / C18_stops (any access pattern) / C18_stops_iter / C18_list_eq_iter / C18_cont_iter / C18_cont_steps / C18_cont_no_requests / '
                  'C18_getitem / C18_eq / C18_manual_eq_iter proved for every page script (unbounded pages, empty pages anywhere, failing page requests and speculative executions of a page fetch anywhere; continuous paging sessions); '
                  'model tied to cassandra/cluster.py by differential execution after every ResultSet call.',
    'level_note': 'Trusted: Coq kernel, the harness fakes (session/pool/connection/event). Not modelled: errors/cancel inside a continuous paging session, '
                  'page-fetch errors other than one delivered to the caller and followed by a repeat of the call, zero-length paging states, Python recursion limit (~990 consecutive empty pages), '
                  'concurrent use of one ResultSet from several threads.',
    'design_ref': 'DESIGN.md section 4, C18',
}

SIMPLE_OPS = [('iter',), ('next',), ('fetch',), ('one',), ('current',), ('hasmore',), ('pstate',), ('bool',), ('list',)]


def mk_pages(sizes):
    """sizes: ints (a page with that many rows) or 'F' (the page request arriving at that point fails)"""
    pages, n = [], 1
    for s in sizes:
        if s in P.MARKS:
            pages.append(s)
            continue
        pages.append(list(range(n, n + s)))
        n += s
    return pages


def patterns(pages, rng, nrandom):
    """access patterns for one script: (name, ops)"""
    script = pages
    pages = P.script_pages(script)
    nf = sum(1 for x in script if x == P.FAIL)
    allr = [r for p in pages for r in p]
    n = len(allr)
    np_ = len(pages)
    out = []
    out.append(('iterate-steps', [('iter',)] + [('next',)] * (n + nf + 2)))
    out.append(('list', [('list',), ('list',), ('hasmore',)]))
    out.append(('getitem', [('getitem', rng.choice([0, -1, n - 1, n, -n - 1, n // 2])), ('getitem', 0), ('list',), ('iter',)]))
    out.append(('eq', [('eq', allr), ('eq', allr[:-1] if allr else [7]), ('current',)]))
    out.append(('eq-wrong-first', [('eq', allr + [99]), ('eq', allr)]))
    man = [('current',), ('hasmore',)]
    for _ in range(np_ + nf):
        man += [('fetch',), ('current',), ('pstate',), ('hasmore',)]
    out.append(('manual', man))
    k = rng.randint(0, n)
    out.append(('partial-then-list', [('iter',)] + [('next',)] * k + [('list',), ('getitem', 0), ('iter',), ('next',)]))
    out.append(('fetch-while-iterating', [('iter',), ('next',), ('fetch',), ('current',)] + [('next',)] * (n + 1)))
    out.append(('one-bool', [('one',), ('bool',), ('fetch',), ('one',), ('bool',), ('next',)]))
    for _ in range(nrandom):
        ln = rng.randint(1, 10)
        ops = [('iter',)] if rng.random() < 0.7 else []
        for _ in range(ln):
            c = rng.random()
            if c < 0.45:
                ops.append(('next',))
            elif c < 0.55:
                ops.append(('getitem', rng.randint(-n - 1, n + 1)))
            elif c < 0.62:
                ops.append(('eq', allr if rng.random() < 0.6 else allr[1:]))
            else:
                ops.append(rng.choice(SIMPLE_OPS))
        out.append(('mixed', ops))
    return out


CONT_OPS = [('iter',), ('next',), ('next',), ('next',), ('one',), ('hasmore',), ('pstate',), ('list',)]


def patterns_cont(pages, rng, nrandom):
    """access patterns for a continuous-paging result (one generator over all pushed pages)"""
    allr = [r for p in P.script_pages(pages) for r in p]
    n = len(allr)
    out = [('iterate-steps', [('iter',)] + [('next',)] * (n + 2)),
           ('list', [('list',), ('list',), ('hasmore',)]),
           ('getitem', [('getitem', rng.choice([0, -1, n - 1, n, -n - 1, n // 2])), ('getitem', 0), ('list',), ('iter',)]),
           ('eq', [('eq', allr), ('eq', allr[:-1] if allr else [7]), ('current',)]),
           ('eq-wrong-first', [('eq', allr + [99]), ('eq', allr)]),
           ('partial-then-list', [('iter',)] + [('next',)] * rng.randint(0, n) + [('list',), ('getitem', 0), ('iter',), ('next',)])]
    for _ in range(nrandom):
        ops = [('iter',)] if rng.random() < 0.7 else []
        for _ in range(rng.randint(1, 10)):
            c = rng.random()
            if c < 0.1:
                ops.append(('getitem', rng.randint(-n - 1, n + 1)))
            elif c < 0.17:
                ops.append(('eq', allr if rng.random() < 0.6 else allr[1:]))
            else:
                ops.append(rng.choice(CONT_OPS))
        # list mode is an ordinary paged state again; keep to the calls modelled for a continuous result
        out.append(('mixed', ops))
    return out


def oracle(ctx, name, pages, ops, eager, res, mode=None):
    """The statement, evaluated on what the implementation did.  Returns True if a violation was reported."""
    script = pages
    pages = P.script_pages(script)
    nf = sum(1 for x in script if x == P.FAIL)
    mode = mode or {}
    lead = 0
    while script[lead] == P.FAIL:
        lead += 1                          # failures of the very first request: execute() itself is called again
    allr = [r for p in pages for r in p]
    n = len(allr)
    expect_states = P.expected_requests(script)
    if mode.get('cont'):
        expect_states = [None] * (1 + lead)     # continuous paging: the server pushes the pages, nothing more is requested
    case = {'pages': script, 'ops': [list(o) for o in ops], 'eager': eager, 'pattern': name, 'mode': mode}
    pages = script                          # for messages
    sent = res['sent']
    tr = res['trace']
    # any access pattern: states in order, nothing after the page without paging state
    if mode.get('cont') and len(sent) > len(expect_states):
        ctx.violation('continuous.page-requested', 'pages=%r ops=%s (continuous paging, protocol %s): %d requests, the session needs one (carried states %r)' % (
            pages, name, mode.get('pv'), len(sent), sent), case=case, expected=expect_states, actual=sent, theorem='C18_cont_no_requests', kind='history')
        return True
    if -1 in sent:
        ctx.violation('request.paging-state-unreadable-in-encoded-request',
                      'pages=%r ops=%s mode=%r: a page request does not carry the paging state where the server reads it (states read back from '
                      'the encoded bodies: %r)' % (pages, name, mode, sent), case=case, expected=expect_states, actual=sent, theorem='C18_states', kind='history')
        return True
    if res['bogus'] or len(sent) > len(expect_states):
        ctx.violation('request.after-last-page', 'pages=%r ops=%s: %d requests for %d pages + %d failed requests (carried states %r)' % (pages, name, len(sent), len(P.script_pages(script)), nf, sent),
                      case=case, expected=expect_states, actual=sent, theorem='C18_stops', kind='history')
        return True
    if sent != expect_states[:len(sent)]:
        ctx.violation('request.wrong-paging-state', 'pages=%r ops=%s: requests carried %r, expected a prefix of %r' % (pages, name, sent, expect_states),
                      case=case, expected=expect_states, actual=sent, theorem='C18_states', kind='history')
        return True
    if any(r[1] == ('exc', 'VFuel:Deadlock') for r in tr):
        ctx.violation('fetch.blocks-forever', 'pages=%r ops=%s: result() waits although no request is in flight' % (pages, name),
                      case=case, expected='no deadlock', actual='deadlock', theorem='C18_iter', kind='history')
        return True

    def bad(key, what, exp, act, thm):
        ctx.violation(key, 'pages=%r pattern=%s: %s (expected %r, got %r)' % (pages, name, what, exp, act), case=case, expected=exp, actual=act,
                      theorem=thm, kind='history')
        return True
    if name == 'iterate-steps':
        # the application keeps calling next() on the same iterator after a failed page fetch
        got = [r[1][1] for r in tr[1:] if r[1][0] == 'row']
        stops = [r[1] for r in tr[1:] if r[1][0] != 'row']
        if got != allr or sorted(stops) != sorted([('exc', 'VError')] * (nf - lead) + [('exc', 'VStop')] * (2 + lead)):
            return bad('iterate.rows' if nf == 0 else 'iterate.rows-across-failed-fetch',
                       'iteration (continued after failed page fetches) does not yield the concatenation of the pages', allr, got + stops,
                       'C18_iter' if nf == 0 else 'C18_iter_across_failures')
        if sent != expect_states:
            return bad('iterate.requests', 'iteration did not request every page exactly once', expect_states, sent, 'C18_states')
    elif nf and name != 'manual':
        return False                        # the remaining named readings are stated for scripts without failing requests
    elif name == 'list':
        if tr[0][1] != ('rows', allr):
            return bad('list.rows', 'list(result_set) is not the concatenation of the pages', allr, tr[0][1], 'C18_iter')
        if sent != expect_states:
            return bad('iterate.requests', 'list() did not request every page exactly once', expect_states, sent, 'C18_states')
    elif name == 'getitem':
        i = ops[0][1]
        exp = ('row', allr[i]) if -n <= i < n else ('exc', 'VIndexError')
        if tr[0][1] != exp:
            return bad('getitem.ne.iter', 'result_set[%d] disagrees with iteration' % i, exp, tr[0][1], 'C18_getitem')
        exp0 = ('row', allr[0]) if n else ('exc', 'VIndexError')
        if tr[1][1] != exp0 or tr[2][1] != ('rows', allr) or tr[3][1] != ('rows', allr):
            return bad('list.ne.iter', 'materialised list disagrees with iteration', allr, [tr[1][1], tr[2][1], tr[3][1]], 'C18_list_eq_iter')
    elif name == 'eq':
        if tr[0][1] != ('bool', True) or tr[1][1] != ('bool', False) or tr[2][1] != ('rows', allr):
            return bad('eq.ne.iter', '== disagrees with iteration', [True, False, allr], [x[1] for x in tr], 'C18_eq')
    elif name == 'eq-wrong-first':
        if tr[0][1] != ('bool', False) or tr[1][1] != ('bool', True):
            return bad('eq.ne.iter', '== disagrees with iteration', [False, True], [x[1] for x in tr], 'C18_eq')
    elif name == 'manual':
        rows, ok_fetch = [], True
        for op, r in zip(ops, tr):
            if op[0] == 'fetch':
                ok_fetch = r[1] == ('none',)       # a failed fetch_next_page() is simply called again
            if op[0] == 'current' and ok_fetch:
                rows += r[1][1]
        if rows != allr:
            return bad('manual.ne.iter', 'manual fetch_next_page loop disagrees with iteration', allr, rows, 'C18_manual_eq_iter')
        # has_more_pages must turn False exactly after the last page
        hm = [r[1][1] for op, r in zip(ops, tr) if op[0] == 'hasmore']
        npg = len(P.script_pages(script))
        exp = [k < npg - 1 for k in range(npg)] + [False]
        if nf == 0 and hm != exp:
            return bad('manual.has_more', 'has_more_pages sequence wrong', exp, hm, 'C18_manual_eq_iter')
    return False


def scripts(ctx):
    quick = ctx.tier == 'quick'
    out = []
    maxp = 3 if quick else 5
    for np_ in range(1, maxp + 1):
        for sizes in itertools.product((0, 1, 2), repeat=np_):
            out.append(sizes)
    # one failing page request at every position of every small script
    base = list(out)
    for sizes in base:
        if len(sizes) <= (3 if quick else 4):
            for pos in range(len(sizes)):
                out.append(sizes[:pos] + (P.FAIL,) + sizes[pos:])
    for _ in range(90 if quick else 1500):
        np_ = ctx.rng.randint(4 if quick else 6, 8)
        out.append(tuple(ctx.rng.choice((0, 0, 1, 2, 3)) for _ in range(np_)))
    # a speculative execution firing inside the page fetch, at every position (after the first page) of every small script
    for sizes in base:
        if 2 <= len(sizes) <= (3 if quick else 4):
            for pos in range(1, len(sizes)):
                out.append(sizes[:pos] + (P.SPEC,) + sizes[pos:])
    for _ in range(90 if quick else 1500):
        np_ = ctx.rng.randint(2, 7)
        sc = []
        for k in range(np_):
            while ctx.rng.random() < 0.3 and len(sc) < 12:
                sc.append(P.FAIL)
            if k > 0 and ctx.rng.random() < 0.3:
                sc.append(P.SPEC)
                if ctx.rng.random() < 0.3:
                    sc.append(P.SPEC)
            sc.append(ctx.rng.choice((0, 0, 1, 2, 3)))
        out.append(tuple(sc))
    # boundary: all empty, long runs of empty pages, one big page
    out += [(0,) * 8, (0, 0, 0, 0, 0, 0, 0, 1), (3, 0, 0, 0, 0, 0, 0, 0), (1, 0, 1, 0, 1, 0, 1, 0), (12,), (5, 5),
            (1, P.FAIL, P.FAIL, P.FAIL, 1), (P.FAIL, P.FAIL, 2, 0, P.FAIL, 0, P.FAIL, 1), (2, P.FAIL, 0),
            (1, P.SPEC, P.SPEC, 0, P.SPEC, 2), (0, P.SPEC, 0, P.SPEC, 1), (1, P.FAIL, P.SPEC, 1)]
    return out, maxp


def run(ctx):
    ok = ctx.prove('Props/C18.v')
    if ctx.tier == 'thorough' and ok:
        ctx.coqchk('Props/C18.v')
    ctx.trust('C18 harness fakes: FakeSession/FakePool/FakeConnection/FakeEvent and the scripted server (lib/vf/pgconc_paging.py)')
    # corpus first
    cdir = os.path.join(core.VERIF, 'corpus', 'C18')
    corpus = []
    if os.path.isdir(cdir):
        for fn in sorted(os.listdir(cdir)):
            with open(os.path.join(cdir, fn)) as f:
                c = json.load(f)
            corpus.append((c.get('pattern', 'mixed'), c['pages'], [tuple(o) for o in c['ops']], c.get('eager', False), c.get('mode')))
    ss, maxp = scripts(ctx)
    ctx.exhaustive = True
    ctx.rule = ('every page-size sequence over {0,1,2} with <= %d pages (exhaustive) + random sequences of up to 8 pages over {0..3} + boundary '
                'scripts, scripts with page requests that fail with a rethrown read timeout at every position / at random, scripts with a speculative execution firing inside a page fetch at every position / at random, half of the statements with a serial consistency level (requests observed in the encoded body), continuous paging results on DSE_V1/DSE_V2 for every script with <= 3 pages, callback-driven paging (add_callbacks + start_fetching_next_page) with the first answer before / after registration, each x 9 named access patterns (step iteration, list(), [i], ==, manual fetch loop, partial-then-list, '
                'fetch while iterating, one/bool) + random mixed call sequences, each with the response delivered before / while the caller '
                'waits; non-trivial = distinct (script, ops) with >= 2 pages' % maxp)
    cases, meta = [], []
    todo = list(corpus)
    nrandom = 4 if ctx.tier == 'quick' else 10
    for sizes in ss:
        pages = mk_pages(sizes)
        for name, ops in patterns(pages, ctx.rng, nrandom):
            # half of the statements carry a serial consistency level (the paging state must still be where the server reads it)
            mode = {'serial': True} if ctx.rng.random() < 0.5 else {}
            if P.SPEC in pages:
                twice = any(a == P.SPEC and b == P.SPEC for a, b in zip(pages, pages[1:]))
                if twice or ctx.rng.random() < 0.5:
                    mode['late'] = True      # the losing answers arrive after the next page fetch has started
            todo.append((name, pages, ops, ctx.rng.random() < 0.5, mode or None))
    # continuous paging (DSE_V1: no back-pressure state; DSE_V2: with it)
    for np_ in range(1, (3 if ctx.tier == 'quick' else 4) + 1):
        for sizes in itertools.product((0, 1, 2), repeat=np_):
            for pv in (65, 66):
                pages = mk_pages(sizes)
                for name, ops in patterns_cont(pages, ctx.rng, 2 if ctx.tier == 'quick' else 4):
                    todo.append((name, pages, ops, ctx.rng.random() < 0.5, {'cont': True, 'pv': pv}))
    for name, pages, ops, eager, mode in todo:
        res = P.run_case(pages, ops, eager, mode=mode)
        cont = bool(mode and mode.get('cont'))
        ctx.count('mode', 'continuous pv=%d' % mode['pv'] if cont else ('serial' if mode and mode.get('serial') else 'plain'))
        ctx.count('speculative_firings', sum(1 for p in pages if p == P.SPEC))
        if mode and mode.get('late'):
            ctx.count('mode', 'late answers of speculative executions')
        ctx.case([pages, [list(o) for o in ops], eager], nontrivial=len(P.script_pages(pages)) >= 2,
                 sample={'pages': pages, 'ops': [o[0] for o in ops], 'sent_paging_states': res['sent'],
                         'returns': [r[1] for r in res['trace']][:8]})
        ctx.count('pages', len(P.script_pages(pages)))
        ctx.count('empty_pages', sum(1 for p in pages if not p))
        ctx.count('failed_requests', sum(1 for p in pages if p == P.FAIL))
        ctx.count('pattern', name)
        ctx.count('delivery', 'before-wait' if eager else 'during-wait')
        for r in res['trace']:
            if r[1][0] == 'exc':
                ctx.count('exceptions', r[1][1])
        oracle(ctx, name, pages, ops, eager, res, mode)
        cases.append(P.g_case(pages, ops, res, cont))
        meta.append((name, pages, ops, eager, res, mode))
    # callback-driven paging (documented pattern), first answer processed before / after add_callbacks()
    acases, ameta = [], []
    for sizes in ss:
        script = mk_pages(sizes)
        if script[0] == P.FAIL:
            continue
        for early in (True, False):
            mode = {'serial': True} if ctx.rng.random() < 0.5 else {}
            if P.SPEC in script:
                mode['late'] = True
            res = P.run_async(script, early, mode)
            pages_ = P.script_pages(script)
            allr = [r for p in pages_ for r in p]
            nf = sum(1 for x in script if x == P.FAIL)
            ctx.case(['async', script, early, mode], nontrivial=len(pages_) >= 2,
                     sample={'pattern': 'add_callbacks(handle_page) + start_fetching_next_page', 'pages': script, 'first_answer_before_add_callbacks': early,
                             'rows': res['rows'], 'sent_paging_states': res['sent'], 'finished': res['finished']})
            ctx.count('pattern', 'async-callbacks')
            case = {'async': True, 'pages': script, 'early': early, 'mode': mode}
            exp_req = P.expected_requests(script)
            what = None
            if res['sent'] != exp_req[:len(res['sent'])] or res['bogus']:
                what = ('async.requests', 'requests carried %r, expected a prefix of %r' % (res['sent'], exp_req), 'C18_stops')
            elif nf == 0 and res['rows'] != allr:
                what = ('async.rows-ne-iter', 'the page handler was given %r, iteration yields %r' % (res['rows'], allr), 'C18_async_eq_iter')
            elif nf == 0 and (not res['finished'] or res['sent'] != exp_req):
                what = ('async.handler-never-finishes', 'finished=%r after requests %r (expected %r): a delivered page was not handed to the registered callback' % (
                    res['finished'], res['sent'], exp_req), 'C18_async_eq_iter')
            elif nf and (res['rows'] != allr[:len(res['rows'])] or res['error'] is None):
                what = ('async.rows-ne-iter', 'with a failing page request the handler got %r and error %r' % (res['rows'], res['error']), 'C18_async_eq_iter')
            if what:
                ctx.violation(what[0], 'callback-driven paging, pages=%r, first answer %s add_callbacks(): %s' % (
                    script, 'before' if early else 'after', what[1]), case=case, expected=allr, actual=res, theorem=what[2], kind='history')
            acases.append(P.g_async(script, early, res))
            ameta.append((script, early, mode, res))
    try:
        bada = ctx.coq_filter(['Paging'], '(fun b : bool => b)', acases, shard=400)
        for i in bada[:5]:
            script, early, mode, res = ameta[i]
            ctx.disagreement('model-vs-impl.async', 'callback-driven paging differs from Model/Paging.v async_pages at pages=%r early=%r: %r' % (script, early, res),
                             case={'async': True, 'pages': script, 'early': early, 'mode': mode}, actual=res)
    except RuntimeError as e:
        ctx.proof_broken.append(('correspondence:Paging.async', str(e)[-600:]))
    try:
        bad = ctx.coq_filter(['Paging'], '(fun b : bool => b)', cases, shard=250)
        for i in bad[:10]:
            name, pages, ops, eager, res, mode = meta[i]
            model = None
            try:
                if mode and mode.get('cont'):
                    raise RuntimeError('continuous')
                model = ctx.coq_eval(['Paging'], ['let \'(s0, o0) := init %s in (o0, obs s0, run s0 [%s])' % (
                    P.g_server(pages), '; '.join(P.g_op(o) for o in ops))])[0]
            except RuntimeError:
                pass
            ctx.disagreement('model-vs-impl.' + name, 'ResultSet differs from Model/Paging.v at pages=%r ops=%r' % (pages, ops),
                             case={'pages': pages, 'ops': [list(o) for o in ops], 'eager': eager, 'pattern': name, 'mode': mode},
                             actual={'init': res['init'], 'trace': res['trace']}, model=model)
    except RuntimeError as e:
        ctx.proof_broken.append(('correspondence:Paging', str(e)[-600:]))
    # malformed stream (evidence only): a zero-length paging state -- has_more_pages is `is not None`,
    # start_fetching_next_page tests truthiness
    try:
        r = P.run_case([[1], [2]], [('list',)], False, state_of=lambda k: b'')
        ctx.extra['malformed_zero_length_paging_state'] = {'returned': r['trace'][0][1], 'sent': r['sent']}
    except Exception as e:  # noqa
        ctx.extra['malformed_zero_length_paging_state'] = 'harness: %r' % (e,)
    ctx.assume('a ResultSet is used by one thread at a time; each page request is answered by exactly one ROWS result',
               'paging states are non-empty byte strings; the server answers according to the paging state carried by the request')


def replay(ctx, rp):
    case = rp.get('case') or {}
    if case.get('async'):
        res = P.run_async(case['pages'], case['early'], case.get('mode'))
        pages_ = P.script_pages(case['pages'])
        allr = [r for p in pages_ for r in p]
        nf = sum(1 for x in case['pages'] if x == P.FAIL)
        print('replay callback-driven paging pages=%r early=%r -> %r' % (case['pages'], case['early'], res))
        bad = (nf == 0 and (res['rows'] != allr or not res['finished'])) or res['sent'] != P.expected_requests(case['pages'])[:len(res['sent'])]
        print(('VIOLATION property=C18 replay=%s' % ctx.replay_path) if bad else 'not reproduced')
        return 1 if bad else 0
    if not case.get('pages'):
        print('nothing to replay: %s' % rp.get('theorem'))
        return 1
    pages, ops, eager = case['pages'], [tuple(o) for o in case['ops']], case.get('eager', False)
    res = P.run_case(pages, ops, eager, mode=case.get('mode'))
    print('replay pages=%r ops=%r mode=%r' % (pages, ops, case.get('mode')))
    print('  carried paging states: %r' % (res['sent'],))
    for op, r in zip(ops, res['trace']):
        print('  %-10s sent=%r -> %r   state=%r' % (op[0], r[0], r[1], r[2]))
    bad = oracle(ctx, case.get('pattern', 'mixed'), pages, ops, eager, res, case.get('mode'))
    print(('VIOLATION property=C18 replay=%s' % ctx.replay_path) if bad else 'not reproduced')
    return 1 if bad else 0
