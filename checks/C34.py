"""C34 -- Date, time and time-UUID helpers convert consistently.

Proof: coq/Props/C34.v.  Tie (T): util.Time's field properties and _from_timestamp are regenerated from source
(Gen/UtilTime.v).  Tie (C): util.Date (exhaustive over years 1..9999 in the thorough tier), Time strings,
uuid_from_time / unix_time_from_uuid1 / datetime_from_uuid1 / min/max_uuid_from_time against the Coq models
(vm_compute) and against the property's own statement evaluated on the implementation.
"""
import datetime, glob, json, os, uuid
from vf import py2coq, core
from vf import marshal_validation as MV
from vf.specs import utiltime

META = {
    'technique': 'Coq proof over calendar / time-of-day / time-UUID models (Time fields translated from source by py2coq) + '
                 'exhaustive (thorough) or sampled (quick) correspondence with cassandra.util',
    'level_text': 'C34_days_civil_roundtrip (all integers), C34_date_string (years 1..9999), C34_time_roundtrip, C34_time_range '
                  '(over translated _from_timestamp), C34_uuid_time, C34_uuid_bounds proved in Coq; models tied to util.py by '
                  'translation (Time fields) and by correspondence (Date over all 3,652,059 days in the thorough tier).',
    'level_note': 'Trusted: Coq kernel, py2coq, harness, my transcription of Cassandra TimeUUIDType.compare (timestamp, then signed '
                  'bytes). The float arithmetic of uuid_from_time/unix_time_from_uuid1 is modelled exactly in Z and compared to the microsecond.',
    'design_ref': 'DESIGN.md section 4, C34',
}

DAY = 86400 * 10 ** 9
MIN_DAY, MAX_DAY = -719162, 2932896
OFFSET = 0x01b21dd213814000


def gen(ctx):
    ctx.generate('UtilTime.v', lambda: py2coq.Translator(core.REPO, utiltime.fns()).emit())
    # second (T) unit: the integer tail of uuid_from_time and Time._from_timestamp (Gen/UtilTimeGen.v, Proofs/C34_bridge.v)
    MV.gen(ctx, parts=('time',))


def zl(v):
    return '(%d)' % v if v < 0 else '%d' % v


def codes(s):
    return '[' + '; '.join(str(ord(c)) for c in s) + ']'


# ---------------------------------------------------------------- Python transcription of Model/Civil.v (validated against Coq below)
def py_ymd_of_doe(doe):
    yoe = (doe - doe // 1460 + doe // 36524 - doe // 146096) // 365
    doy = doe - (365 * yoe + yoe // 4 - yoe // 100)
    mp = (5 * doy + 2) // 153
    d = doy - (153 * mp + 2) // 5 + 1
    m = mp + 3 if mp < 10 else mp - 9
    return yoe, m, d


def py_civil_from_days(n):
    z = n + 719468
    yoe, m, d = py_ymd_of_doe(z % 146097)
    return yoe + (z // 146097) * 400 + (1 if m <= 2 else 0), m, d


def py_days_from_civil(y, m, d):
    y2 = y - 1 if m <= 2 else y
    yoe = y2 % 400
    return (y2 // 400) * 146097 + yoe * 365 + yoe // 4 - yoe // 100 + (153 * ((m + 9) % 12) + 2) // 5 + d - 1 - 719468


# ---------------------------------------------------------------- Python transcription of the comparator of Model/TimeUUID.v
def s8(b):
    return b if b < 128 else b - 256


def cass_cmp(u, v):
    if u.time != v.time:
        return -1 if u.time < v.time else 1
    a, b = [s8(x) for x in u.bytes[8:]], [s8(x) for x in v.bytes[8:]]
    return (a > b) - (a < b)


def g_uuid(u):
    f = u.fields
    return '{| f_low := %d; f_mid := %d; f_hiv := %d; f_csh := %d; f_csl := %d; f_node := %d |}' % f


class DstZone(datetime.tzinfo):
    """a zone with daylight saving: UTC-5 in months 11..3, UTC-4 in months 4..10 (rule on the local month)"""
    def utcoffset(self, dt):
        return datetime.timedelta(hours=-4 if 4 <= dt.month <= 10 else -5)

    def dst(self, dt):
        return datetime.timedelta(hours=1 if 4 <= dt.month <= 10 else 0)

    def tzname(self, dt):
        return 'DST'


AWARE = {'aware+0530': 330, 'aware-0800': -480, 'aware+1400': 840, 'aware+0000': 0, 'aware-dst': None}


def aware_datetime(us, via):
    """the instant `us` microseconds after the epoch as a timezone-AWARE datetime in the zone named by `via` (None: not expressible)"""
    naive = datetime.datetime(1970, 1, 1) + datetime.timedelta(microseconds=us)
    try:
        if AWARE[via] is not None:
            off = datetime.timedelta(minutes=AWARE[via])
            return (naive + off).replace(tzinfo=datetime.timezone(off))
        tz = DstZone()
        for hours in (-4, -5):
            local = (naive + datetime.timedelta(hours=hours)).replace(tzinfo=tz)
            if tz.utcoffset(local) == datetime.timedelta(hours=hours):
                return local
    except OverflowError:
        pass
    return None


# ---------------------------------------------------------------- single cases (used by run and replay)
def date_case(n):
    """-> (violations [(key, what)], observations dict)"""
    from cassandra.util import Date
    v = []
    d = Date(n)
    s = str(d)
    obs = {'n': n, 'str': s}
    if MIN_DAY <= n <= MAX_DAY:
        if not (len(s) == 10 and s[4] == '-' and s[7] == '-' and (s[:4] + s[5:7] + s[8:]).isdigit()):
            v.append(('Date.str.format', "str(Date(%d)) = %r is not 'yyyy-mm-dd'" % (n, s)))
        else:
            try:
                back = Date(s).days_from_epoch
            except Exception as e:
                back = repr(e)
            obs['back'] = back
            if back != n:
                v.append(('Date.str.roundtrip', 'Date(%r).days_from_epoch = %r, expected %d' % (s, back, n)))
            try:
                dd = d.date()
                obs['date'] = [dd.year, dd.month, dd.day]
                if Date(dd).days_from_epoch != n:
                    v.append(('Date.date.roundtrip', 'Date(Date(%d).date()) = %r' % (n, Date(dd).days_from_epoch)))
                if (datetime.date(1970, 1, 1) + datetime.timedelta(days=n)) != dd:
                    v.append(('Date.date.wrong', 'Date(%d).date() = %r' % (n, dd)))
                if dd.isoformat() != s:
                    v.append(('Date.str.wrong', 'str(Date(%d)) = %r but date() = %r' % (n, s, dd)))
            except ValueError as e:
                v.append(('Date.date.raises', 'Date(%d).date() raised %r inside years 1..9999' % (n, e)))
    return v, obs


def date_dt_case(y, m, d, hh, mm, ss, us, cls):
    """Date(datetime.datetime / datetime.date): the day count must be that of the calendar day, whatever the time of day"""
    from cassandra.util import Date
    v = []
    arg = datetime.datetime(y, m, d, hh, mm, ss, us) if cls == 'datetime' else datetime.date(y, m, d)
    got = Date(arg).days_from_epoch
    want = (datetime.date(y, m, d) - datetime.date(1970, 1, 1)).days
    obs = {'arg': repr(arg), 'days': got}
    if got != want:
        v.append(('Date.from_datetime.wrong_day', 'Date(%r).days_from_epoch = %d (%s), the calendar day is %d (%04d-%02d-%02d)'
                  % (arg, got, Date(got), want, y, m, d)))
    elif str(Date(arg)) != '%04d-%02d-%02d' % (y, m, d) or Date(arg).date() != datetime.date(y, m, d) or not (Date(arg) == datetime.date(y, m, d)):
        v.append(('Date.from_datetime.roundtrip', 'Date(%r) prints %s / date() %r' % (arg, Date(arg), Date(arg).date())))
    return v, obs


def time_int_case(n):
    from cassandra.util import Time
    v = []
    obs = {'n': n}
    try:
        t = Time(n)
        obs['accepted'] = True
    except ValueError:
        obs['accepted'] = False
        if 0 <= n < DAY:
            v.append(('Time.from_int.rejected_valid', 'Time(%d) rejected although within one day' % n))
        return v, obs
    if n < 0:
        v.append(('Time.from_int.negative_accepted', 'Time(%d) accepted: negative nanoseconds are not a time within one day (str: %s)' % (n, t)))
        return v, obs
    if n >= DAY:
        v.append(('Time.from_int.overflow_accepted', 'Time(%d) accepted: beyond one day' % n))
        return v, obs
    f = (t.hour, t.minute, t.second, t.nanosecond)
    obs['fields'] = list(f)
    obs['str'] = str(t)
    if t.nanosecond_time != n or f[0] * 3600 * 10 ** 9 + f[1] * 60 * 10 ** 9 + f[2] * 10 ** 9 + f[3] != n or \
            not (0 <= f[0] <= 23 and 0 <= f[1] <= 59 and 0 <= f[2] <= 59 and 0 <= f[3] < 10 ** 9):
        v.append(('Time.fields.lossy', 'Time(%d) has fields %r' % (n, f)))
    try:
        back = Time(str(t)).nanosecond_time
    except Exception as e:
        back = repr(e)
    if back != n:
        v.append(('Time.str.roundtrip', 'Time(str(Time(%d))) = %r (str %r)' % (n, back, str(t))))
    pt = t.time()
    if (pt.hour, pt.minute, pt.second, pt.microsecond) != (f[0], f[1], f[2], f[3] // 1000) or Time(pt).nanosecond_time != n - n % 1000:
        v.append(('Time.time.roundtrip', 'Time(%d).time() = %r' % (n, pt)))
    return v, obs


def expected_time_string(s):
    """the time a well-formed 'HH:MM:SS[.f{0,9}]' denotes, or None if it is not a time within one day / malformed"""
    import re
    m = re.match(r'^(\d\d):(\d\d):(\d\d)(?:\.(\d{0,9}))?$', s)
    if not m:
        return 'malformed'
    h, mi, se = int(m.group(1)), int(m.group(2)), int(m.group(3))
    frac = int((m.group(4) or '').ljust(9, '0') or '0')
    if h > 23 or mi > 59 or se > 59:
        return None
    return h * 3600 * 10 ** 9 + mi * 60 * 10 ** 9 + se * 10 ** 9 + frac


def time_str_case(s):
    from cassandra.util import Time
    v = []
    obs = {'s': s}
    exp = expected_time_string(s)
    try:
        got = Time(s).nanosecond_time
    except ValueError:
        got = None
    obs['got'] = got
    if got is not None and not (0 <= got < DAY):
        v.append(('Time.from_string.outside_day_accepted', 'Time(%r) accepted with nanosecond_time %d: not a time within one day' % (s, got)))
    elif exp not in (None, 'malformed') and got != exp:
        v.append(('Time.from_string.wrong', 'Time(%r) = %r, expected %d' % (s, got, exp)))
    return v, obs


def uuid_case(us, node, clock, via):
    from cassandra import util as U
    v = []
    obs = {'us': us, 'node': node, 'clock': clock, 'via': via}
    if via == 'datetime':
        arg = datetime.datetime(1970, 1, 1) + datetime.timedelta(microseconds=us)
    elif via in AWARE:
        arg = aware_datetime(us, via)
        if arg is None:
            return v, None
        # self-check of the harness: the aware datetime denotes the intended instant
        assert arg - datetime.datetime(1970, 1, 1, tzinfo=datetime.timezone.utc) == datetime.timedelta(microseconds=us)
    elif via == 'int':
        arg = us // 10 ** 6
        us = arg * 10 ** 6
    else:
        arg = us / 1e6
        if int(arg * 1e6) != us:     # the float path does not hit this microsecond: not a case about the layout
            return v, None
    obs['us'] = us
    try:
        u = U.uuid_from_time(arg, node, clock)
    except ValueError:
        obs['raised'] = True
        if 0 <= node < 2 ** 48 and 0 <= clock < 2 ** 14 and 0 <= us * 10 + OFFSET < 2 ** 60:
            v.append(('uuid_from_time.rejected_valid', 'uuid_from_time(%r, %d, %d) raised' % (arg, node, clock)))
        return v, obs
    obs['int'] = u.int
    if via != 'float' and via != 'int' and abs(us * 10) >= 2 ** 56:
        # the datetime path multiplies in floating point: beyond 2^56 intervals (year ~2198) its rounding exceeds half a microsecond.
        # DESIGN C34 "not covered": recorded as evidence, not judged (and not compared with the exact model)
        obs['float_limited'] = True
        return v, obs
    if not (0 <= node < 2 ** 48 and 0 <= clock < 2 ** 14 and 0 <= us * 10 + OFFSET < 2 ** 60):
        return v, obs      # out-of-range fields (negative clock, instants outside the 60-bit timestamp): outside the quantifier
    if u.version != 1 or u.variant != uuid.RFC_4122:
        v.append(('uuid_from_time.not_v1', '%s is not an RFC 4122 version 1 UUID' % u))
    back = U.unix_time_from_uuid1(u)
    if abs(back * 1e6 - us) >= 1:
        v.append(('unix_time_from_uuid1.lossy', 'uuid_from_time(%r) decodes to %r (expected %d us)' % (arg, back, us)))
    try:
        dt = U.datetime_from_uuid1(u)
        want = datetime.datetime(1970, 1, 1) + datetime.timedelta(microseconds=us)
        if abs(dt - want) > datetime.timedelta(microseconds=1):
            v.append(('datetime_from_uuid1.lossy', 'datetime_from_uuid1 gives %r, expected %r' % (dt, want)))
    except OverflowError:
        pass
    lo, hi = U.min_uuid_from_time(arg), U.max_uuid_from_time(arg)
    obs['min'], obs['max'] = lo.int, hi.int
    want = us * 10 + OFFSET
    if abs(u.time - want) >= 10:
        v.append(('uuid_from_time.other_instant', 'uuid_from_time(%r) carries timestamp %d, the instant is %d (off by %s us)'
                  % (arg, u.time, want, (u.time - want) // 10)))
    if abs(lo.time - want) >= 10 or abs(hi.time - want) >= 10 or lo.time != u.time or hi.time != u.time:
        v.append(('min_max_uuid.other_instant', 'min/max uuid of %r carry timestamps %d / %d, the instant is %d: they do not bracket '
                  'the time-UUIDs of that instant' % (arg, lo.time, hi.time, want)))
    if v:
        pass
    elif cass_cmp(lo, u) > 0:
        v.append(('min_uuid_from_time.not_lower_bound', 'min_uuid %s sorts after %s in Cassandra order' % (lo, u)))
    elif cass_cmp(u, hi) > 0:
        v.append(('max_uuid_from_time.not_upper_bound', 'max_uuid %s sorts before %s in Cassandra order' % (hi, u)))
    return v, obs


def run_case(case):
    t = case['t']
    if t == 'date':
        return date_case(case['n'])
    if t == 'date_dt':
        return date_dt_case(case['y'], case['m'], case['d'], case['hh'], case['mm'], case['ss'], case.get('us', 0), case.get('cls', 'datetime'))
    if t == 'time_int':
        return time_int_case(case['n'])
    if t == 'time_str':
        return time_str_case(case['s'])
    if t == 'uuid':
        return uuid_case(case['us'], case['node'], case['clock'], case.get('via', 'float'))
    raise ValueError(case)


def corpus_cases():
    out = []
    for p in sorted(glob.glob(os.path.join(core.VERIF, 'corpus', 'C34', '*.json'))):
        with open(p) as f:
            out.extend(json.load(f))
    return out


def run(ctx):
    gen(ctx)
    ok = ctx.prove('Props/C34.v')
    if ctx.tier == 'thorough' and ok:
        ctx.coqchk('Props/C34.v')
    try:
        MV.validate(ctx, parts=('time',))
    except Exception as e:
        ctx.proof_broken.append(('T-time validation', repr(e)[-400:]))
    from cassandra import util as U
    from cassandra.util import Date, Time
    rng = ctx.rng
    terms, meta = [], []

    def report(case, viols):
        seen = set()
        for key, what in viols:
            if key not in seen:
                seen.add(key)
                ctx.violation(key, what, case=case, expected='lossless / in-range conversion', actual=what, theorem='Props/C34.v')

    # ------------------------------------------------------------ corpus first
    for case in corpus_cases():
        v, obs = run_case(case)
        ctx.case(case, nontrivial=True)
        ctx.count('kind', 'corpus')
        report(case, v)

    # ------------------------------------------------------------ dates
    bounds = [MIN_DAY, MIN_DAY + 1, MAX_DAY - 1, MAX_DAY, 0, -1, 1, 58, 59, 60, 11016, 11017, -25567, -25508, 47541, 47542, 24836, 24837]
    for y in (1, 4, 100, 400, 1582, 1600, 1900, 1970, 2000, 2024, 2100, 9999):
        for m in range(1, 13):
            n0 = py_days_from_civil(y, m, 1)
            bounds += [n0 - 1, n0] if n0 - 1 >= MIN_DAY else [n0]
    nsample = 700 if ctx.tier == 'quick' else 6000
    sample = sorted(set([n for n in bounds if MIN_DAY <= n <= MAX_DAY] + [rng.randint(MIN_DAY, MAX_DAY) for _ in range(nsample)]))
    for n in sample:
        case = {'t': 'date', 'n': n}
        v, obs = date_case(n)
        ctx.case(case, nontrivial=True, sample=obs if n in (MIN_DAY, 11016) else None)
        ctx.count('kind', 'date')
        report(case, v)
        y, m, d = py_civil_from_days(n)
        if '%04d-%02d-%02d' % (y, m, d) != obs['str'] or py_days_from_civil(y, m, d) != n:
            ctx.disagreement('model-vs-impl.date', 'model date of day %d is %04d-%02d-%02d, Date prints %s' % (n, y, m, d, obs['str']),
                             case=case, actual=obs['str'], model=[y, m, d])
        # the Python transcription above IS the Coq model: checked here
        terms.append('triple_eqb (civil_from_days %s) (%d, %d, %d) && (days_from_civil %d %d %d =? %s) && codes_eqb (date_str %s) %s '
                     '&& optz_eqb (date_of_str %s) (Some %s)'
                     % (zl(n), y, m, d, y, m, d, zl(n), zl(n), codes(obs['str']), codes(obs['str']), zl(n)))
        meta.append(case)
    # Date(datetime.datetime) / Date(datetime.date): any year, any time of day (before 1970 the second count is negative)
    tods = [(0, 0, 0), (0, 0, 1), (12, 0, 0), (23, 59, 59), (0, 1, 0), (1, 0, 0)]
    dts = [(y, m, d) + tod for (y, m, d) in ((1, 1, 1), (1, 12, 31), (1582, 10, 15), (1900, 2, 28), (1900, 3, 1), (1969, 12, 31), (1970, 1, 1),
                                            (1970, 1, 2), (1968, 2, 29), (2000, 2, 29), (2038, 1, 19), (9999, 12, 31)) for tod in tods]
    for _ in range(300 if ctx.tier == 'quick' else 5000):
        y = rng.choice([rng.randint(1, 9999), rng.randint(1, 1969), rng.randint(1900, 2100)])
        m = rng.randint(1, 12)
        d = rng.randint(1, [31, 29 if (y % 4 == 0 and y % 100 != 0) or y % 400 == 0 else 28, 31, 30, 31, 30, 31, 31, 30, 31, 30, 31][m - 1])
        dts.append((y, m, d) + (rng.choice(tods) if rng.random() < 0.3 else (rng.randint(0, 23), rng.randint(0, 59), rng.randint(0, 59))))
    for (y, m, d, hh, mm, ss) in dts:
        case = {'t': 'date_dt', 'y': y, 'm': m, 'd': d, 'hh': hh, 'mm': mm, 'ss': ss, 'us': rng.choice([0, 1, 999999, rng.randrange(10 ** 6)]),
                'cls': 'datetime' if rng.random() < 0.85 else 'date'}
        v, obs = run_case(case)
        ctx.case(case, nontrivial=True, sample=obs if (y, hh) == (1969, 12) else None)
        ctx.count('kind', 'date_from_' + case['cls'])
        ctx.count('date_from_datetime', ('before_1970' if y < 1970 else 'from_1970') + ('.midnight' if (hh, mm, ss) == (0, 0, 0) or case['cls'] == 'date' else '.time_of_day'))
        report(case, v)
        if case['cls'] == 'date':
            hh = mm = ss = 0
        terms.append('(date_from_datetime %d %d %d %d %d %d =? %s) && valid_date %d %d %d && valid_tod %d %d %d'
                     % (y, m, d, hh, mm, ss, zl(obs['days']), y, m, d, hh, mm, ss))
        meta.append(case)
    # outside years 1..9999 the class prints the day count (documented fallback); the model is total
    for n in (MIN_DAY - 1, MAX_DAY + 1, -10 ** 7, 10 ** 7, 2 ** 40):
        s = str(Date(n))
        ctx.count('kind', 'date_out_of_range')
        ctx.case({'t': 'date', 'n': n}, nontrivial=True)
        if s != str(n):
            ctx.violation('Date.str.out_of_range', 'str(Date(%d)) = %r (day counts outside years 1..9999 print as the count)' % (n, s),
                          case={'t': 'date', 'n': n}, expected=str(n), actual=s)
        y, m, d = py_civil_from_days(n)
        terms.append('triple_eqb (civil_from_days %s) (%s, %d, %d) && (days_from_civil %s %d %d =? %s)' % (zl(n), zl(y), m, d, zl(y), m, d, zl(n)))
        meta.append({'t': 'date', 'n': n})
    if ctx.tier == 'thorough':
        # exhaustive: every day of years 1..9999 through the real class, against the (Coq-validated) transcription
        nbad = 0
        for n in range(MIN_DAY, MAX_DAY + 1):
            d = Date(n)
            s = str(d)
            y, m, dd = py_civil_from_days(n)
            if s != '%04d-%02d-%02d' % (y, m, dd) or Date(s).days_from_epoch != n:
                nbad += 1
                if nbad <= 3:
                    v, obs = date_case(n)
                    report({'t': 'date', 'n': n}, v or [('Date.str.wrong', 'str(Date(%d)) = %r, calendar says %04d-%02d-%02d' % (n, s, y, m, dd))])
        ctx.evaluations += MAX_DAY - MIN_DAY + 1
        ctx.count('kind', 'date_exhaustive', MAX_DAY - MIN_DAY + 1)
        ctx.exhaustive = True
        ctx.extra['date_exhaustive'] = {'days': MAX_DAY - MIN_DAY + 1, 'mismatches': nbad}
    else:
        ctx.exhaustive = False

    # ------------------------------------------------------------ Time from integers
    tb = [0, 1, 999, 1000, 10 ** 6, 10 ** 9 - 1, 10 ** 9, 60 * 10 ** 9 - 1, 60 * 10 ** 9, 3600 * 10 ** 9 - 1, 3600 * 10 ** 9,
          DAY - 1, DAY, DAY + 1, 2 * DAY, -1, -2, -10 ** 9, -DAY, -DAY - 1, 2 ** 63 - 1, -2 ** 63, 43200 * 10 ** 9]
    tb += [rng.randrange(0, DAY) for _ in range(250 if ctx.tier == 'quick' else 5000)]
    tb += [rng.randrange(-DAY, 3 * DAY) for _ in range(100)]
    for n in tb:
        case = {'t': 'time_int', 'n': n}
        v, obs = time_int_case(n)
        ctx.case(case, nontrivial=True, sample=obs if n in (DAY - 1, -1) else None)
        ctx.count('kind', 'time_int')
        ctx.count('time_int', 'accepted' if obs['accepted'] else 'rejected')
        report(case, v)
        if obs['accepted'] and 'fields' in obs:
            f = obs['fields']
            terms.append('time_accepts %s && (time_hour %s =? %d) && (time_minute %s =? %d) && (time_second %s =? %d) && '
                         '(time_nanosecond %s =? %d) && codes_eqb (time_str %s) %s && optz_eqb (time_parse %s) (Some %s)'
                         % (zl(n), zl(n), f[0], zl(n), f[1], zl(n), f[2], zl(n), f[3], zl(n), codes(obs['str']), codes(obs['str']), zl(n)))
        else:
            terms.append('Bool.eqb (time_accepts %s) %s' % (zl(n), 'true' if obs['accepted'] else 'false'))
        meta.append(case)

    # ------------------------------------------------------------ Time from strings
    strs = ['00:00:00', '00:00:00.', '23:59:59', '23:59:59.999999999', '23:59:60', '23:59:61', '23:59:60.5', '24:00:00', '23:60:00',
            '00:00:60', '00:00:61', '12:34:56.1', '12:34:56.12', '12:34:56.123456', '12:34:56.1234567', '01:02:03.000000001',
            '-1:00:00', '1:2:3', '', 'abc', '25:00:00', '00:00:00.0000000001', '23:59:59.9999999999', '00:00:00.-5', '12:00', '12:00:00:00']
    for _ in range(150 if ctx.tier == 'quick' else 3000):
        h, m, s = rng.randint(0, 23), rng.randint(0, 59), rng.randint(0, 59)
        k = rng.randint(0, 9)
        frac = ''.join(rng.choice('0123456789') for _ in range(k))
        strs.append('%02d:%02d:%02d%s' % (h, m, s, ('.' + frac) if (k or rng.random() < 0.2) else ''))
    for _ in range(60):
        strs.append('%02d:%02d:%02d.%09d' % (rng.choice([0, 23, 24, 29]), rng.choice([0, 59, 60, 99]), rng.choice([0, 59, 60, 61, 62, 99]), rng.randrange(10 ** 9)))
    for s in strs:
        case = {'t': 'time_str', 's': s}
        v, obs = time_str_case(s)
        ctx.case(case, nontrivial=True, sample=obs if s in ('23:59:61', '12:34:56.1') else None)
        ctx.count('kind', 'time_str')
        ctx.count('time_str', 'accepted' if obs['got'] is not None else 'rejected')
        report(case, v)
        if len(s) == 18 and all(ord(c) < 128 for c in s):      # canonical width: the hand model's domain
            terms.append('optz_eqb (time_parse %s) %s' % (codes(s), 'None' if obs['got'] is None else '(Some %s)' % zl(obs['got'])))
            meta.append(case)

    # ------------------------------------------------------------ time UUIDs
    us_pool = [0, 1, 999999, 10 ** 6, 1700000000123456, 1700000000 * 10 ** 6, 2 ** 31 * 10 ** 6, -1, -10 ** 6, -12219292800 * 10 ** 6,
               (2 ** 60 - 1 - OFFSET) // 10, 253402300799999999, 10 ** 15, 1234567890123456]
    node_pool = [0, 1, 0x7f7f7f7f7f7f, 0x808080808080, 0x7f7f7f7f7f80, 0x80808080807f, 2 ** 48 - 1, 0xff, 0x80, 0x7f, 2 ** 47, 2 ** 48, -1]
    clock_pool = [0, 1, 0x80, 0x7f, 0xff, 0x100, 0x3f7f, 0x3f80, 0x3fff, 0x4000, 0x3f00, 0x2a55, -1]
    ucases = [(u_, n_, c_) for u_ in us_pool[:(2 if ctx.tier == 'quick' else 6)] for n_ in node_pool for c_ in clock_pool]
    for _ in range(250 if ctx.tier == 'quick' else 6000):
        ucases.append((rng.choice(us_pool) if rng.random() < 0.3 else rng.randrange(-10 ** 15, 4 * 10 ** 15),
                       rng.choice(node_pool) if rng.random() < 0.4 else rng.getrandbits(48),
                       rng.choice(clock_pool) if rng.random() < 0.4 else rng.getrandbits(14)))
    pyu = []
    for (us, node, clock) in ucases:
        via = rng.choice(['float', 'float', 'int', 'datetime'] + sorted(AWARE))
        if via not in ('float', 'int') and not (-62135596800 * 10 ** 6 <= us <= 253402300799999999):
            via = 'int'
        case = {'t': 'uuid', 'us': us, 'node': node, 'clock': clock, 'via': via}
        v, obs = uuid_case(us, node, clock, via)
        if obs is None:
            ctx.count('uuid', 'skipped_float_inexact')
            continue
        ctx.case(case, nontrivial=True, sample=obs if (node, clock) == (1, 0x3f7f) else None)
        ctx.count('kind', 'uuid')
        ctx.count('uuid', 'raised' if obs.get('raised') else 'ok')
        report(case, v)
        us = obs['us']
        if obs.get('float_limited'):
            ctx.count('uuid', 'float_limited_datetime_path')
            continue
        if obs.get('raised'):
            terms.append('negb (uuid_accepts %s %s)' % (zl(node), zl(clock)))
        elif 0 <= clock and via not in ('float', 'int') and abs(us * 10) >= 2 ** 53:
            # datetime arguments go through float arithmetic (seconds * 1e6 + microsecond, then * 10): beyond 2^53 the 100 ns digit is
            # rounded (below 2^56: by at most 8 intervals).  Compared: low 64 bits exactly, timestamp within 8 intervals.
            terms.append('uuid_accepts %s %s && (uuid_int (uuid_from_us %s %s %s) mod 2 ^ 64 =? %d) && '
                         '(Z.abs (uuid_time (uuid_from_us %s %s %s) - %d) <=? 8)'
                         % (zl(node), zl(clock), zl(us), zl(node), zl(clock), obs['int'] % 2 ** 64, zl(us), zl(node), zl(clock),
                            uuid.UUID(int=obs['int']).time))
            ctx.count('uuid', 'float_rounded_datetime_path')
        elif 0 <= clock:
            terms.append('uuid_accepts %s %s && (uuid_int (uuid_from_us %s %s %s) =? %d)%s' % (
                zl(node), zl(clock), zl(us), zl(node), zl(clock), obs['int'],
                (' && (uuid_int (min_uuid %s) =? %d) && (uuid_int (max_uuid %s) =? %d) && (decode_us (uuid_from_us %s %s %s) =? %s)'
                 % (zl(us), obs['min'], zl(us), obs['max'], zl(us), zl(node), zl(clock), zl(us)))
                if 'min' in obs else ''))
        else:
            continue
        meta.append(case)
        if 'min' in obs:
            pyu.append(uuid.UUID(int=obs['int']))
    # the comparator transcription used above IS the Coq comparator: random pairs
    for _ in range(150 if ctx.tier == 'quick' else 3000):
        a, b = rng.choice(pyu), rng.choice(pyu)
        if rng.random() < 0.5:     # same instant, other low bits: exercises the signed-byte part
            b = uuid.UUID(int=(a.int >> 64 << 64) | (b.int & (2 ** 64 - 1)))
        c = cass_cmp(a, b)
        terms.append('match cass_compare %s %s with %s => true | _ => false end' % (g_uuid(a), g_uuid(b), {-1: 'Lt', 0: 'Eq', 1: 'Gt'}[c]))
        meta.append({'t': 'cmp', 'a': a.int, 'b': b.int})
    ctx.rule = ('dates: Date(datetime.datetime/date) over years 1..9999 with boundary and random times of day; boundary days (month ends of 12 marker years, leap days, range ends) + uniform sample of years 1..9999 '
                '(thorough: ALL 3,652,059 days); Time: nanosecond boundaries, uniform in-day sample, out-of-range ints, well-formed and '
                'malformed strings with 0..9 fraction digits; time-UUIDs: boundary pools x random for (microseconds, node, clock) via '
                'float / int / naive datetime / timezone-aware datetime (+05:30, -08:00, +14:00, UTC, DST zone) arguments; non-trivial = every distinct input')
    if not any(x[0].startswith('translate:') for x in ctx.proof_broken):
        try:
            bad = ctx.coq_filter(['PyBase', 'UtilTime', 'DecDigits', 'Civil', 'TimeOfDay', 'TimeUUID'], '(fun b : bool => b)', terms, shard=250,
                                 prelude=PRELUDE)
            for i in bad[:10]:
                ctx.disagreement('model-vs-impl.%s' % meta[i]['t'], 'Coq model and cassandra.util differ at %s' % json.dumps(meta[i])[:300],
                                 case=meta[i], model=terms[i][:1500])
            ctx.extra['model_disagreements'] = len(bad)
        except RuntimeError as e:
            ctx.proof_broken.append(('correspondence:C34', str(e)[-800:]))
    ctx.trust('harness checks/C34.py (Python transcriptions of Model/Civil.v and of the comparator, each validated against Coq on every run)',
              'datetime / calendar.timegm / time.strptime (Python standard library) as executed, not modelled',
              'Cassandra TimeUUIDType.compare transcribed from memory: timestamp, then signed-byte lexicographic order of bytes 8..15')
    ctx.assume('uuid_from_time is modelled on the exact integer microsecond count; float inputs are generated so that int(t*1e6) is that count',
               'Date/Time strings are modelled in their canonical widths (yyyy-mm-dd, HH:MM:SS.fffffffff); other widths are covered by the '
               'implementation-side oracle only')


PRELUDE = '''
Definition triple_eqb (a b : Z * Z * Z) : bool :=
  let '(x, y, z) := a in let '(x', y', z') := b in (x =? x') && (y =? y') && (z =? z').
Fixpoint codes_eqb (a b : list Z) : bool :=
  match a, b with [], [] => true | x :: a', y :: b' => (x =? y) && codes_eqb a' b' | _, _ => false end.
Definition optz_eqb (a b : option Z) : bool :=
  match a, b with Some x, Some y => x =? y | None, None => true | _, _ => false end.
'''


def replay(ctx, rp):
    case = rp.get('case')
    if not case or 't' not in case:
        print('nothing to replay (kind=%s): %s' % (rp.get('kind'), rp.get('theorem')))
        return 1
    v, obs = run_case(case)
    print('replay %r -> %r' % (case, obs))
    for key, what in v:
        print('   property fails: %s -- %s' % (key, what))
    hit = rp.get('key') in [k for k, _ in v]
    print(('VIOLATION property=C34 replay=%s' % ctx.replay_path) if hit else 'not reproduced')
    return 1 if hit else 0
