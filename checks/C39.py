"""C39 -- column encryption is transparent, including for nulls.

(C) Model/Encryption.v (PKCS7 concrete, AES-CBC and the value codec abstract) is proved transparent in Props/C39.v.
Every run drives the real AES256ColumnEncryptionPolicy + BoundStatement.bind + ResultMessage.recv_results_rows
(pure-Python path) on generated column sets x rows (nulls included), checks the statement itself on the
implementation (what was sent is iv ++ AES-CBC(PKCS7(serialize v)), verified with an independent use of the
`cryptography` library; what comes back equals what was bound), and compares with the model run under the identity
cipher on ciphertexts normalised by that independent decryption.
"""
import json, os, subprocess, time
from vf import core
from vf import bind_enc_impl as E

META = {
    'technique': 'Coq proof over a hand-written executable model (PKCS7 concrete; AES-CBC and value codec as section hypotheses) + '
                 'differential execution against the real policy, BoundStatement.bind and ResultMessage.recv_results_rows',
    'level_text': 'C39_pkcs7_roundtrip, C39_policy_roundtrip, C39_transparent (every value incl. null, any rows, any mix of encrypted/plain '
                  'columns: decode(echo(bind rows)) = rows), C39_sent_encrypted, C39_unguarded_refuted (the pre-fix decoder fails on a null) '
                  'proved; model tied to the repaired source by correspondence on every run.',
    'level_note': 'Trusted: Coq kernel; transcription of _policies.py / query.py / protocol.py into Model/Encryption.v; the `cryptography` '
                  'AES-256-CBC implementation (hypothesis dec k iv (enc k iv x) = x on block-aligned x); the per-type codec round-trip (C01) as '
                  'hypothesis. A null is sent as a protocol null (it cannot be encrypted). Not covered: the Cython decoder (obj_parser.pyx, C07).',
    'design_ref': 'DESIGN.md section 4, C39',
}


def gen_case(rng):
    ncols = rng.choice([1, 1, 2, 2, 3, 4])
    cols = []
    for _ in range(ncols):
        if rng.random() < 0.65:
            cols.append({'type': rng.choice(E.SIMPLE), 'key': bytes(rng.randrange(256) for _ in range(32)).hex()})
        else:
            cols.append({'type': rng.choice(E.SIMPLE + E.COLLECTIONS), 'key': None})
    rows = []
    for _ in range(rng.choice([1, 1, 2, 3, 4])):
        vals = [None if rng.random() < 0.2 else E.gen_value(rng, c['type']) for c in cols]
        rows.append({'vals': vals, 'foreign': rng.random() < 0.15})
    case = _finish(rng, cols, rows)
    if len(cols) >= 2 and rng.random() < 0.3:
        # bind markers of SEVERAL tables (prepared BATCH; PREPARED response without global table spec): every column has its own
        # keyspace/table; a plain column may share its NAME with an encrypted column of another table (and vice versa)
        for c in cols:
            c['tb'] = rng.choice(['t1', 't2', 't3'])
            if rng.random() < 0.25:
                c['ks'] = 'ks2'
        cols[1]['tb'] = 't2' if cols[0].get('tb') == 't1' else 't1'
        encs = [i for i, c in enumerate(cols) if c['key'] is not None]
        if encs and rng.random() < 0.6:
            i = rng.choice(encs)
            others = [j for j, c in enumerate(cols) if j != i and (c.get('ks', 'ks'), c['tb']) != (cols[i].get('ks', 'ks'), cols[i]['tb'])]
            if others:
                j = rng.choice(others)
                cols[j]['name'] = cols[i].get('name', 'c%d' % i)
        seen = set()
        for i in range(len(cols)):
            while E.col_desc(case, i) in seen:
                cols[i]['name'] = cols[i].get('name', 'c%d' % i) + 'x'
            seen.add(E.col_desc(case, i))
    encs = [i for i, c in enumerate(cols) if c['key'] is not None]
    # the PREPARED response gives partition-key bind indexes or not (never on v3; on v4+ only when the whole key is bound)
    case['pk_indexes'] = [0] if rng.random() < 0.5 else []
    if encs and rng.random() < 0.25:
        # key rotation / corrected type: the column is registered twice, the second registration must win
        case['rereg'] = sorted(rng.sample(encs, rng.randint(1, len(encs))))
    if 'changed' not in case and rng.random() < 0.3:
        # through the real Cluster / Session.__init__ / prepare / execute (faked pools), possibly with ANOTHER cluster that has a
        # different policy connected in the same process before or after
        for r in rows:
            r['foreign'] = False
        case['session'] = {'order': rng.choice([['main'], ['main', 'other'], ['main', 'other'], ['other', 'main']]),
                           'other': rng.choice(['empty', 'otherkeys'])}
        return case
    if encs and rng.random() < 0.2:
        # columns put under encryption only AFTER a result containing them was decoded on the same policy object
        case['late'] = sorted(rng.sample(encs, rng.randint(1, len(encs))))
    if rng.random() < 0.25:
        # ALTER TABLE ADD between PREPARE and EXECUTE: the response carries new metadata with one more (plain) column,
        # preferably right before an encrypted one; the statement still holds the old metadata
        encs = [i for i, c in enumerate(cols) if c['key'] is not None]
        pos = rng.choice(encs) if encs and rng.random() < 0.8 else rng.randint(0, len(cols))
        t = rng.choice(E.SIMPLE + E.COLLECTIONS)
        case['pv'] = 5
        case['changed'] = {'pos': pos, 'col': {'type': t, 'key': None},
                           'vals': [None if rng.random() < 0.25 else E.gen_value(rng, t) for _ in rows]}
    return case


def _finish(rng, cols, rows):
    return {'pv': rng.choice([3, 4, 5]), 'iv': bytes(rng.randrange(256) for _ in range(16)).hex(),
            'iv2': bytes(rng.randrange(256) for _ in range(16)).hex(), 'cols': cols, 'rows': rows}


def effective(case):
    """columns / row values as the ROWS frame describes them (with the added column when the metadata changed)"""
    ch = case.get('changed')
    cols = list(case['cols'])
    vals = [list(r['vals']) for r in case['rows']]
    if ch:
        cols.insert(ch['pos'], ch['col'])
        for r, v in enumerate(ch['vals']):
            vals[r].insert(ch['pos'], v)
    return cols, vals


def pkcs7_unpad(p):
    if not p or len(p) % 16:
        return None
    n = p[-1]
    if not 1 <= n <= 16 or p[-n:] != bytes([n]) * n:
        return None
    return p[:-n]


def evaluate(case):
    """-> (res, problems [(key, what, theorem)], normalised wire or None)"""
    if case.get('session'):
        from vf import bind_enc_session
        res = bind_enc_session.run_session(case)
    else:
        res = E.run_impl(case)
    probs = []
    cols, evals = effective(case)
    if res['bind_err']:
        probs.append(('bind.raised', 'binding valid values raised %s' % res['bind_err'], 'C39_transparent'))
        return res, probs, None
    if case.get('late'):
        exp_pre = [[(list(b'\x01raw') if i in case['late'] else None) for i in range(len(case['cols']))]]
        if res['pre'] != exp_pre:
            probs.append(('decode.before-registration', 'result decoded before add_column: %r, expected %r' % (res['pre'], exp_pre), 'C39_transparent_history'))
    norm = []
    normal_ok = True
    null_in_enc = False
    for r, row in enumerate(case['rows']):
        iv = bytes.fromhex(case['iv2'] if row.get('foreign') else case['iv'])
        nrow = []
        for i, c in enumerate(cols):
            cell, ser = res['wire'][r][i], res['ser'][r][i]
            if evals[r][i] is None:
                if c['key'] is not None:
                    null_in_enc = True
                if cell is not None:
                    probs.append(('sent.null-not-null', 'null bound for column %d went out as %r' % (i, cell[:40]), 'C39_sent_encrypted'))
                nrow.append(None if cell is None else list(cell))
            elif c['key'] is None:
                if cell != ser:
                    probs.append(('sent.plain-differs' + ('.multi-table' if len(set(E.col_desc(case, k)[:2] for k in range(len(case['cols'])))) > 1 else ''), 'plain column %d: sent %r, serializer gives %r' % (i, cell, ser), 'C39_sent_encrypted'))
                nrow.append(None if cell is None else list(cell))
            else:
                padded = None
                if cell is not None and len(cell) >= 32 and (len(cell) - 16) % 16 == 0:
                    padded = E.aes_cbc_decrypt_raw(bytes.fromhex(c['key']), cell[:16], cell[16:])
                if cell is None or cell[:16] != iv or padded is None or pkcs7_unpad(padded) != ser:
                    multi = len(set(E.col_desc(case, k)[:2] for k in range(len(case['cols'])))) > 1
                    nopk = not (case.get('pk_indexes') and case['pv'] >= 4)
                    probs.append(('sent.not-encrypted' + ('.multi-table' if multi else '.registered-twice' if case.get('rereg') else '.no-pk-indexes' if nopk else ''),
                                  'encrypted column %d %r (%s): wire bytes %r are not iv ++ AES-CBC(PKCS7(serialize v))' %
                                  (i, E.col_desc(case, i) if i < len(case['cols']) and not case.get('changed') else i, c['type'],
                                   None if cell is None else cell[:48].hex()), 'C39_sent_by_own_desc'))
                if padded is None:
                    normal_ok = False
                    nrow.append(None)
                else:
                    nrow.append(list(cell[:16] + padded))
        norm.append(nrow)
    want = [[E.canon(E.pyval(v)) for v in vs] for vs in evals]
    if case.get('session') and not res['decode_err'] and res.get('decoded_simple') != want:
        probs.append(('decode.differs.session.simple-statement', 'unprepared SELECT through the session: decoded rows %r, bound rows %r' %
                      (res.get('decoded_simple'), want), 'C39_transparent_sessions'))
    # one failure class per case, rarest configuration first
    multi = len(set(E.col_desc(case, i)[:2] for i in range(len(case['cols'])))) > 1
    cls = ('.session.' + '+'.join(case['session']['order']) if case.get('session') else
           '.registered-twice' if case.get('rereg') else
           '.registered-after-first-decode' if case.get('late') else '.multi-table' if multi else
           '.metadata-changed' if case.get('changed') else '.null-in-encrypted-column' if null_in_enc else
           '.no-pk-indexes' if not (case.get('pk_indexes') and case['pv'] >= 4) else '')
    res['cls_compiled'] = '.null-in-encrypted-column' if null_in_enc else cls
    res['want'] = want
    res['cls'] = cls
    if res['decode_err']:
        probs.append(('decode.raised' + cls, 'decoding the echoed result raised %s' % res['decode_err'], 'C39_transparent'))
    elif res['decoded'] != want:
        probs.append(('decode.differs' + cls, 'decoded rows %r, bound rows %r' % (res['decoded'], want), 'C39_transparent'))
    return res, probs, (norm if normal_ok else None)


def g_case(case, res, norm):
    cols, _ = effective(case)
    ids = {}

    def ident(x):
        return ids.setdefault(x, len(ids) + 1)

    def gdesc(d):
        return '(%d, %d, %d)' % (ident('ks:' + d[0]), ident('tb:' + d[1]), ident('col:' + d[2]))
    descs_old = [E.col_desc(case, i) for i in range(len(case['cols']))]
    descs = list(descs_old)
    ch = case.get('changed')
    if ch:
        near = descs_old[min(ch['pos'], len(descs_old) - 1)]
        descs.insert(ch['pos'], (near[0], near[1], 'added'))
    late = case.get('late') or []
    regs_all = '[' + '; '.join('(%s, [%d])' % (gdesc(descs_old[i]), i + 1) for i, c in enumerate(case['cols']) if c['key'] is not None) + ']'
    regs_before = '[' + '; '.join('(%s, [%d])' % (gdesc(descs_old[i]), i + 1) for i, c in enumerate(case['cols'])
                                  if c['key'] is not None and i not in late) + ']'
    keys = '(c39_keys %s [%s])' % (regs_all, '; '.join(gdesc(d) for d in descs))
    cached = '(c39_keys %s [%s])' % (regs_all, '; '.join(gdesc(d) for d in descs_old))
    parts = []
    for foreign in (False, True):
        idx = [r for r, row in enumerate(case['rows']) if bool(row.get('foreign')) == foreign]
        if not idx:
            continue
        iv = E.zlist(bytes.fromhex(case['iv2'] if foreign else case['iv']))
        sers = [[None if c is None else list(c) for c in res['ser'][r]] for r in idx]
        parts.append('c39_rows_eqb (fst (c39_run %s %s %s)) (Some %s)' % (iv, keys, E.g_rows(sers), E.g_rows([norm[r] for r in idx])))
    dec = None if (res['decode_err'] or res['decoded_ser'] is None) else [[None if c is None else list(c) for c in r] for r in res['decoded_ser']]
    if late and isinstance(res.get('pre'), list):
        pre_wire = [[(list(b'\x01raw') if i in late else None) for i in range(len(case['cols']))]]
        parts.append('c39_rows_eqb (c39_recv None (c39_keys %s [%s]) %s) (Some %s)' % (
            regs_before, '; '.join(gdesc(d) for d in descs_old), E.g_rows(pre_wire), E.g_rows(res['pre'])))
    if case.get('changed'):
        parts.append('c39_rows_eqb (c39_recv (Some %s) %s %s) %s' % (keys, cached, E.g_rows(norm), E.g_opt_rows(dec)))
    else:
        parts.append('c39_rows_eqb (c39_recv None %s %s) %s' % (keys, E.g_rows(norm), E.g_opt_rows(dec)))
    return ' && '.join('(%s)' % p for p in parts)


def run_compiled(ctx, built, cases, tag='w', depth=0):
    """the same cases through the COMPILED protocol handlers (Cython row parsers) in a subprocess on the scratch build;
    a batch that kills the interpreter is bisected until the crashing case is alone -> {'crash': ...}"""
    inp = os.path.join(ctx.scratch, 'c39_%s_%d_%d.json' % (tag, depth, len(cases)))
    outp = inp + '.out'
    with open(inp, 'w') as f:
        json.dump({'cases': cases, 'handlers': ['cython', 'cython-lazy']}, f)
    env = dict(os.environ, PYTHONPATH=built + ':' + os.path.join(core.VERIF, 'lib'), PYTHONHASHSEED='0')
    try:
        p = subprocess.run(['/venv/bin/python', '-W', 'ignore', '-m', 'vf.bind_enc_worker', inp, outp], env=env, cwd=ctx.scratch,
                           stdout=subprocess.PIPE, stderr=subprocess.STDOUT, text=True, timeout=900)
        if p.returncode == 0:
            with open(outp) as f:
                out = json.load(f)
            if not out['have_cython']:
                raise RuntimeError('build has no compiled extensions')
            return out['results']
        detail = 'worker rc=%d: %s' % (p.returncode, p.stdout[-200:])
    except subprocess.TimeoutExpired:
        detail = 'worker timed out'
    if len(cases) == 1:
        return [{'cython': {'crash': detail}, 'cython-lazy': {'crash': detail}}]
    if depth > 12:
        return [{'cython': {'crash': detail}, 'cython-lazy': {'crash': detail}} for _ in cases]
    h = len(cases) // 2
    return run_compiled(ctx, built, cases[:h], tag + 'a', depth + 1) + run_compiled(ctx, built, cases[h:], tag + 'b', depth + 1)


def short(x):
    s = repr(x)
    return s if len(s) < 400 else s[:400] + '...'


def run(ctx):
    ok = ctx.prove('Props/C39.v')
    if ctx.tier == 'thorough' and ok:
        ctx.coqchk('Props/C39.v')
    ctx.trust('transcription of column_encryption/_policies.py (encrypt/decrypt), query.py (bind encryption branch), protocol.py '
              '(recv_results_rows decode_val/decode_row) into Model/Encryption.v, tied by correspondence',
              '`cryptography` AES-256-CBC: Section hypothesis dec k iv (enc k iv x) = x for block-aligned x; also used independently by the harness',
              'per-type value codec round-trip (property C01) as Section hypothesis')
    ctx.assume('compiled decoders are run when the extensions can be built (else stated in assumptions)',
               'policy IV has 16 bytes (checked by the policy constructor)')
    rng = ctx.rng
    ncases = 500 if ctx.tier == 'quick' else 5000
    cases = []
    corpus = os.path.join(core.VERIF, 'corpus', 'C39')
    if os.path.isdir(corpus):
        for fn in sorted(os.listdir(corpus)):
            with open(os.path.join(corpus, fn)) as f:
                cases.append(json.load(f)['case'])
    cases += [gen_case(rng) for _ in range(ncases)]
    ctx.rule = ('random column sets (1-4 columns of 19 simple CQL types, ~65% encrypted with a random 256-bit key; plain columns may also be '
                'list/set/map) x 1-4 rows with 20% nulls, 15% of rows written under a different IV, protocol 3/4/5; 25% of the cases decode a v5 Metadata_changed response (new in-frame column list with an added plain column, old list cached with the statement); plus the corpus; '
                'non-trivial = distinct case with at least one encrypted column')
    ctx.exhaustive = False
    t1 = time.time()
    gall, meta, all_meta = [], [], []
    for case in cases:
        res, probs, norm = evaluate(case)
        all_meta.append((case, res))
        nenc = sum(1 for c in case['cols'] if c['key'] is not None)
        ctx.case(case, nontrivial=nenc > 0, sample={'case': case, 'decoded': res.get('decoded'), 'decode_err': res.get('decode_err')})
        ctx.count('columns', len(case['cols']))
        ctx.count('rows', len(case['rows']))
        for c in case['cols']:
            ctx.count('type', c['type'] + ('/enc' if c['key'] else ''))
        for row in case['rows']:
            for c, v in zip(case['cols'], row['vals']):
                ctx.count('cell', ('enc' if c['key'] else 'plain') + ('-null' if v is None else ''))
        ctx.count('tables', 'several' if len(set(E.col_desc(case, i)[:2] for i in range(len(case['cols'])))) > 1 else 'one')
        ctx.count('registration', 'after a first decode' if case.get('late') else 'twice (second wins)' if case.get('rereg') else 'before any decode')
        ctx.count('prepared_shape', 'pk indexes from the server' if case.get('pk_indexes') and case['pv'] >= 4 else 'no pk indexes (v3 / key not bound)')
        ctx.count('path', 'Cluster/Session ' + '+'.join(case['session']['order']) if case.get('session') else 'statement + ResultMessage')
        ctx.count('metadata', 'in-frame (changed after ALTER TABLE)' if case.get('changed') else 'cached with the statement')
        ctx.count('outcome', 'decode-error' if res.get('decode_err') else ('bind-error' if res['bind_err'] else 'ok'))
        for key, what, thm in probs:
            ctx.violation(key, what + '  [case %s]' % short(case), case=case, expected='rows decode to the bound values', actual=short(res), theorem=thm)
        if norm is not None:
            gall.append(g_case(case, res, norm))
            meta.append((case, res))
    # ---- the compiled result decoders (obj_parser.pyx / row_parser.pyx via ProtocolHandler and LazyProtocolHandler)
    built = None
    try:
        from vf import cybuild
        built, sos, cached = cybuild.build_cached(core.REPO)
        ctx.extra['compiled_build'] = {'cached': cached, 'extensions': len(sos)}
    except Exception as e:
        ctx.extra['compiled_build'] = 'not available: %s' % str(e)[-300:]
        ctx.assume('compiled decoders NOT exercised in this run (extension build unavailable): %s' % str(e)[-120:])
    if built:
        ctx.trust('standalone extension build (lib/vf/cybuild.py) of the working tree; compiled handlers run in a subprocess on it')
        evald = [(c, r) for c, r in all_meta if not r.get('bind_err') and not c.get('session')]
        outs = run_compiled(ctx, built, [c for c, _ in evald])
        for (case, res), per in zip(evald, outs):
            for h in ('cython', 'cython-lazy'):
                o = per.get(h) or {}
                ctx.count('compiled_decoder', h + (':crash' if 'crash' in o else ':error' if o.get('decode_err') or o.get('harness_err') else ':ok'))
                key = what = None
                if 'crash' in o:
                    key, what = 'decode.compiled.crash', 'the compiled decoder (%s) killed the interpreter: %s' % (h, o['crash'])
                elif o.get('harness_err'):
                    ctx.disagreement('harness.compiled', 'worker could not run the case through %s: %s' % (h, o['harness_err']), case=case)
                elif o.get('bind_err') or o.get('decode_err'):
                    key, what = 'decode.raised.compiled' + res['cls_compiled'], 'compiled decoder (%s) raised %s' % (h, o.get('decode_err') or o.get('bind_err'))
                elif o['decoded'] != res['want']:
                    key, what = 'decode.differs.compiled' + res['cls_compiled'], 'compiled decoder (%s): decoded rows %r, bound rows %r' % (h, o['decoded'], res['want'])
                if key:
                    ctx.violation(key, what + '  [case %s]' % short(case), case=dict(case, decoder=h), expected='rows decode to the bound values',
                                  actual=short(o), theorem='C39_transparent')
                    break
    t2 = time.time()
    try:
        bad = ctx.coq_filter(['Encryption'], '(fun b : bool => b)', gall, shard=100)
        for i in bad[:10]:
            case, res = meta[i]
            ctx.disagreement('model-vs-impl', 'Model/Encryption.v differs from the driver at %s: impl decode %s / %s' %
                             (short(case), short(res.get('decoded')), res.get('decode_err')), case=case, actual=short(res))
    except RuntimeError as e:
        ctx.proof_broken.append(('correspondence:Encryption', str(e)[-800:]))
    ctx.extra['timing_s'] = {'prove': round(t1 - ctx.t0, 1), 'drive_impl': round(t2 - t1, 1), 'model_eval': round(time.time() - t2, 1)}


def replay(ctx, rp):
    case = rp.get('case')
    if not case:
        print('nothing to replay: %s' % rp.get('theorem'))
        return 1
    dec = case.pop('decoder', None) if isinstance(case, dict) else None
    res, probs, _ = evaluate(case)
    if dec:
        from vf import cybuild
        built, sos, cached = cybuild.build_cached(core.REPO)
        o = run_compiled(ctx, built, [case])[0].get(dec) or {}
        print('compiled decoder %s -> %s' % (dec, short(o)))
        if 'crash' in o or o.get('decode_err') or o.get('bind_err') or o.get('decoded') != res.get('want'):
            probs.append(('decode.compiled', 'compiled decoder %s: %s, bound rows %r' % (dec, short(o), res.get('want')), 'C39_transparent'))
    print('replay %s\n -> decoded %s error %s' % (short(case), short(res.get('decoded')), res.get('decode_err') or res.get('bind_err')))
    for key, what, thm in probs:
        print('  %s: %s (%s)' % (key, what[:300], thm))
    print(('VIOLATION property=C39 replay=%s' % ctx.replay_path) if probs else 'not reproduced')
    return 1 if probs else 0
