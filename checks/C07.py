"""C07 -- compiled extensions behave exactly like the pure-Python driver (partial: Cython and the C compiler are not modelled).

Proof part: Model/Murmur3C.v (C semantics of cmurmur3.c) is proved equal to the Java-semantics spec and hence (C08) to
the source-translated pure-Python murmur3, for every key.
Correspondence part, over TWO BUILDS OF THE CURRENT TREE: the check builds cmurmur3.c, every *.pyx and the
Cython-compiled protocol/cqltypes/util in a scratch copy (content-hash cached) and runs the same generated keys, encoded
values and RESULT rows bodies through the compiled build and the pure build (subprocess each), and reports any difference;
murmur3 results are additionally compared with the Coq models.
"""
import json, os, subprocess, struct, uuid, datetime, decimal
from vf import core, cybuild, py2coq
from vf.specs import murmur

META = {
    'technique': 'Coq proof that the C-semantics model of cmurmur3.c equals the spec (and the source-translated Python) for all keys + three-way differential run of two builds of the current tree',
    'level_text': 'C07_murmur3_c_eq_spec / C07_murmur3_c_eq_py proved for every key; decoding equality of the compiled row parser, deserializers '
                  'and Cython-compiled protocol/cqltypes/util with the pure-Python sources is OBSERVED on generated values / RESULT bodies / keys '
                  '(both builds made from the current tree on every run), not proved: partial.',
    'level_note': 'Trusted: Coq kernel; hand model of cmurmur3.c (two\'s-complement wrap for int64_t arithmetic as gcc/clang compile it); '
                  'the standalone build script (extension list read from setup.py by AST); Cython, gcc and CPython are not modelled.',
    'design_ref': 'DESIGN.md section 4, C07',
}

SCALARS = {  # name -> (type code, marshal class name)
    'ascii': 0x01, 'bigint': 0x02, 'blob': 0x03, 'boolean': 0x04, 'decimal': 0x06, 'double': 0x07, 'float': 0x08,
    'int': 0x09, 'timestamp': 0x0B, 'uuid': 0x0C, 'varchar': 0x0D, 'varint': 0x0E, 'timeuuid': 0x0F, 'inet': 0x10,
    'date': 0x11, 'time': 0x12, 'smallint': 0x13, 'tinyint': 0x14, 'duration': 0x15,
}
CASS = {'ascii': 'AsciiType', 'bigint': 'LongType', 'blob': 'BytesType', 'boolean': 'BooleanType', 'decimal': 'DecimalType',
        'double': 'DoubleType', 'float': 'FloatType', 'int': 'Int32Type', 'timestamp': 'DateType', 'uuid': 'UUIDType',
        'varchar': 'UTF8Type', 'varint': 'IntegerType', 'timeuuid': 'TimeUUIDType', 'inet': 'InetAddressType',
        'date': 'SimpleDateType', 'time': 'TimeType', 'smallint': 'ShortType', 'tinyint': 'ByteType', 'duration': 'DurationType'}


def gen(ctx):
    ctx.generate('Murmur3Gen.v', lambda: py2coq.Translator(core.REPO, murmur.token_fns() + murmur.bytes_token_fns(),
                                                          imports=['From Verif Require Import Murmur3Ext.']).emit())


def rand_type(rng, depth):
    if depth <= 0 or rng.random() < 0.45:
        return rng.choice(sorted(SCALARS))
    k = rng.choice(['list', 'set', 'map', 'tuple'])
    if k == 'list':
        return ('list', rand_type(rng, depth - 1))
    if k == 'set':
        return ('set', rand_type(rng, 0))
    if k == 'map':
        return ('map', rand_type(rng, 0), rand_type(rng, depth - 1))
    return ('tuple', [rand_type(rng, depth - 1) for _ in range(rng.randint(1, 3))])


def cass_name(t):
    p = 'org.apache.cassandra.db.marshal.'
    if isinstance(t, str):
        return p + CASS[t]
    if t[0] == 'list':
        return p + 'ListType(%s)' % cass_name(t[1])
    if t[0] == 'set':
        return p + 'SetType(%s)' % cass_name(t[1])
    if t[0] == 'map':
        return p + 'MapType(%s,%s)' % (cass_name(t[1]), cass_name(t[2]))
    return p + 'TupleType(%s)' % ','.join(cass_name(x) for x in t[1])


def type_option(t):
    if isinstance(t, str):
        return struct.pack('>H', SCALARS[t])
    if t[0] == 'list':
        return struct.pack('>H', 0x20) + type_option(t[1])
    if t[0] == 'set':
        return struct.pack('>H', 0x22) + type_option(t[1])
    if t[0] == 'map':
        return struct.pack('>H', 0x21) + type_option(t[1]) + type_option(t[2])
    return struct.pack('>H', 0x31) + struct.pack('>H', len(t[1])) + b''.join(type_option(x) for x in t[1])


def rand_value(rng, t, util):
    if isinstance(t, str):
        if t == 'ascii':
            return ''.join(rng.choice('abcXYZ 09_') for _ in range(rng.choice([rng.randint(0, 6), rng.randint(14, 40)])))
        if t == 'varchar':
            return ''.join(rng.choice(['a', 'é', '\U0001d11e', ' ', "'", 'z', '中']) for _ in range(rng.choice([rng.randint(0, 6), rng.randint(12, 36)])))
        if t == 'blob':
            return bytes(rng.randrange(256) for _ in range(rng.randint(0, 8)))
        if t == 'boolean':
            return rng.random() < 0.5
        if t in ('bigint',):
            return rng.choice([0, 1, -1, 2**63 - 1, -2**63, rng.randrange(-2**63, 2**63)])
        if t == 'int':
            return rng.choice([0, -1, 2**31 - 1, -2**31, rng.randrange(-2**31, 2**31)])
        if t == 'smallint':
            return rng.choice([0, -1, 32767, -32768, rng.randrange(-2**15, 2**15)])
        if t == 'tinyint':
            return rng.choice([0, -1, 127, -128, rng.randrange(-128, 128)])
        if t == 'varint':
            return rng.choice([0, 1, -1, 127, 128, -128, -129, 2**64, -2**64, rng.randrange(-2**90, 2**90)])
        if t == 'decimal':
            # 1-12 digits, and 26-45 digits (beyond the 28-digit default context precision)
            nd = rng.choice([rng.randint(1, 12), rng.randint(1, 12), rng.randint(26, 45)])
            return decimal.Decimal((rng.randrange(2), (rng.randrange(1, 10),) + tuple(rng.randrange(10) for _ in range(nd - 1)), rng.randint(-8, 4)))
        if t == 'double':
            return rng.choice([0.0, -0.0, 1.5, -2.25, 1e308, 5e-324, float('inf'), rng.uniform(-1e6, 1e6)])
        if t == 'float':
            return struct.unpack('>f', struct.pack('>f', rng.choice([0.0, 1.5, -2.25, 3.0e38, rng.uniform(-1e6, 1e6)])))[0]
        if t == 'timestamp':
            # milliseconds since epoch; near and far from 1970, negative included
            ms = rng.choice([0, 1, -1, 1001, -1001, 86400000 * 365 * 30 + 123, -86400000 * 365 * 200 - 7,
                             rng.randrange(-62135596800000, 253402300799999), rng.randrange(-10**12, 10**12)])
            return ('rawms', ms)
        if t in ('uuid', 'timeuuid'):
            return uuid.UUID(int=rng.getrandbits(128))
        if t == 'inet':
            return rng.choice(['127.0.0.1', '10.1.2.3', '::1', '2001:db8::ff00:42:8329'])
        if t == 'date':
            return util.Date(rng.choice([0, 1, 2**31, 2**31 - 1, 2**31 + 19000, rng.randrange(2**31 - 700000, 2**31 + 2900000)]) - 2**31)
        if t == 'time':
            return util.Time(rng.choice([0, 1, 86399999999999, rng.randrange(0, 86400 * 10**9)]))
        if t == 'duration':
            return util.Duration(rng.randrange(-50, 50), rng.randrange(-400, 400), rng.randrange(-10**15, 10**15))
    if t[0] == 'list':
        return [(None if rng.random() < 0.12 else rand_value(rng, t[1], util)) for _ in range(rng.randint(0, 3))]
    if t[0] == 'set':
        return set_of(rng, t[1], util)
    if t[0] == 'map':
        ks = set_of(rng, t[1], util)
        return {k: rand_value(rng, t[2], util) for k in ks}
    return tuple((None if rng.random() < 0.15 else rand_value(rng, x, util)) for x in t[1])


def set_of(rng, t, util):
    out = []
    for _ in range(rng.randint(0, 3)):
        v = rand_value(rng, t, util)
        if isinstance(v, tuple) and v and v[0] == 'rawms':
            continue
        try:
            if v not in out and v == v:
                out.append(v)
        except Exception:
            pass
    return out


def encode(T, t, v, pv):
    """bytes of value v of type t using the PURE build's serializers (the decoders are what C07 compares)."""
    ct = T.lookup_casstype(cass_name(t))
    return enc_with(T, ct, t, v, pv)


def enc_with(T, ct, t, v, pv):
    if isinstance(v, tuple) and v and v[0] == 'rawms':
        return struct.pack('>q', v[1])
    if isinstance(t, tuple) and t[0] in ('list', 'set'):
        items = list(v)
        sub = ct.subtypes[0]
        out = struct.pack('>i', len(items))
        for x in items:
            if x is None:
                out += struct.pack('>i', -1)      # null element
                continue
            b = enc_with(T, sub, t[1], x, pv)
            out += struct.pack('>i', len(b)) + b
        return out
    if isinstance(t, tuple) and t[0] == 'map':
        out = struct.pack('>i', len(v))
        for k, x in v.items():
            kb = enc_with(T, ct.subtypes[0], t[1], k, pv)
            vb = enc_with(T, ct.subtypes[1], t[2], x, pv)
            out += struct.pack('>i', len(kb)) + kb + struct.pack('>i', len(vb)) + vb
        return out
    if isinstance(t, tuple) and t[0] == 'tuple':
        out = b''
        for sub, st, x in zip(ct.subtypes, t[1], v):
            if x is None:
                out += struct.pack('>i', -1)
            else:
                b = enc_with(T, sub, st, x, pv)
                out += struct.pack('>i', len(b)) + b
        return out
    return ct.to_binary(v, pv)


def rows_body(cols, rows_bytes, no_metadata=False):
    """RESULT/Rows body: kind=2, metadata (global tables spec, or the NO_METADATA flag and no column specs), rows."""
    def s(x):
        b = x.encode()
        return struct.pack('>H', len(b)) + b
    if no_metadata:
        out = struct.pack('>i', 2) + struct.pack('>i', 4) + struct.pack('>i', len(cols))
    else:
        out = struct.pack('>i', 2) + struct.pack('>i', 1) + struct.pack('>i', len(cols)) + s('ks') + s('tbl')
        for i, t in enumerate(cols):
            out += s('c%d' % i) + type_option(t)
    out += struct.pack('>i', len(rows_bytes))
    for r in rows_bytes:
        for cell in r:
            out += struct.pack('>i', -1) if cell is None else struct.pack('>i', len(cell)) + cell
    return out


def sentinels(repo):
    """Error-return sentinels declared in the Cython sources (`cdef ... except ?0xDEAD`): a data value equal to the sentinel
    must still decode (the `?` makes Cython check PyErr_Occurred).  Read from the working tree on every run."""
    import glob, re
    vals = set()
    for f in glob.glob(os.path.join(repo, 'cassandra', '*.pyx')) + glob.glob(os.path.join(repo, 'cassandra', '*.pxd')):
        for m in re.finditer(r'\bexcept\s*\??\s*(-?0[xX][0-9a-fA-F]+|-?\d+)\s*:', open(f).read()):
            vals.add(int(m.group(1), 0))
    return sorted(v for v in vals if 1 < v < (1 << 20))


def run_worker_isolating(ctx, pythonpath, cases, tag, depth=0):
    """run_worker, but a build that kills the interpreter (segfault, abort) on some case does not take the check down:
    the batch is bisected until the crashing case is alone; its result is ['crash', detail]."""
    try:
        return run_worker(ctx, pythonpath, cases, '%s_%d_%d' % (tag, depth, len(cases)))['results']
    except (RuntimeError, subprocess.TimeoutExpired) as e:
        if len(cases) == 1:
            return [['crash', str(e)[-160:]]]
        h = len(cases) // 2
        return run_worker_isolating(ctx, pythonpath, cases[:h], tag + 'a', depth + 1) + \
            run_worker_isolating(ctx, pythonpath, cases[h:], tag + 'b', depth + 1)


def run_worker(ctx, pythonpath, cases, tag):
    inp = os.path.join(ctx.scratch, 'cases_%s.json' % tag)
    outp = os.path.join(ctx.scratch, 'out_%s.json' % tag)
    json.dump(cases, open(inp, 'w'))
    env = dict(os.environ, PYTHONPATH=pythonpath + ':' + os.path.join(core.VERIF, 'lib'), PYTHONHASHSEED='0')
    p = subprocess.run(['/venv/bin/python', '-W', 'ignore', '-m', 'vf.c07_worker', inp, outp], env=env, cwd=ctx.scratch,
                       stdout=subprocess.PIPE, stderr=subprocess.STDOUT, text=True, timeout=1800)
    if p.returncode != 0:
        raise RuntimeError('worker %s failed: %s' % (tag, p.stdout[-1500:]))
    return json.load(open(outp))


def make_cases(ctx):
    import cassandra.cqltypes as T
    from cassandra import util
    rng = ctx.rng
    cases = []
    nkeys = 150 if ctx.tier == 'quick' else 2000
    for i in range(nkeys):
        n = i % 70 if i < 140 else rng.randint(0, 400)
        cases.append({'kind': 'murmur', 'key': bytes(rng.randrange(256) for _ in range(n)).hex()})
    for tl in range(1, 16):
        for hi in (0x80, 0xff):
            b = bytearray(rng.randrange(128) for _ in range(16 + tl))
            b[16 + rng.randrange(tl)] = hi
            cases.append({'kind': 'murmur', 'key': bytes(b).hex()})
    nvals = 400 if ctx.tier == 'quick' else 6000
    for _ in range(nvals):
        t = rand_type(rng, 2)
        pv = rng.choice([3, 4, 5])
        try:
            v = rand_value(rng, t, util)
            b = encode(T, t, v, pv)
        except Exception as e:
            ctx.count('generator_skipped', type(e).__name__)
            continue
        cases.append({'kind': 'value', 'type': cass_name(t), 'bytes': b.hex(), 'pv': pv, 't': repr(t)})
    nrows = 60 if ctx.tier == 'quick' else 800
    for _ in range(nrows):
        cols = [rand_type(rng, 2) for _ in range(rng.randint(1, 5))]
        pv = rng.choice([3, 4, 5])
        rows = []
        try:
            for _r in range(rng.randint(0, 4)):
                rows.append([None if rng.random() < 0.2 else encode(T, t, rand_value(rng, t, util), pv) for t in cols])
        except Exception as e:
            ctx.count('generator_skipped', type(e).__name__)
            continue
        cases.append({'kind': 'rows', 'body': rows_body(cols, rows).hex(), 'pv': pv, 'cols': [repr(c) for c in cols]})
    # EXECUTE results: the prepared statement's cached result metadata is handed to the decoder; a body that carries its own
    # column specs (v5 METADATA_CHANGED after ALTER TABLE, or a server that sends metadata anyway) wins over the cached one,
    # a body with the NO_METADATA flag is decoded with the cached one -- in both builds, for both row parsers
    for _ in range(24 if ctx.tier == 'quick' else 300):
        cols = [rand_type(rng, 1) for _ in range(rng.randint(2, 4))]
        pv = rng.choice([3, 4, 5])
        try:
            rows = [[None if rng.random() < 0.2 else encode(T, t, rand_value(rng, t, util), pv) for t in cols] for _r in range(rng.randint(1, 3))]
        except Exception as e:
            ctx.count('generator_skipped', type(e).__name__)
            continue
        stale = list(cols)
        rng.shuffle(stale)
        if stale == cols:
            stale = cols[1:] + cols[:1] + ['int']
        cached_same = [['ks', 'tbl', 'c%d' % i, cass_name(t)] for i, t in enumerate(cols)]
        cached_stale = [['ks', 'tbl', 'old%d' % i, cass_name(t)] for i, t in enumerate(stale)]
        for handler in ('list', 'lazy'):
            cases.append({'kind': 'rows', 'body': rows_body(cols, rows).hex(), 'pv': pv, 'cols': [repr(c) for c in cols], 'handler': handler,
                          'result_metadata': cached_stale, 'meta_case': 'body-metadata-vs-stale-cache'})
            cases.append({'kind': 'rows', 'body': rows_body(cols, rows, no_metadata=True).hex(), 'pv': pv, 'cols': [repr(c) for c in cols],
                          'handler': handler, 'result_metadata': cached_same, 'meta_case': 'no-metadata-uses-cache'})
    # lengths and counts equal to (and next to) every error-return sentinel of the Cython readers, for both row parsers
    for S in sentinels(core.REPO):
        for n in (S - 1, S, S + 1):
            for handler in ('list', 'lazy'):
                cell = bytes((i * 7 + n) & 0xff for i in range(n))
                cases.append({'kind': 'rows', 'body': rows_body(['blob', 'int'], [[cell, encode(T, 'int', 7, 4)], [None, None]]).hex(), 'pv': 4,
                              'cols': ['blob', 'int'], 'handler': handler, 'sentinel': 'cell-length=%d' % n})
                cases.append({'kind': 'rows', 'body': rows_body(['int'], [[None if i % 3 else encode(T, 'int', i, 4)] for i in range(n)]).hex(), 'pv': 4,
                              'cols': ['int'], 'handler': handler, 'digest_rows': True, 'sentinel': 'row-count=%d' % n})
        ctx.count('sentinel', hex(S))
    try:
        from cassandra.policies import ColDesc
        from cassandra.column_encryption.policies import AES256ColumnEncryptionPolicy
        key = bytes(rng.randrange(256) for _ in range(32))
        for _ in range(12 if ctx.tier == 'quick' else 150):
            et = rng.choice(['int', 'varchar', 'bigint', 'blob', 'boolean'])
            pol = AES256ColumnEncryptionPolicy()
            pol.add_column(ColDesc('ks', 'tbl', 'c1'), key, et)
            cols = ['int', 'blob', 'varchar']          # declared types; c1 is the encrypted column (declared blob)
            rows = []
            for _r in range(rng.randint(1, 4)):
                v = None if rng.random() < 0.35 else rand_value(rng, et, util)
                enc = None if v is None else pol.encrypt(ColDesc('ks', 'tbl', 'c1'), encode(T, et, v, 4))
                rows.append([encode(T, 'int', rng.randrange(100), 4), enc, (None if rng.random() < 0.3 else encode(T, 'varchar', 'x', 4))])
            cases.append({'kind': 'ce_rows', 'body': rows_body(cols, rows).hex(), 'pv': 4, 'enc_cols': ['c1'], 'enc_type': et,
                          'key': key.hex(), 'has_null_encrypted': any(r[1] is None for r in rows)})
    except ImportError as e:
        ctx.count('generator_skipped', 'column-encryption-unavailable')
    for sec in [0, 0.5, -0.5, 1.001, -1.001, 1e9 + 0.000001, -1e9 - 0.999999, 253402300799.999, -62135596800.0, 1.5e-6, -2.5e-6,
                86399.9999995, -86400.0000005] + [rng.uniform(-6e10, 2.5e11) for _ in range(100 if ctx.tier == 'quick' else 3000)]:
        cases.append({'kind': 'ts', 'seconds': sec})
    return cases


def run(ctx):
    gen(ctx)
    ok = ctx.prove('Props/C07.v')
    if ctx.tier == 'thorough' and ok:
        ctx.coqchk('Props/C07.v')
    ctx.rule = ('generated keys (every length 0..69, high-bit tail bytes, long keys), encoded values of random nested types (depth <= 2) for protocol '
                'versions 3-5, RESULT rows bodies with 1-5 columns incl. null cells, float timestamps; each decoded by the pure build and by the '
                'compiled build of the current tree; non-trivial = distinct case whose pure result is not an exception')
    try:
        built, sos, cached = cybuild.build_cached(core.REPO)
    except Exception as e:
        ctx.proof_broken.append(('build-extensions', str(e)[-800:]))
        return
    ctx.extra['compiled_modules'] = sos
    ctx.extra['build_cached'] = cached
    ctx.trust('standalone extension build (lib/vf/cybuild.py): extension list read from setup.py by AST; Cython %s + cc' % _cyver())
    cases = make_cases(ctx)
    probe = cases[:1]
    pure = run_worker(ctx, core.REPO, probe, 'pure_probe')
    comp = run_worker(ctx, built, probe, 'compiled_probe')
    ctx.extra['builds'] = {'pure': pure['build'], 'compiled': comp['build']}
    pure['results'] = run_worker_isolating(ctx, core.REPO, cases, 'pure')
    comp['results'] = run_worker_isolating(ctx, built, cases, 'compiled')
    if pure['build']['have_cython'] or not comp['build']['have_cython'] or 'cmurmur3' not in comp['build']['murmur3']:
        ctx.proof_broken.append(('build-identity', 'builds are not (pure, compiled): %r' % (ctx.extra['builds'],)))
    coq_cases, coq_meta = [], []
    for c, a, b in zip(cases, pure['results'], comp['results']):
        nontriv = not (isinstance(a, list) and a and a[0] == 'exc')
        ctx.case([c['kind'], c.get('key') if c['kind'] == 'murmur' else (c.get('bytes') or c.get('body') or c.get('seconds'))], nontrivial=nontriv,
                 sample={k: (v if not isinstance(v, str) or len(v) < 120 else v[:120] + '...') for k, v in c.items()})
        ctx.count('kind', c['kind'])
        if a != b:
            if c['kind'] == 'murmur':
                key = 'cmurmur3.differs-from-python'
            elif c['kind'] == 'ts':
                key = 'cython_utils.datetime_from_timestamp.differs' + ('.negative' if c['seconds'] < 0 else '')
            elif c['kind'] == 'value':
                key = 'compiled-cqltypes.from_binary.differs'
            elif c.get('meta_case'):
                key = 'row-parser.differs.cached-result-metadata.' + c['meta_case']
            elif c.get('sentinel'):
                key = 'row-parser.%s.sentinel-%s' % ('crash' if b and b[0] == 'crash' else 'differs', c['sentinel'].split('=')[0])
            elif c['kind'] == 'ce_rows':
                key = 'row-parser.differs.encrypted-column' + ('.null-cell' if c.get('has_null_encrypted') else '')
            else:
                cs = ''.join(c.get('cols', []))
                key = 'row-parser.differs' + ('.timestamp-column' if 'timestamp' in cs else '') + \
                      ('.null-collection-element' if ('list' in cs or 'map' in cs) and b == ['exc', 'DriverException'] else '')
            ctx.violation(key, '%s: pure build gives %s, compiled build gives %s (%s)' % (c['kind'], json.dumps(a)[:200], json.dumps(b)[:200],
                                                                                       (c.get('t') or c.get('cols') or c.get('seconds') or c.get('key', ''))),
                          case=c, expected=a, actual=b, theorem='C07 (observed equality of the two builds)')
        if c['kind'] == 'murmur' and len(c['key']) <= 600 and isinstance(b, list) and b and b[0] != 'exc':
            bl = '[' + '; '.join(str(x) for x in bytes.fromhex(c['key'])) + ']'
            coq_cases.append('(murmur3_c %s =? %s) && (murmur3_token %s =? %s)' % (bl, _zl(int(b[0])), bl, _zl(int(b[1]))))
            coq_meta.append(c)
    try:
        bad = ctx.coq_filter(['ByteWords', 'Murmur3Spec', 'Murmur3C'], '(fun b : bool => b)', coq_cases, shard=80)
        for i in bad[:10]:
            ctx.disagreement('c-model-vs-extension', 'Coq model of cmurmur3.c disagrees with the compiled extension at key %s' % coq_meta[i]['key'][:80], case=coq_meta[i])
    except RuntimeError as e:
        ctx.proof_broken.append(('correspondence:Murmur3C', str(e)[-600:]))
    ctx.assume('decoding equality of the two builds is observed, not proved (Cython/gcc are not modelled)')


def _zl(v):
    return '(%d)' % v if v < 0 else '%d' % v


def _cyver():
    try:
        import Cython
        return Cython.__version__
    except Exception:
        return '?'


def replay(ctx, rp):
    c = rp.get('case')
    if not c or 'kind' not in c:
        print('nothing to replay: %s' % rp.get('theorem'))
        return 1
    built, sos, cached = cybuild.build_cached(core.REPO)
    a = run_worker(ctx, core.REPO, [c], 'pure')['results'][0]
    b = run_worker(ctx, built, [c], 'compiled')['results'][0]
    print('replay %s: pure %s / compiled %s' % (c['kind'], json.dumps(a)[:300], json.dumps(b)[:300]))
    print(('VIOLATION property=C07 replay=%s' % ctx.replay_path) if a != b else 'not reproduced')
    return 1 if a != b else 0
