"""C17 -- Hosts are tried in query-plan order and exhaustion is reported.

Coq: Model/FutB.v (send_request/_query over a plan and per-host pool states), Props/C17.v.
Tie (C): the REAL ResponseFuture driven step by step with fakes (lib/vf/futb_harness.py); after every step the
messages sent, every write to _errors, retry counter, executor queue and outcome are compared with the model;
the statement itself is checked on the implementation by lib/vf/futb_check.Oracle (which='C17').
(T): ProtocolVersion.uses_keyspace_flag regenerated into Gen/FutbProto.v (used by the shared model).
"""
import itertools
from vf import futb_model as M, futb_check as K, futb_harness as H

PID = 'C17'
META = {
    'technique': 'Coq proof (invariants over all histories of an executable ResponseFuture model) + per-step correspondence with the real class on exhaustive plan x pool-state scopes',
    'level_text': 'C17_order / C17_order_history / C17_no_repeat / C17_other_sends_are_tasks / C17_retry_task_needs_decision / C17_exhaustion_lists_every_host / '
                  'C17_exhaustion / C17_errors_only_plan_hosts / C17_next_page_fresh_plan / C17_order_every_page / C17_replan_master_nodup / C17_timeout_stops_the_walk / C17_target_only proved for every plan, pool-state assignment, retry-policy '
                  'oracle and history (responses, executor runs, speculative firings, pool changes) of the FutB model; model tied to '
                  'cluster.py by step-by-step differential execution of the real ResponseFuture.',
    'level_note': 'Trusted: Coq kernel, the fake session/pool/connection/timer harness, py2coq for uses_keyspace_flag. Not modelled: '
                  'request timeouts inside send_request (timeout=None in the harness; C15), real threads (each session.submit and each '
                  'response is one atomic step), metrics, paging. Exhaustion: proved that NoHostAvailable arises only from an exhausted '
                  'plan, carries _errors, lists only plan hosts, and (for a request without outcome) lists every plan host that has no '
                  'unanswered attempt / queued task left; NoHostAvailable.errors aliases the live _errors dict (compared as a snapshot).',
    'design_ref': 'DESIGN.md section 4, C17; Appendix A.3',
}


def gen(ctx):
    M.gen(ctx)


def base(n, plan, pools, **kw):
    sc = {'n': n, 'plan': list(plan), 'target': None, 'pools': list(pools), 'idem': False, 'spec': [False, 0], 'cl': 1,
          'pv': 4, 'ks': None, 'ps': None, 'known': [], 'script': [[3, None]] * 12, 'ops': []}
    sc['nids'] = [1, 4, 2][(sum(pools) + len(plan)) % 3]
    sc['metrics'] = bool(sum(pools) % 2)
    sc['inline'] = (sum(pools) + 2 * len(plan)) % 3 == 1      # executor-first schedule of retries in a third of the cases
    sc.update(kw)
    return sc


def exhaustive(ctx, max_n):
    """every plan (permutation of all hosts, plus every proper prefix for the largest n) x every pool-state assignment;
    each host that accepts the request answers Overloaded and the policy says RETRY_NEXT_HOST, until the plan is exhausted"""
    items = []
    for n in range(1, max_n + 1):
        plans = list(itertools.permutations(range(n)))
        if n == max_n:
            # the other permutations are relabelings of hosts (all pool assignments are enumerated): a sample of them
            keep = 0.25 if ctx.tier == 'quick' else 5.0 / max(1, len(plans) - 1)
            plans = plans[:1] + [p for p in plans[1:] if ctx.rng.random() < keep and ctx.rng.random() < K.SCALE + 1e-9]
        for plan in plans:
            for pools in itertools.product(range(7), repeat=n):
                sc = base(n, plan, pools)
                obs, bad, run = K.drive_sequential(sc, PID, lambda i, prep, tag: [3, 3, tag])
                items.append((sc, obs, bad, {'nontrivial': n >= 2 and any(p != 6 for p in pools), 'sample': len(items) % 5003 == 17}))
    return items


def targeted(ctx):
    items = []
    for n in (1, 2, 3):
        for tgt in range(n):
            for st in range(7):
                for dec in (0, 1, 2, 3):
                    pools = [6] * n
                    pools[tgt] = st
                    sc = base(n, list(range(n)), pools, target=tgt, script=[[dec, None]] * 4)
                    obs, bad, run = K.drive_sequential(sc, PID, lambda i, prep, tag: [3, 6, tag] if i < 3 else [0], max_ops=12)
                    items.append((sc, obs, bad, {'nontrivial': True, 'sample': len(items) == 40}))
    return items


def spec_races(ctx):
    """the speculative timer fires while send_request is inside _query for its first host, before anything was sent"""
    items = []
    for n in (2, 3):
        for first in range(7):
            for maxa in (1, 2):
                pools = [6] * n
                pools[0] = first
                sc = base(n, list(range(n)), pools, idem=True, spec=[True, maxa], script=[[3, None]] * 6)
                run = H.Run(sc)
                orc = K.Oracle(sc, run, PID)
                obs = []
                op = ['start', 'spec_in_borrow']
                for i in range(12):
                    sc['ops'].append(op)
                    obs.append(orc.step(i, op))
                    if run.env.queue:
                        op = ['run', 0]
                    elif run.spec_armed() and i < 3:
                        op = ['spec']
                    elif run.open_attempts():
                        op = ['resp', run.open_attempts()[0], [3, 3, 20 + i]]
                    else:
                        break
                items.append((sc, obs, orc.bad, {'nontrivial': True}))
    return items


def speculative(ctx):
    """two executions in flight (speculative execution fired) and one of them fails: a same-host retry goes to the host that
    failed, a next-host retry to the next plan host -- for server errors and for connection errors, both orders, both schedules"""
    items = []
    for kind in (3, 7, 8, 0):
        for dec in (0, 3):
            for first in (0, 1):
                for inline in (False, True):
                    sc = base(3, [1, 0, 2], [6, 6, 6], idem=True, spec=[True, 1], inline=inline,
                              script=[[dec, None], [1, None], [1, None]])
                    run = H.Run(sc)
                    orc = K.Oracle(sc, run, PID)
                    obs = []
                    for op in [['start'], ['spec'], ['resp', first, [3, kind, 10]], ['run', 0], ['resp', 1 - first, [0]]]:
                        if op[0] == 'run' and not run.env.queue:
                            continue
                        if op[0] == 'resp' and op[1] not in run.open_attempts():
                            continue
                        sc['ops'].append(op)
                        obs.append(orc.step(len(sc['ops']) - 1, op))
                    items.append((sc, obs, orc.bad, {'nontrivial': True}))
    return items


def timeouts(ctx):
    """a request with a client timeout; borrow_connection on some hosts outlasts it (pool state 7): the walk must stop there
    without reporting NoHostAvailable for hosts it never tried; before / after a connection was ever borrowed"""
    items = []
    for n in (2, 3, 4):
        for pools in itertools.product((7, 2, 6, 3), repeat=n):
            if 7 not in pools:
                continue
            if n == 4 and ctx.rng.random() < 0.6:
                continue
            sc = base(n, list(range(n)), pools, timeout=True, script=[[3, None]] * 8)
            obs, bad, run = K.drive_sequential(sc, PID, lambda i, prep, tag: [3, 3, tag], max_ops=14)
            items.append((sc, obs, bad, {'nontrivial': True, 'sample': len(items) == 7}))
    return items


def paged(ctx):
    """paged results: first page answered with a paging state, then one or two further page fetches (each with its own plan
    from the load balancer, or the explicit target again) x pool states x what the hosts answer on the later page"""
    items = []
    for n in (1, 2, 3):
        for target in [None] + list(range(n)):
            for st in (6, 0, 2, 3):
                for later in ([0], [3, 3, 0], [8]):
                    pools = [6] * n
                    sc = base(n, list(range(n)), pools, target=target, script=[[3, None]] * 8)
                    run = H.Run(sc)
                    orc = K.Oracle(sc, run, PID)
                    obs = []
                    plan2 = list(reversed(range(n)))
                    first2 = target if target is not None else plan2[0]
                    ops = [['start'], ['resp', 0, [8]], ['pool', first2, st], ['page', plan2]]
                    for op in ops:
                        sc['ops'].append(op)
                        obs.append(orc.step(len(sc['ops']) - 1, op))
                    tag = 30
                    for k in range(10):
                        if run.env.queue:
                            op = ['run', 0]
                        elif run.open_attempts():
                            r = list(later)
                            if r[0] == 3:
                                tag += 1
                                r[2] = tag
                            op = ['resp', run.open_attempts()[0], r]
                        elif run.future._paging_state and run.completed() and k < 6 and later == [8]:
                            op = ['page', list(range(n))]
                            later = [0]
                        else:
                            break
                        sc['ops'].append(op)
                        obs.append(orc.step(len(sc['ops']) - 1, op))
                    items.append((sc, obs, orc.bad, {'nontrivial': True, 'sample': len(items) == 17}))
    return items


def analytics(ctx):
    """DSE graph analytics requests: plan re-made by Session._on_analytics_master_result (master first), every master / failed
    lookup x plan x pool state of the master, driven to exhaustion with RETRY_NEXT_HOST"""
    items = []
    for n in (2, 3):
        for plan in itertools.permutations(range(n)):
            for master in [None] + list(range(n)):
                for mst in (6, 0, 3):
                    pools = [6] * n
                    if master is not None:
                        pools[master] = mst
                    elif mst != 6:
                        continue
                    sc = base(n, plan, pools, analytics={'master': master}, script=[[3, None]] * 8)
                    obs, bad, run = K.drive_sequential(sc, PID, lambda i, prep, tag: [3, 3, tag])
                    items.append((sc, obs, bad, {'nontrivial': True, 'sample': len(items) == 11}))
    return items


def reprepares(ctx):
    """UNPREPARED on the first host, for every size of the stream-id deque (with 1 the PREPARE goes out on stream id 0)"""
    items = []
    for nids in (1, 2, 3, 4):
        for pr in ([2, 7], [2, 8], [3, 7, 21], [3, 3, 21]):
            for pools in ([6, 6, 6], [6, 2, 6]):
                sc = base(3, [0, 1, 2], pools, ps=[7, 3, None], nids=nids, script=[[3, None]] * 6)
                obs, bad, run = K.drive_sequential(sc, PID, lambda i, prep, tag: (pr if prep else ([4, 7, tag] if i == 0 else [3, 3, tag])), max_ops=14)
                items.append((sc, obs, bad, {'nontrivial': True}))
    return items


def randoms(ctx, count):
    items = []
    for i in range(count):
        sc = M.random_scenario(ctx.rng)
        if i % 7 == 3 and sc['n'] >= 2:      # malformed stream: a plan that repeats a host (model comparison only)
            sc['plan'] = sc['plan'] + sc['plan'][:1]
        obs, bad, run = K.grow(sc, ctx.rng, PID, weights={'retryable': 0.7, 'unprepared': 0.1})
        items.append((sc, obs, bad, {'sample': i == 5}))
    return items


def run(ctx):
    gen(ctx)
    ok = ctx.prove('Props/C17.v')
    if ctx.tier == 'thorough' and ok:
        ctx.coqchk('Props/C17.v')
    items = []
    for name, sc in K.load_corpus(PID):
        sc = dict(sc)
        obs, bad, run_ = K.replay_scenario(sc, PID)
        items.append((sc, obs, bad, {'nontrivial': True}))
        ctx.count('source', 'corpus')
    ex = exhaustive(ctx, 4 if ctx.tier == 'thorough' else 3)
    items += ex
    ctx.count('source', 'exhaustive', len(ex))
    tg = targeted(ctx)
    items += tg
    ctx.count('source', 'explicit_target', len(tg))
    sp = speculative(ctx)
    items += sp
    ctx.count('source', 'two_executions_in_flight', len(sp))
    to = timeouts(ctx)
    items += to
    ctx.count('source', 'client_timeout_elapses_in_borrow', len(to))
    pg = paged(ctx)
    items += pg
    ctx.count('source', 'paged_results', len(pg))
    an = analytics(ctx)
    items += an
    ctx.count('source', 'graph_analytics_master_plan', len(an))
    rp = reprepares(ctx)
    items += rp
    ctx.count('source', 'reprepare_stream_ids', len(rp))
    sr = spec_races(ctx)
    items += sr
    ctx.count('source', 'speculative_timer_inside_first_query', len(sr))
    rd = randoms(ctx, int((800 if ctx.tier == 'quick' else 6000) * K.SCALE))
    items += rd
    ctx.count('source', 'random_history', len(rd))
    ctx.exhaustive = True
    ctx.rule = ('exhaustive up to relabeling of hosts: every permutation plan over fewer than %d hosts, and for that many hosts the identity '
                'plan plus a sample of permutations (quick: 25%%, thorough: about 5), x every assignment of the 7 pool states (missing, shut down, '
                'NoConnectionsAvailable, ConnectionBusy, borrow raises, send_msg raises, healthy), driven to exhaustion with '
                'Overloaded/RETRY_NEXT_HOST; every explicit-target x pool state x decision; plus random legal histories (walk of the '
                'implementation\'s enabled operations: responses of all kinds, executor runs in any order, speculative firings, pool '
                'changes; 1 in 7 with a duplicate host in the plan). Non-trivial = at least two operations and, in the exhaustive '
                'part, at least 2 hosts with at least one unusable pool; distinct = distinct scenario incl. history.'
                % (4 if ctx.tier == 'thorough' else 3))
    K.evaluate(ctx, PID, items)
    ctx.trust('fake session / pools / connections / executor queue / timers and recording retry policy (lib/vf/futb_harness.py)',
              'Python oracle of the C17 statement (lib/vf/futb_check.py, which=C17)')
    ctx.assume('each response delivery, each session.submit task and each timer callback is one atomic step (they run on the '
               'event-loop / executor threads one at a time per future in the modelled histories)',
               'what the timeout timer does when it fires belongs to C15; the walk\'s own timeout exit (time passing inside borrow_connection) is modelled')


def replay(ctx, rp):
    return K.do_replay(ctx, rp, PID)
