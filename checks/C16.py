"""C16 -- Retries do exactly what the retry policy decided.

Coq: Model/FutB.v (error branches of _set_result, _handle_retry_decision, _retry/_retry_task through the executor queue,
_query_retries, speculative-plan gating), Props/C16.v; the retry policy is an oracle (arbitrary function).
Tie (C): the REAL ResponseFuture (created by the REAL Session._create_response_future on a fake session) driven step by step
with a recording retry policy returning scripted decisions; every step's messages (host, kind, consistency), policy
consultations (kind, retry_num, consistency), _errors writes, retry counter, queue and outcome are compared with the model;
the statement itself is checked on the implementation by futb_check.Oracle(which='C16').
"""
import itertools
from vf import futb_model as M, futb_check as K, futb_harness as H

PID = 'C16'
META = {
    'technique': 'Coq proof over an executable ResponseFuture model with the retry policy as an arbitrary oracle + per-step correspondence with the real class and a recording policy',
    'level_text': 'C16_consulted_once_and_obeyed / C16_consulted_only_on_failure / C16_obeys_retry / C16_obeys_next_host / '
                  'C16_no_retry_after_failure / C16_retry_num / C16_non_idempotent_never_speculative proved for every policy '
                  '(function of consultation number and all arguments), every state / every history of the FutB model; model tied to '
                  'cluster.py by step-by-step differential execution (all 9 failure kinds x 4 decisions x {None, cl} x idempotence).',
    'level_note': 'Trusted: Coq kernel, harness fakes (session, pools, connections, executor queue, timers), recording policy. '
                  'Decisions outside the four constants are not modelled (the source treats them as IGNORE). retry_num is proved equal '
                  'to the number of RETRY/RETRY_NEXT_HOST decisions taken; a decision taken after the request already failed '
                  '(speculative executions) counts but schedules nothing (C16_no_retry_after_failure). Timeouts: C15.',
    'design_ref': 'DESIGN.md section 4, C16; Appendix A.3',
}


def gen(ctx):
    M.gen(ctx)


def base(**kw):
    sc = {'n': 3, 'plan': [1, 0, 2], 'target': None, 'pools': [6, 6, 6], 'idem': False, 'spec': [False, 0], 'cl': 1,
          'pv': 4, 'ks': None, 'ps': None, 'known': [], 'script': [], 'ops': []}
    sc.update(kw)
    return sc


def grid(ctx):
    """every failure kind x every decision x {None, cl} x idempotence x {same host usable, not usable}, two failures deep"""
    items = []
    second = [(0, None), (3, 7), (1, None), (2, None)]
    for kind in range(9):
        for dec in range(4):
            for dcl in (None, 0, 5):        # 0 = ConsistencyLevel.ANY (falsy)
                for idem in (False, True):
                    for same_ok in (True, False):
                        d2, c2 = second[(kind + dec) % 4]
                        sc = base(idem=idem, spec=[True, 1], script=[[dec, dcl], [d2, c2], [1, None]],
                                  metrics=bool((kind + dec) % 2), nids=[1, 4, 2][(kind + idem) % 3])
                        kinds = [kind, (kind + 4) % 9, (kind + 2) % 9]
                        run = H.Run(sc)
                        orc = K.Oracle(sc, run, PID)
                        obs = []
                        ops = [['start'], ['resp', 0, [3, kinds[0], 10]]]
                        if not same_ok:
                            ops.append(['pool', 1, 2])
                        elif kind >= 7:
                            ops.append(['pool', 1, 6])      # connection error: the pool replaced the connection (ids restart at 0)
                        ops += [['run', 0], ['resp', 1, [3, kinds[1], 11]], ['run', 0], ['resp', 2, [3, kinds[2], 12]]]
                        for i, op in enumerate(ops):
                            sc['ops'].append(op)
                            obs.append(orc.step(i, op))
                        items.append((sc, obs, orc.bad, {'nontrivial': True, 'sample': len(items) in (3, 77)}))
    return items


def run_ops(sc, ops):
    run = H.Run(sc)
    orc = K.Oracle(sc, run, PID)
    obs = []
    for i, op in enumerate(ops):
        if op[0] == 'run' and not run.env.queue:
            continue
        if op[0] == 'resp' and op[1] not in run.open_attempts():
            continue
        if op[0] == 'spec' and not run.spec_armed():
            continue
        sc['ops'].append(op)
        obs.append(orc.step(len(sc['ops']) - 1, op))
    return obs, orc.bad, run


def levels(ctx):
    """every consistency level a policy can choose (all 11, ANY = 0 included, and None) x RETRY / RETRY_NEXT_HOST x initial level"""
    items = []
    for dec in (0, 3):
        for dcl in [None] + list(range(11)):
            for cl0 in (1, 0):
                for kind in (0, 7):
                  for metrics in (False, True):           # Cluster(metrics_enabled=True): bookkeeping must not change the decision's effect
                    for nids in (1, 4):                   # nids=1: every re-send on a host goes out on stream id 0
                      sc = base(cl=cl0, metrics=metrics, nids=nids, inline=bool(nids == 1 and metrics), script=[[dec, dcl], [dec, None], [1, None]])
                      obs, bad, run = run_ops(sc, [['start'], ['resp', 0, [3, kind, 10]], ['run', 0], ['resp', 1, [3, (kind + 1) % 9, 11]],
                                                   ['run', 0], ['resp', 2, [3, 2, 12]]])
                      items.append((sc, obs, bad, {'nontrivial': True, 'sample': len(items) == 9}))
    return items


def speculative(ctx):
    """two attempts in flight (speculative execution fired before the first answer): every failure kind x decision x which attempt
    fails first; the same-host retry must go to the host whose answer was decided upon"""
    items = []
    for kind in range(9):
        for dec in range(4):
            for first in (0, 1):
                for dcl in (None, 0, 7):
                    if dcl == 7 and (kind + dec) % 3:
                        continue
                    sc = base(idem=True, spec=[True, 2], script=[[dec, dcl], [(dec + 1) % 4, None], [1, None], [1, None]])
                    obs, bad, run = run_ops(sc, [['start'], ['spec'], ['resp', first, [3, kind, 10]], ['run', 0],
                                                 ['resp', 1 - first, [3, (kind + 3) % 9, 11]], ['run', 0], ['resp', 2, [0]], ['resp', 3, [1]]])
                    items.append((sc, obs, bad, {'nontrivial': True, 'sample': len(items) == 21}))
    return items


def bound_flags(ctx):
    """BoundStatement / PreparedStatement idempotence flags that differ (the executed statement is the bound one), and simple
    statements, x speculative policy present? x max_attempts"""
    items = []
    for ps in ([7, 3, None], None):
        for idem in (False, True):
            for pidem in ((None, False, True) if ps else (None,)):
                for has_pol in (False, True):
                    for maxa in (0, 1, 2):
                        sc = base(ps=ps, idem=idem, spec=[has_pol, maxa], script=[[3, None], [1, None]])
                        if pidem is not None:
                            sc['pidem'] = pidem
                        obs, bad, run = run_ops(sc, [['start'], ['spec'], ['spec'], ['resp', 0, [3, 3, 10]], ['run', 0], ['resp', 1, [0]]])
                        items.append((sc, obs, bad, {'nontrivial': True, 'sample': len(items) == 30}))
    return items


def shutdowns(ctx):
    """Session.shutdown() at every point around a retry decision: a refused retry fails the request with ConnectionShutdown"""
    items = []
    for dec in range(4):
        for kind in (0, 3, 7):
            for where in range(3):
                sc = base(script=[[dec, 5], [1, None]])
                ops = [['start'], ['resp', 0, [3, kind, 10]], ['run', 0], ['resp', 1, [3, 2, 11]]]
                ops.insert(where + 1, ['shutdown'])
                obs, bad, run = run_ops(sc, ops)
                items.append((sc, obs, bad, {'nontrivial': True}))
    return items


def targeted(ctx):
    items = []
    for dec in range(4):
        for kind in (0, 3, 7):
            sc = base(target=0, script=[[dec, None]] * 4)
            obs, bad, run = K.drive_sequential(sc, PID, lambda i, prep, tag: [3, kind, tag] if i < 3 else [0], max_ops=12)
            items.append((sc, obs, bad, {'nontrivial': True}))
    return items


def randoms(ctx, count):
    items = []
    for i in range(count):
        sc = M.random_scenario(ctx.rng)
        obs, bad, run = K.grow(sc, ctx.rng, PID, max_ops=16, weights={'retryable': 0.75, 'unprepared': 0.08})
        items.append((sc, obs, bad, {'sample': i == 11}))
    return items


def run(ctx):
    gen(ctx)
    ok = ctx.prove('Props/C16.v')
    if ctx.tier == 'thorough' and ok:
        ctx.coqchk('Props/C16.v')
    items = []
    for name, sc in K.load_corpus(PID):
        sc = dict(sc)
        obs, bad, run_ = K.replay_scenario(sc, PID)
        items.append((sc, obs, bad, {'nontrivial': True}))
        ctx.count('source', 'corpus')
    g = grid(ctx)
    items += g
    ctx.count('source', 'decision_grid', len(g))
    t = targeted(ctx)
    items += t
    ctx.count('source', 'explicit_target', len(t))
    for name, fn in (('session_shutdown', shutdowns), ('consistency_levels', levels), ('speculative_in_flight', speculative), ('bound_vs_prepared_flags', bound_flags)):
        part = fn(ctx)
        items += part
        ctx.count('source', name, len(part))
    rd = randoms(ctx, int((900 if ctx.tier == 'quick' else 8000) * K.SCALE))
    items += rd
    ctx.count('source', 'random_history', len(rd))
    for sc, obs, bad, tags in items:
        for d, c in sc['script'][:3]:
            ctx.count('decision', '%s/%s' % (H.DECISION_NAMES[d], 'cl' if c is not None else 'None'))
        ctx.count('idempotent', str(bool(sc['idem'])))
    ctx.exhaustive = True
    ctx.rule = ('grid (complete): 9 failure kinds x 4 decisions x {None, ANY, ALL} x idempotent? x same host usable?, each followed by two '
                'more failures and decisions; all 11 consistency levels and None x RETRY/RETRY_NEXT_HOST x initial level; two attempts in '
                'flight (speculative execution) x failure kind x decision x which attempt fails first; BoundStatement/PreparedStatement '
                'idempotence flags that differ x speculative policy x max_attempts; explicit-target cases; random legal histories (walk of the implementation\'s enabled '
                'operations: responses of all kinds, executor runs in any order, speculative firings, pool changes) with random '
                'scripted decisions. Non-trivial = at least two operations; distinct = distinct scenario incl. history.')
    K.evaluate(ctx, PID, items)
    ctx.trust('fake session / pools / connections / executor queue / timers and recording retry policy (lib/vf/futb_harness.py)',
              'Python oracle of the C16 statement (lib/vf/futb_check.py, which=C16)')
    ctx.assume('each response delivery, each session.submit task and each timer callback is one atomic step',
               'the retry policy returns one of the four RetryPolicy constants')


def replay(ctx, rp):
    return K.do_replay(ctx, rp, PID)
