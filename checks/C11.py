"""C11 -- messages pushed concurrently reach the socket whole and in order (PARTIAL).

Proof: coq/Props/C11.v over coq/Model/Push.v (any interleaving of pushes / loop steps / writes, any sizes).
Tie (C): the real AsyncioConnection.push/_push_msg/handle_write and TwistedConnection.push are driven by N real threads
on a socket.socketpair(); the bytes received by the peer are (a) checked against the statement directly and (b) compared
with the model run under the schedule read off the received stream; the chunk lists the real push() enqueues are compared
with the model's `chunks`.  Protocol v5 send path: real send_msg from two threads under vf.detsched line schedules + shared-state audit.
Partial: the asyncio/twisted schedulers and real thread timing are outside the model (FIFO hand-off is assumed).
"""
import json, os
from vf import core

META = {
    'technique': 'Coq proof (invariant over all interleavings of push / loop-task / write steps) + correspondence of the real '
                 'asyncio and twisted push paths on a local socketpair with N threads',
    'level_text': 'C11_chunks and C11_order proved for every message, every positive buffer size and every interleaving of the '
                  'modelled atomic steps; the real AsyncioConnection.push/_push_msg/handle_write and TwistedConnection.push are run '
                  'with 1-4 threads and message sizes around out_buffer_size on a socketpair and the received bytes compared with '
                  'the model and with the statement.',
    'level_note': 'PARTIAL: the proof assumes call_soon_threadsafe/callFromThread hand tasks to the loop in FIFO order, that a '
                  'coroutine with no await between put_nowait calls is one loop step and that sock_sendall/transport.write send a '
                  'whole chunk; event-loop schedulers and real thread timing are only sampled by the threaded runs, not modelled. '
                  'libev/asyncore/eventlet/gevent reactors are not importable here.',
    'design_ref': 'DESIGN.md section 4, C11',
}


def tag(t, i):
    return 16 * t + i + 1


def build(progs_spec):
    """progs_spec: per thread, list of lengths -> per thread list of bytes; message (t, i) is `tag(t,i)` repeated"""
    return [[bytes([tag(t, i)]) * n for i, n in enumerate(p)] for t, p in enumerate(progs_spec)]


def rle(bs):
    out = []
    for x in bs:
        if out and out[-1][0] == x:
            out[-1][1] += 1
        else:
            out.append([x, 1])
    return out


def oracle(progs_spec, got):
    """the statement on the received bytes -> (failure class or None, detail, schedule witness)"""
    total = sum(sum(p) for p in progs_spec)
    runs = rle(got)
    want = {}
    for t, p in enumerate(progs_spec):
        for i, n in enumerate(p):
            if n:
                want[tag(t, i)] = (t, i, n)
    seen = {}
    nxt = [0] * len(progs_spec)      # next index each thread is expected to deliver
    sched = []
    fail = None
    for pos, (b, k) in enumerate(runs):
        if b not in want:
            fail = fail or ('foreign-bytes', 'byte value %d never pushed' % b)
            continue
        t, i, n = want[b]
        if b in seen:
            fail = fail or (('interleaved' if seen[b] + k <= n else 'duplicated'),
                            'message (thread %d, #%d, %d bytes) appears in more than one piece (%d then %d bytes)' % (t, i, n, seen[b], k))
            seen[b] += k
            continue
        seen[b] = k
        pieces = [kk for bb, kk in runs if bb == b]
        if len(pieces) > 1:
            fail = fail or (('interleaved' if sum(pieces) <= n else 'duplicated'),
                            'message (thread %d, #%d, %d bytes) is on the wire in %d separate pieces %r: other bytes in between' % (t, i, n, len(pieces), pieces[:6]))
        elif k != n:
            fail = fail or (('truncated' if k < n else 'duplicated'), 'message (thread %d, #%d) has %d bytes on the wire, pushed %d' % (t, i, k, n))
        # empty messages of this thread that precede it are invisible: schedule them just before
        while nxt[t] < i and progs_spec[t][nxt[t]] == 0:
            sched.append(t)
            nxt[t] += 1
        if i < nxt[t] or i > nxt[t]:
            fail = fail or ('reordered', 'thread %d: message #%d arrived when #%d was next' % (t, i, nxt[t]))
        nxt[t] = max(nxt[t], i + 1)
        sched.append(t)
    for t, p in enumerate(progs_spec):
        while nxt[t] < len(p):
            if p[nxt[t]] != 0 and fail is None:
                fail = ('nothing-written' if not got else 'lost', 'message (thread %d, #%d, %d bytes) never reached the socket (%d of %d bytes arrived)'
                        % (t, nxt[t], p[nxt[t]], len(got), total))
            sched.append(t)
            nxt[t] += 1
    if fail is None and len(got) != total:
        fail = ('length', '%d bytes arrived, %d pushed' % (len(got), total))
    return fail, sched, runs


def g_wire(md, direct, progs, sched, pattern, flush, big, runs):
    """progs: per thread [(byte value, length)]"""
    return 'check_wire_z %s [%s] %s [%s] [%s] %d %d [%s]' % (
        md, '; '.join('%d%%nat' % t for t in direct),
        '[' + '; '.join('[' + '; '.join('(%d, %d)' % x for x in p) + ']' for p in progs) + ']',
        '; '.join('%d%%nat' % t for t in sched), '; '.join(str(k) for k in pattern), flush, big,
        '; '.join('(%d, %d)' % (b, k) for b, k in runs))


def g_case(kind, bufsize, progs_spec, sched, runs, pattern=(), direct=None):
    """asyncio: application threads hand off to the loop (direct = []); twisted: every thread schedules directly"""
    md = '(Chunked (Z.to_nat %d))' % bufsize if kind == 'asyncio' else 'Whole'
    if direct is None:
        direct = [] if kind == 'asyncio' else list(range(len(progs_spec)))
    progs = [[(tag(t, i), n) for i, n in enumerate(p)] for t, p in enumerate(progs_spec)]
    nchunks = sum((n // max(bufsize, 1)) + 2 for p in progs_spec for n in p)
    big = (bufsize if kind == 'asyncio' else max([n for p in progs_spec for n in p] + [1])) + 1
    return g_wire(md, direct, progs, sched, pattern, nchunks, big, runs)


PRELUDE = '''
Definition check_wire_z (md : mode) (direct : list nat) (p : list (list (Z * Z))) (sched : list nat) (pattern : list Z) (flush big : Z)
           (received : list (Z * Z)) : bool :=
  check_wire md direct (map (map (fun d : Z * Z => (fst d, Z.to_nat (snd d)))) p) sched (map Z.to_nat pattern) (Z.to_nat flush) (Z.to_nat big) received.
Definition chunk_lengths_z (n len : Z) : option (list Z) :=
  match chunk_lengths (Z.to_nat n) (Z.to_nat len) with Some l => Some (map Z.of_nat l) | None => None end.
Definition optlist_eqb (a : option (list Z)) (b : list Z) : bool :=
  match a with Some l => (fix eqb (x y : list Z) := match x, y with [], [] => true | u :: x', v :: y' => Z.eqb u v && eqb x' y' | _, _ => false end) l b | None => false end.
'''


def gen_specs(ctx):
    """(bufsize, per-thread lists of message lengths)"""
    out = []
    rng = ctx.rng
    for n in (8, 16):
        pool = [0, 1, n - 1, n, n + 1, 2 * n - 1, 2 * n, 2 * n + 1, 3 * n + 5]
        for nthreads in (1, 2, 3, 4):
            reps = 3 if ctx.tier == 'quick' else 25
            for _ in range(reps):
                out.append((n, [[rng.choice(pool) for _ in range(rng.randint(1, 6))] for _ in range(nthreads)]))
    pool = [4095, 4096, 4097, 8191, 8192, 8193, 10000, 100, 0]
    for nthreads in (2, 4):
        for _ in range(2 if ctx.tier == 'quick' else 12):
            out.append((4096, [[rng.choice(pool) for _ in range(rng.randint(1, 4))] for _ in range(nthreads)]))
    return out


def load_corpus():
    d = os.path.join(core.VERIF, 'corpus', 'C11')
    out = []
    if os.path.isdir(d):
        for fn in sorted(os.listdir(d)):
            if fn.endswith('.json'):
                with open(os.path.join(d, fn)) as f:
                    c = json.load(f)
                out.append((c['reactor'], c['bufsize'], c['progs']))
    return out


def observed_chunks(P, sizes, bufsize):
    """the chunk lists the real AsyncioConnection.push hands to _push_msg, seen through a recording write queue"""
    import asyncio, socket
    a, b = socket.socketpair()
    try:
        conn = P._asyncio_class()(a, bufsize)
        rec = []

        class RecQueue(asyncio.Queue):
            def put_nowait(self, item):
                rec.append(len(item))
                return asyncio.Queue.put_nowait(self, item)
        conn._write_queue = RecQueue()
        res = []
        for n in sizes:
            del rec[:]
            conn.push(b'\x07' * n)
            # wait until the loop has run the task (the loop is FIFO: a marker task scheduled after it runs after it)
            fut = asyncio.run_coroutine_threadsafe(asyncio.sleep(0), loop=conn._loop)
            fut.result(5)
            fut = asyncio.run_coroutine_threadsafe(asyncio.sleep(0), loop=conn._loop)
            fut.result(5)
            res.append((n, list(rec)))
        conn._write_watcher.cancel()
        return res
    finally:
        a.close()
        b.close()


def callback_pushes(ctx, P, cases, meta, dead):
    """pushes made ON the event-loop thread (response callbacks: handshake steps, retries, set-keyspace, next page) mixed
    with pushes of an application thread.
    asyncio: the loop-thread branch of push() (create_task) against a _push_msg task of a many-chunk message, the loop held
    while both are scheduled, the loop-thread push deferred by 0..3 loop iterations.
    twisted: thread A pushes m1 while the reactor is busy, then m2 while the reactor thread is inside handle_read() running a
    response callback (which pushes m3 itself)."""
    reported = set()

    def report(kind, fail, spec, case, runs, nbytes):
        key = '%s.callback-push.%s' % (kind, fail[0])
        if key not in reported:
            reported.add(key)
            ctx.violation(key, '%s reactor, pushes from the event-loop thread mixed with an application thread: %s; %r' % (kind, fail[1], case),
                          case=case, expected='every pushed message whole, once, per-thread order', actual={'received_runs': runs[:40], 'bytes': nbytes},
                          theorem='C11_order', kind='interleaving')
    if 'asyncio' not in dead:
        plans = [(8, 400, 5, 7), (8, 257, 0, 9), (16, 1000, 16, 1)]
        if ctx.tier == 'thorough':
            plans += [(8, 8 * 32, 3, 3), (8, 8 * 33, 3, 3), (8, 8 * 64 + 1, 8, 8), (4096, 4096 * 33 + 5, 100, 10)]
        for bufsize, big, small, lsize in plans:
            for depth in (0, 1, 2, 3):
                spec = [[big, small], [lsize]]                       # thread 0 = application thread, thread 1 = the loop thread
                msgs = build(spec)
                got = P.run_asyncio_loop_pushes(msgs[0], [(msgs[1][0], depth)], bufsize)
                fail, sched, runs = oracle(spec, got)
                case = {'callback_push': 'asyncio', 'bufsize': bufsize, 'progs': spec, 'depth': depth}
                ctx.case(['asyncio-loop-push', bufsize, spec, depth, sched], nontrivial=True,
                         sample=dict(case, arrival_order_threads=sched) if depth == 1 else None)
                ctx.count('reactor', 'asyncio-loop-thread-push')
                if fail:
                    report('asyncio', fail, spec, case, runs, len(got))
                cases.append(g_case('asyncio', bufsize, spec, sched, runs, direct=[1]))
                meta.append(('asyncio-loop-push', bufsize, spec, bool(fail)))
    if 'twisted' not in dead:
        for l1, l2, l3 in ((10, 20, 5), (5000, 3, 0), (1, 1, 1)) + (((4097, 4096, 9000),) if ctx.tier == 'thorough' else ()):
            spec = [[l1, l2], [l3]] if l3 else [[l1, l2], []]
            msgs = build(spec)
            got, entered = P.run_twisted_read_pushes(msgs[0][0], msgs[0][1], msgs[1][0] if l3 else None)
            fail, sched, runs = oracle(spec, got)
            if not entered and not fail:
                fail = ('callback-not-run', 'handle_read() did not deliver the response to its callback')
            case = {'callback_push': 'twisted', 'progs': spec}
            ctx.case(['twisted-read-push', spec, sched], nontrivial=True, sample=dict(case, arrival_order_threads=sched) if l3 == 5 else None)
            ctx.count('reactor', 'twisted-push-during-handle_read')
            if fail:
                report('twisted', fail, spec, case, runs, len(got))
            cases.append(g_case('twisted', 4096, spec, sched, runs))
            meta.append(('twisted-read-push', 4096, spec, bool(fail)))


def send_path(ctx, cases, meta):
    """protocol v5: what reaches push() is assembled by Connection.send_msg, which application threads call concurrently
    WITHOUT a lock.  Real send_msg of real QueryMessages on a checksumming connection, two threads switched line by line
    inside cassandra/connection.py (vf.detsched: every schedule with <= 2 preemptions), pushed bytes decoded with the
    driver's SegmentCodec; plus the shared-mutable-state audit of send_msg."""
    from vf import push_send as S, detsched
    probs = S.audit_send_msg(core.REPO)
    ctx.extra['send_msg_shared_state_audit'] = probs or 'ok: send_msg touches only whitelisted configuration attributes and a fresh local buffer'
    ctx.trust('shared-state audit of Connection.send_msg (lib/vf/push_send.py:audit_send_msg); vf.detsched line-granular scheduler (search aid)')
    if probs:
        ctx.proof_broken.append(('shared-state-audit:send_msg', '; '.join(probs)))
    # the third plan: a request larger than Segment.MAX_PAYLOAD_LENGTH (several non-self-contained segments) against a small one
    plans = [(5, [[20], [30]], 16, 2), (5, [[5, 40], [12]], 30, 1), (5, [[140000], [10]], 24, 1)]
    if ctx.tier == 'thorough':
        plans += [(6, [[20], [30]], 16, 2), (5, [[5, 40], [12, 3]], 40, 2), (5, [[200000], [10]], 16, 1)]
    reported = set()
    for version, spec, steps, preempt in plans:
        ref = S.reference(spec, version)
        fref = S.reference_frames(spec, version)
        for sched in detsched.schedules_two_threads(steps, preempt):
            pushed, errs, _n = S.run_schedule(spec, sched, version)
            fail = S.oracle(spec, ref, pushed, version, fref)
            if errs and not fail:
                fail = ('send-raised', errs[0])
            ctx.case(['send_msg', version, spec, sched], nontrivial=len(set(sched)) > 1)
            ctx.count('reactor', 'send_msg-v%d-detsched' % version)
            if fail:
                key = 'send_msg.v5-segments.%s' % fail[0]
                if key not in reported:
                    reported.add(key)
                    ctx.violation(key, 'protocol v%d send_msg from two threads, line schedule %r: %s (query sizes per thread %r)' % (version, sched, fail[1], spec),
                                  case={'send_path': True, 'version': version, 'spec': spec, 'schedule': sched}, kind='interleaving',
                                  expected='every request written whole, exactly once, per-thread order', actual={'pushes': len(pushed)}, theorem='C11_order')
                continue
            # model: each send_msg is one push of the message's bytes; the pushed order is the schedule witness
            order = [x[0] for x in S.decode_stream(b''.join(pushed), version)]
            progs = [[(S.sid(t, i), len(ref[S.sid(t, i)])) for i in range(len(p))] for t, p in enumerate(spec)]
            g = g_wire('Whole', list(range(len(spec))), progs, [(o - 1) // 16 for o in order], (), 2 * len(order) + 2,
                       max(len(v) for v in ref.values()) + 1, [(o, len(ref[o])) for o in order])
            if g not in cases:
                cases.append(g)
                meta.append(('send_msg-v%d' % version, 0, spec, False))


def run(ctx):
    ok = ctx.prove('Props/C11.v')
    if ctx.tier == 'thorough' and ok:
        ctx.coqchk('Props/C11.v')
    from vf import push_impl as P
    cases, meta = [], []
    dead = set()
    try:
        specs = [(k, n, p) for (k, n, p) in load_corpus()]
        for n, p in gen_specs(ctx):
            for kind in ('asyncio', 'twisted'):
                specs.append((kind, n, p))
        for kind, bufsize, spec in specs:
            if kind in dead:
                continue
            progs = build(spec)
            # asyncio: two cases out of three run with a socket that accepts only part of what it is given (back-pressure)
            partial, sendlog = None, []
            if kind == 'asyncio' and ctx.rng.random() < 0.67:
                partial = [ctx.rng.choice([None, None, 0, 1, 2, 3, 5, bufsize - 1, bufsize // 2 + 1]) for _ in range(ctx.rng.randint(2, 7))]
                if all(k == 0 for k in partial):
                    partial.append(None)
            got, errs = P.run_pushes(kind, progs, out_buffer_size=bufsize, timeout=3.0, partial=partial, log=sendlog)
            ctx.count('asyncio_socket', 'partial-sends' if partial else 'accepts-all') if kind == 'asyncio' else None
            fail, sched, runs = oracle(spec, got)
            nthreads = len(spec)
            big = any(n > bufsize for p in spec for n in p)
            ctx.case([kind, bufsize, spec, sched], nontrivial=(nthreads >= 2 and (big or kind == 'twisted')),
                     sample={'reactor': kind, 'out_buffer_size': bufsize, 'message_lengths_per_thread': spec, 'arrival_order_threads': sched,
                             'bytes': len(got)} if nthreads >= 3 and big else None)
            ctx.count('reactor', kind)
            ctx.count('threads', nthreads)
            ctx.count('bufsize', bufsize)
            for p in spec:
                for n in p:
                    ctx.count('size_vs_buffer', 'empty' if n == 0 else 'below' if n < bufsize else 'equal' if n == bufsize else
                              'one_over' if n == bufsize + 1 else 'multiple' if n % bufsize == 0 else 'above')
            if errs:
                fail = fail or ('push-raised', errs[0])
            if fail:
                cause = ''
                if fail[0] == 'nothing-written' and kind == 'asyncio':
                    import asyncio
                    try:
                        conn_cls = P._asyncio_class()
                        import socket
                        a, b = socket.socketpair()
                        c = conn_cls(a, bufsize)
                        exc = asyncio.run_coroutine_threadsafe(c._push_msg([b'x']), loop=c._loop).exception(5)
                        cause = ' (_push_msg raised %s: %s)' % (type(exc).__name__, exc) if exc else ''
                        c._write_watcher.cancel()
                        a.close()
                        b.close()
                    except Exception as e:
                        cause = ' (probe failed: %r)' % (e,)
                    dead.add(kind)       # every further case would only wait for its timeout
                ctx.violation('%s.%s' % (kind, fail[0]), '%s reactor: %s%s; threads push %r with out_buffer_size=%d' % (kind, fail[1], cause, spec, bufsize),
                              case={'reactor': kind, 'bufsize': bufsize, 'progs': spec, 'partial': partial}, expected='every pushed message whole, once, per-thread order',
                              actual={'received_runs': runs[:40], 'bytes': len(got)}, theorem='C11_order', kind='interleaving')
            cases.append(g_case(kind, bufsize, spec, sched, runs, pattern=sendlog[:400]))
            meta.append((kind, bufsize, spec, bool(fail)))
        callback_pushes(ctx, P, cases, meta, dead)
        send_path(ctx, cases, meta)
        # chunk lists of the real push() vs the model's chunks
        chunk_cases, chunk_meta = [], []
        if 'asyncio' not in dead:
            for bufsize in (8, 4096):
                sizes = [0, 1, bufsize - 1, bufsize, bufsize + 1, 2 * bufsize - 1, 2 * bufsize, 2 * bufsize + 1, 3 * bufsize + 5]
                for n, lens in observed_chunks(P, sizes, bufsize):
                    ctx.count('chunk_probe', 'bufsize=%d' % bufsize)
                    if sum(lens) != n:      # (chunk SIZES are the model's business: a disagreement, not a failure of the statement)
                        ctx.violation('asyncio.chunks', 'push() of %d bytes with out_buffer_size=%d enqueued chunks of lengths %r' % (n, bufsize, lens),
                                      case={'reactor': 'asyncio', 'bufsize': bufsize, 'progs': [[n]]}, expected='chunks concatenating to the message',
                                      actual=lens, theorem='C11_chunks')
                    chunk_cases.append('optlist_eqb (chunk_lengths_z %d %d) [%s]' % (bufsize, n, '; '.join(str(l) for l in lens)))
                    chunk_meta.append((bufsize, n, lens))
    finally:
        P.shutdown()
    ctx.exhaustive = False
    ctx.rule = ('random per-thread message-length lists (1-4 threads, 1-6 messages each) from boundary pools around out_buffer_size '
                '(0, 1, n-1, n, n+1, 2n-1, 2n, 2n+1, 3n+5 for n in {8, 16}; 4095..10000 for n = 4096), both reactors, real threads with a 10 us switch '
                'interval; non-trivial = distinct case with >= 2 threads (and, for asyncio, at least one message larger than the buffer)')
    try:
        bad = ctx.coq_filter(['Push'], '(fun b : bool => b)', cases, shard=40, prelude=PRELUDE)
        for i in bad[:5]:
            kind, bufsize, spec, failed = meta[i]
            if not failed:
                ctx.disagreement('model-vs-impl.wire', 'received bytes are not what the model writes under the observed schedule: %s bufsize=%d %r' % (kind, bufsize, spec),
                                 case={'reactor': kind, 'bufsize': bufsize, 'progs': spec})
        bad = ctx.coq_filter(['Push'], '(fun b : bool => b)', chunk_cases, prelude=PRELUDE)
        for i in bad[:5]:
            bufsize, n, lens = chunk_meta[i]
            ctx.disagreement('model-vs-impl.chunks', 'push(%d bytes, out_buffer_size=%d) enqueued chunk lengths %r, the model differs' % (n, bufsize, lens),
                             case={'reactor': 'asyncio', 'bufsize': bufsize, 'progs': [[n]]}, actual=lens)
    except RuntimeError as e:
        ctx.proof_broken.append(('correspondence:Push', str(e)[-800:]))
    ctx.trust('harness lib/vf/push_impl.py: socketpair, reader, thread start barrier, twisted transport stub doing sendall; '
              'schedule witness read off the received stream (unique byte value per message)')
    ctx.assume('the event loop runs its ready entries (threadsafe callbacks, task steps, callFromThread calls) in FIFO order',
               'a coroutine with no await between its put_nowait calls runs as one event-loop step',
               'a thread uses one scheduling mechanism only (asyncio: loop thread = create_task, other threads = run_coroutine_threadsafe)',
               'the writer resumes the unsent rest of a chunk (loop.sock_sendall; twisted transport buffer)')


def replay(ctx, rp):
    case = rp.get('case') or ({'reactor': rp['reactor'], 'bufsize': rp['bufsize'], 'progs': rp['progs']} if 'progs' in rp else {})   # replay file or corpus file
    if case.get('callback_push'):
        from vf import push_impl as P
        try:
            msgs = build(case['progs'])
            if case['callback_push'] == 'asyncio':
                got = P.run_asyncio_loop_pushes(msgs[0], [(msgs[1][0], case['depth'])], case['bufsize'])
            else:
                got, _ok = P.run_twisted_read_pushes(msgs[0][0], msgs[0][1], msgs[1][0] if msgs[1] else None)
        finally:
            P.shutdown()
        fail, sched, runs = oracle(case['progs'], got)
        print('replay %r -> %d bytes, runs %r; %s' % (case, len(got), runs[:12], fail))
        print(('VIOLATION property=C11 replay=%s' % ctx.replay_path) if fail else 'not reproduced')
        return 1 if fail else 0
    if case.get('send_path'):
        from vf import push_send as S
        ref = S.reference(case['spec'], case['version'])
        pushed, errs, _n = S.run_schedule(case['spec'], case['schedule'], case['version'])
        fail = S.oracle(case['spec'], ref, pushed, case['version']) or (('send-raised', errs[0]) if errs else None)
        print('replay send_msg v%d spec %r schedule %r -> %d pushes; %s' % (case['version'], case['spec'], case['schedule'], len(pushed), fail))
        print(('VIOLATION property=C11 replay=%s' % ctx.replay_path) if fail else 'not reproduced')
        return 1 if fail else 0
    if 'progs' not in case:
        print('nothing to replay: %s' % rp.get('theorem'))
        return 1
    from vf import push_impl as P
    bad = None
    try:
        for _ in range(5):
            got, errs = P.run_pushes(case['reactor'], build(case['progs']), out_buffer_size=case['bufsize'], timeout=3.0, partial=case.get('partial'))
            fail, sched, runs = oracle(case['progs'], got)
            print('replay %s bufsize=%d %r -> %d bytes, runs %r %s' % (case['reactor'], case['bufsize'], case['progs'], len(got), runs[:20], errs[:1]))
            if fail or errs:
                bad = fail or ('push-raised', errs[0])
                print('  property fails: %s' % (bad[1],))
                break
    finally:
        P.shutdown()
    print(('VIOLATION property=C11 replay=%s' % ctx.replay_path) if bad else 'not reproduced')
    return 1 if bad else 0
