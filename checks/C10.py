"""C10 -- a failed connection fails every pending request exactly once.
Same model/harness as C09 (Model/Conn.v, lib/vf/conn_impl.py).  Every generated history is replayed with a failure
(defunct or close) injected at EVERY index; callback invocations are counted on the real object; the model is compared
at every step."""
import json
from vf import core, conn_corr, conn_impl, conn_check

META = {
    'technique': 'Coq theorems over the Conn model (failure steps in any state) + refuted full statement; fault injection at every index of '
                 'generated histories on the real Connection with per-callback invocation counts; step-by-step correspondence',
    'level_text': 'C10_send_refused, C10_swap_empties, C10_no_late_delivery, C10_errcall_once hold in every state; C10_exactly_once_instance on a '
                  'concrete history; the full statement is refuted twice (send/defunct race, paging sessions on close()): open findings C10-1, C10-2.',
    'level_note': 'PARTIAL: exactly-once for arbitrary interleavings is checked on the implementation (fault at every index), not proved as one '
                  'unbounded theorem. Trusted: Coq kernel, model (tied by correspondence), harness close() replica (reactor close() shape audited).',
    'design_ref': 'DESIGN.md section 4 C10, Appendix A.1',
}


def oracle_c10(h, acts, fail_index):
    """after the failure completed: every callback registered when the failure started was invoked exactly once in total and got
    ConnectionShutdown (or the decode error that caused the failure); nothing delivered to it later; later sends are refused."""
    out = []
    if h.fail_snapshot is None:
        return out
    pending, sessions = h.fail_snapshot
    for tok in pending:
        c = h.cb_counts.get(tok, [0, 0, 0])
        if sum(c) != 1 or (c[1] + c[2]) != 1:
            out.append(('pending-callback.count', 'callback %r outstanding at the failure was invoked %r (deliver, exc, shutdown) times' % (tok, c)))
    for tok in sessions:
        e = h.cp_events.get(tok, [0, 0])
        if e[1] != 1:
            out.append(('paging-session.close-not-errored' if h.fail_kind == 'close' else 'paging-session.count',
                        'paging session %r alive at the %s got %d error notifications' % (tok, h.fail_kind, e[1])))
    late = sorted(h.conn.__dict__['_requests_real'].keys())
    if late:
        key = 'registered-after-failure.send-race' if h.send_race else 'registered-after-failure'
        out.append((key, 'requests still registered on the dead connection after error_all_requests: streams %r' % late))
    return out


def with_fault(cfg, acts, k, kind):
    h = conn_impl.Harness(**cfg)
    h.fail_snapshot, h.fail_kind, h.send_race = None, kind, False
    orig = h._before_close

    def snap():
        if h.fail_snapshot is None:
            h.fail_snapshot = ([v[0].tok for v in h.conn.__dict__['_requests_real'].values()],
                               [t for (t, s) in h.cp_sessions.values() if not s.released])
    real_defunct, real_close = h.a_defunct, h.a_close

    def a_defunct(a):
        snap()
        if h.send_hook is None and h.in_nested:
            h.send_race = True
        real_defunct(a)

    def a_close(a):
        snap()
        if h.in_nested:
            h.send_race = True
        real_close(a)
    h.a_defunct, h.a_close = a_defunct, a_close
    seq = list(acts[:k]) + [{'a': kind}] + list(acts[k:])
    try:
        h.run(seq)
        # a send after the failure must be refused
        if h.pool_has_conn():
            h.do({'a': 'query', 'r': 9001, 'in_cb': [{'a': 'return'}]})
            h.checkpoint()
    except Exception as e:
        h.problems.append('exception escaped: %r' % (e,))
        h.checkpoint()
    return h, seq


def run(ctx):
    ok = ctx.prove('Props/C10.v')
    if ctx.tier == 'thorough' and ok:
        ctx.coqchk('Props/C10.v')
    conn_check.run_audit(ctx)
    ctx.trust("no-socket harness: close() replicates the reactors' common close() (shape audited by lib/vf/conn_audit.py)")
    ctx.assume('user callbacks do not raise', 'the daemon thread of error_all_requests runs to completion (made synchronous in the harness)')
    base = conn_check.random_histories(ctx, 5 if ctx.tier == 'quick' else 60,
                                       profiles=[('plain', {'nest': 0.2, 'drain': False}), ('cp', {'nest': 0.2, 'cp': 1, 'drain': False}),
                                                 ('race', {'nest': 0.6, 'drain': False})], thread_threshold=True)
    hs = []
    for name, cfg, acts, _ in base:
        for k in range(len(acts) + 1):
            for kind in ('defunct', 'close'):
                h, seq = with_fault(cfg, acts, k, kind)
                hs.append((name + ':' + kind, cfg, seq, h))
                ctx.count('fault_kind', kind)
                ctx.count('fault_index', min(k, 10))
                found = oracle_c10(h, seq, k)
                ctx.case([cfg, seq], nontrivial=bool(h.fail_snapshot and (h.fail_snapshot[0] or h.fail_snapshot[1])),
                         sample={'cfg': cfg, 'actions': seq[:6], 'pending_at_failure': h.fail_snapshot, 'counts': h.cb_counts})
                for key, what in found:
                    ctx.violation(key, '%s; history=%s' % (what, json.dumps(seq)[:400]), case={'cfg': cfg, 'actions': seq, 'fault': [k, kind]},
                                  expected='exactly one connection error per outstanding handler', actual=h.cb_counts, kind='history',
                                  theorem='C10_full_statement')
                if any(e[0] == 0 and e[2] == 9001 for e in h.events):
                    ctx.violation('send-after-failure-accepted', 'send_msg accepted a request on a failed connection', case={'cfg': cfg, 'actions': seq},
                                  theorem='C10_send_refused')
                for p in h.problems:
                    ctx.disagreement('harness-problem', p[:300], case={'cfg': cfg, 'actions': seq})
    # the two refutation witnesses, on the real code
    w1 = [{'a': 'query', 'r': 7, 'in_cb': [{'a': 'return'}], 'after_check': [{'a': 'defunct'}]}]
    cfg = dict(n_init=4, max_in_flight=4, thr=2)
    h, seq = with_fault(cfg, w1, 1, 'close')
    h.send_race = True
    hs.append(('witness:send-race', cfg, seq, h))
    for key, what in oracle_c10(h, seq, 0):
        ctx.violation(key, what + ' (witness of C10_send_race_refuted)', case={'cfg': cfg, 'actions': seq}, theorem='C10_send_race_refuted', kind='interleaving')
    ctx.exhaustive = False
    ctx.rule = ('each generated history (1-6 requests, optional paging sessions / interleavings) replayed with defunct() and with close() injected at EVERY '
                'index; non-trivial = at least one request or paging session outstanding at the failure')
    conn_check.compare_with_model(ctx, hs, 'C10')


def replay(ctx, rp):
    case = rp.get('case') or {}
    if not case.get('actions'):
        print('nothing to replay: %s' % rp.get('theorem'))
        return 1
    kind = 'close' if any(a['a'] == 'close' for a in case['actions']) else 'defunct'
    k = [i for i, a in enumerate(case['actions']) if a['a'] == kind]
    acts = [a for i, a in enumerate(case['actions']) if not k or i != k[0]]
    h, seq = with_fault(case['cfg'], acts, k[0] if k else len(acts), kind)
    found = oracle_c10(h, seq, 0)
    print('counts', h.cb_counts, 'paging', h.cp_events, 'oracle', found)
    print(('VIOLATION property=C10 replay=%s' % ctx.replay_path) if found else 'not reproduced')
    return 1 if found else 0
