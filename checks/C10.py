"""C10 -- a failed connection fails every pending request exactly once.
Same model/harness as C09 (Model/Conn.v, lib/vf/conn_impl.py).  Every generated history is replayed with a failure
(defunct or close) injected at EVERY index; callback invocations are counted on the real object; the model is compared
at every step."""
import json, os
from vf import core, conn_corr, conn_impl, conn_check, conn_aio

META = {
    'technique': 'Coq theorems over the Conn model (failure steps in any state) + refuted full statement; fault injection at every index of '
                 'generated histories on the real Connection with per-callback invocation counts; step-by-step correspondence',
    'level_text': 'C10_send_refused, C10_swap_empties, C10_no_late_delivery, C10_errcall_once hold in every state; C10_exactly_once_instance on a '
                  'concrete history; the full statement is refuted twice (send/defunct race, paging sessions on close()): open findings C10-1, C10-2.',
    'level_note': 'PARTIAL: exactly-once for arbitrary interleavings is checked on the implementation (fault at every index), not proved as one '
                  'unbounded theorem. Trusted: Coq kernel, model (tied by correspondence), harness close() replica (reactor close() shape audited).',
    'design_ref': 'DESIGN.md section 4 C10, Appendix A.1',
}


KINDS = ('defunct', 'close', 'decode', 'proto', 'hb_silent', 'hb_error')


def oracle_c10(h, acts, fail_index):
    """after the failure completed: every handler registered when the failure started was invoked exactly once in total, with a
    connection error (ConnectionShutdown, or the decode error / protocol error response that caused the failure for the request
    being answered); nothing stays registered; a failed heartbeat (any owner, control connection included) defuncts the connection."""
    out = []
    if h.fail_snapshot is None:
        return out
    pending, sessions = h.fail_snapshot
    if h.fail_kind.startswith('hb') and h.hb_failure_expected and not h.conn.is_defunct:
        out.append(('heartbeat-failure.not-defunct' + ('.control-connection' if h.control else ''),
                    'heartbeat %s on a %s connection: connection not defunct afterwards, %d pending handlers never failed'
                    % (h.fail_kind, 'CONTROL' if h.control else 'pool', len(pending))))
        return out
    for tok in pending:
        c = h.cb_counts.get(tok, [0, 0, 0])
        ok = sum(c) == 1 and ((c[1] + c[2]) == 1 or tok == h.fail_answered_tok)
        if not ok:
            why = 'never invoked' if sum(c) == 0 else ('invoked %d times' % sum(c) if sum(c) > 1 else 'got a normal response')
            out.append(('pending-callback.' + ('never-invoked' if sum(c) == 0 else 'invoked-twice' if sum(c) > 1 else 'count')
                        + ('.after-raising-handler' if h.raising and sum(c) == 0 else ''),
                        'handler %r outstanding at the failure (%s) was %s: (deliveries, decode errors, ConnectionShutdown) = %r; raising handlers %r'
                        % (tok, h.fail_kind, why, c, sorted(h.raising))))
    for tok in sessions:
        e = h.cp_events.get(tok, [0, 0])
        if e[1] != 1:
            out.append(('paging-session.close-not-errored' if h.fail_kind == 'close' else
                        ('paging-session.not-errored' + ('.no-request-pending' if not pending else '') if e[1] == 0 else 'paging-session.count'),
                        'paging session %r alive at the %s got %d error notifications' % (tok, h.fail_kind, e[1])))
    late = sorted(h.conn.__dict__['_requests_real'].keys())
    if late:
        key = ('registered-after-failure.after-push' if getattr(h, 'push_race', False) and not h.send_race else
               'registered-after-failure.send-race' if h.send_race else 'registered-after-failure')
        out.append((key, 'requests still registered on the dead connection after error_all_requests: streams %r' % late))
    return out


def with_fault(cfg, acts, k, kind, raising=(), control=False):
    hc = dict(cfg)
    hc['control'] = control
    h = conn_impl.Harness(**hc)
    h.fail_snapshot, h.fail_kind, h.send_race = None, kind, False
    h.fail_answered_tok, h.hb_failure_expected = None, False
    h.push_race = False
    h.raising = set(raising)

    def snap():
        if h.fail_snapshot is None:
            h.fail_snapshot = ([v[0].tok for v in h.conn.__dict__['_requests_real'].values()],
                               [t for (t, s) in h.cp_sessions.values() if not s.released])
    real_defunct, real_close = h.a_defunct, h.a_close

    def a_defunct(a):
        snap()
        if h.in_push_hook:
            h.push_race = True       # the failure lands after send_msg handed the message to the reactor, before send_msg returns
        elif h.send_hook is None and h.in_nested:
            h.send_race = True
        real_defunct(a)

    def a_close(a):
        snap()
        if h.in_push_hook:
            h.push_race = True
        elif h.in_nested:
            h.send_race = True
        real_close(a)

    def a_fail_respond(a):
        # the failure is caused by the response being processed: undecodable body / ProtocolException
        reg = h.conn.__dict__['_requests_real']
        cand = [(i, t) for (i, t) in h.wire if i in reg and i not in h.conn._continuous_paging_sessions
                and (i, t) == [w for w in h.wire if w[0] == i][0]]
        if not cand or h.conn.is_defunct or h.conn.is_closed or h.pm is not None:
            h.fail_kind = 'defunct'         # no registered request to answer: plain socket error instead
            return a_defunct({'a': 'defunct'})
        snap()
        i, tok = cand[0]
        h.fail_answered_tok = reg[i][0].tok
        h.a_respond({'a': 'respond', 'i': i, 'd': a['d']})

    def a_hb_fail(a):
        alive = h.pool_has_conn() and not (h.conn.is_defunct or h.conn.is_closed)
        snap()
        if not alive:
            h.fail_snapshot = None
            return
        h.hb_failure_expected = True
        for _ in range(2):                  # the first round may only reset the idle flag of a busy connection
            if h.pool_has_conn() and not h.conn.is_defunct:
                h.a_hb_round({'a': 'hb_round', 'reply': a['reply']})
    h.a_defunct, h.a_close, h.a_fail_respond, h.a_hb_fail = a_defunct, a_close, a_fail_respond, a_hb_fail
    inj = {'defunct': {'a': 'defunct'}, 'close': {'a': 'close'}, 'decode': {'a': 'fail_respond', 'd': 'DFail'},
           'proto': {'a': 'fail_respond', 'd': 'DProto'}, 'hb_silent': {'a': 'hb_fail', 'reply': 'silent'},
           'hb_error': {'a': 'hb_fail', 'reply': 'error'}}[kind]
    seq = list(acts[:k]) + [inj] + list(acts[k:])
    try:
        h.run(seq)
        # a send after the failure must be refused
        if h.pool_has_conn() and h.fail_snapshot is not None:
            h.do({'a': 'query', 'r': 9001, 'in_cb': [{'a': 'return'}]})
            h.checkpoint()
    except Exception as e:
        import traceback
        h.problems.append('exception escaped: %r %s' % (e, traceback.format_exc()[-500:]))
        h.checkpoint()
    return h, seq


def judge(ctx, name, cfg, seq, h, k, kind, raising, control):
    found = oracle_c10(h, seq, k)
    case = {'cfg': cfg, 'actions': seq, 'fault': [k, kind], 'raising': sorted(raising), 'control': control}
    ctx.case([cfg, seq, sorted(raising), control], nontrivial=bool(h.fail_snapshot and (h.fail_snapshot[0] or h.fail_snapshot[1])),
             sample={'cfg': cfg, 'actions': seq[:6], 'fault': kind, 'raising': sorted(raising), 'control': control,
                     'pending_at_failure': h.fail_snapshot, 'counts': h.cb_counts})
    for key, what in found:
        ctx.violation(key, '%s; history=%s' % (what, json.dumps(seq)[:400]), case=case,
                      expected='exactly one connection error per outstanding handler', actual=h.cb_counts, kind='history',
                      theorem='C10_full_statement')
    if any(e[0] == 0 and e[2] == 9001 for e in h.events):
        ctx.violation('send-after-failure-accepted', 'send_msg accepted a request after the connection failure (%s)' % kind, case=case,
                      theorem='C10_send_refused')
    for p in h.problems:
        ctx.disagreement('harness-problem', p[:300], case=case)
    return found


def run(ctx):
    ok = ctx.prove('Props/C10.v')
    if ctx.tier == 'thorough' and ok:
        ctx.coqchk('Props/C10.v')
    conn_check.run_audit(ctx)
    ctx.trust("no-socket harness: close() replicates the reactors' common close() (shape audited by lib/vf/conn_audit.py)")
    ctx.assume('a handler may raise when it is told about the failure (the other handlers must still be failed)',
               'the daemon thread of error_all_requests runs to completion (made synchronous in the harness)')
    base = conn_check.random_histories(ctx, 5 if ctx.tier == 'quick' else 60,
                                       profiles=[('plain', {'nest': 0.2, 'drain': False}), ('cp', {'nest': 0.2, 'cp': 1, 'drain': False}),
                                                 ('race', {'nest': 0.6, 'drain': False})], thread_threshold=True)
    hs = []
    rng = ctx.rng
    for name, cfg, acts, _ in base:
        toks = sorted(set(a['r'] for a in acts if 'r' in a and a['a'] in ('query', 'borrow', 'send')))
        for k in range(len(acts) + 1):
            for kind in KINDS:
                raising = [t for t in toks if rng.random() < 0.4] if rng.random() < 0.5 else []
                control = kind.startswith('hb') and rng.random() < 0.5
                h, seq = with_fault(cfg, acts, k, kind, raising, control)
                hs.append((name + ':' + kind, cfg, seq, h))
                ctx.count('fault_kind', h.fail_kind)
                ctx.count('fault_index', min(k, 10))
                ctx.count('raising_handlers', len(raising))
                if control:
                    ctx.count('owner', 'control-connection')
                judge(ctx, name, cfg, seq, h, k, kind, raising, control)
    # directed: several outstanding requests, some handlers raise, inline and helper-thread path of error_all_requests;
    # failure caused by the response being processed; heartbeat failure on a control connection
    many = [{'a': 'query', 'r': r, 'in_cb': [{'a': 'return'}]} for r in (1, 2, 3, 4)]
    for thr_thr in (None, 2):
        for kind in KINDS:
            for raising in ((), (1, 2), (2, 3, 4)):
                for control in ((False, True) if kind.startswith('hb') else (False,)):
                    cfg = dict(n_init=4, max_in_flight=6, thr=3)
                    if thr_thr:
                        cfg['thread_threshold'] = thr_thr
                    h, seq = with_fault(cfg, many, 4, kind, raising, control)
                    hs.append(('directed:' + kind, cfg, seq, h))
                    ctx.count('fault_kind', 'directed-' + kind)
                    judge(ctx, 'directed', cfg, seq, h, 4, kind, raising, control)
    # a continuous paging session is the ONLY outstanding work (its initial request was answered): every failure cause
    cp_only = [{'a': 'query', 'r': 1, 'in_cb': [{'a': 'cp_new', 'sess': 101}, {'a': 'return'}]}, {'a': 'respond_tok', 'r': 1},
               {'a': 'respond', 'i': 0, 'd': 'CpPage'}]
    cp_plus = cp_only + [{'a': 'query', 'r': 2, 'in_cb': [{'a': 'return'}]}]
    for base_acts, nm in ((cp_only, 'paging-session-only'), (cp_plus, 'paging-session+request')):
        for kind in KINDS:
            for control in ((False, True) if kind.startswith('hb') else (False,)):
                cfg = dict(n_init=4, max_in_flight=6, thr=3)
                h, seq = with_fault(cfg, base_acts, len(base_acts), kind, (), control)
                hs.append(('directed:' + nm + ':' + kind, cfg, seq, h))
                ctx.count('fault_kind', nm + '-' + h.fail_kind)
                judge(ctx, 'directed', cfg, seq, h, len(base_acts), kind, (), control)
    # the connection fails right after send_msg handed the message to the reactor (push), before send_msg returns to the sender:
    # the request is registered by then (send_msg registers BEFORE it pushes) and must be failed with the others
    for npend in (0, 2):
        for fk in ('defunct', 'close'):
            for via in ('query', 'send'):
                pend = [{'a': 'query', 'r': r, 'in_cb': [{'a': 'return'}]} for r in range(1, npend + 1)]
                if via == 'query':
                    last = [{'a': 'query', 'r': 7, 'in_cb': [{'a': 'return'}], 'at_push': [{'a': fk}]}]
                else:
                    last = [{'a': 'borrow', 'r': 7}, {'a': 'send', 'r': 7, 'in_cb': [{'a': 'return'}], 'at_push': [{'a': fk}]}]
                cfg = dict(n_init=4, max_in_flight=6, thr=3)
                h = conn_impl.Harness(**cfg)
                h2, seq = with_fault(cfg, pend + last, len(pend) + len(last), 'close')   # the trailing close() is a no-op after the failure
                h2.fail_kind = fk + '-at-push'
                hs.append(('directed:at-push:' + fk, cfg, seq, h2))
                ctx.count('fault_kind', 'at-push-' + fk)
                judge(ctx, 'directed', cfg, seq, h2, len(seq) - 1, 'close', (), False)
                c7 = h2.cb_counts.get(7, [0, 0, 0])
                if sum(c7) != 1 or c7[2] != 1:
                    ctx.violation('pending-callback.never-invoked.after-push' if sum(c7) == 0 else 'pending-callback.count.after-push',
                                  'request 7 had been handed to the reactor (push) when the connection failed (%s): its handler got (deliveries, decode errors, '
                                  'ConnectionShutdown) = %r; still registered: %r' % (fk, c7, sorted(h2.conn.__dict__['_requests_real'])),
                                  case={'cfg': cfg, 'actions': seq, 'fault': [len(seq) - 1, 'close'], 'raising': [], 'control': False, 'expect_tok': 7},
                                  kind='interleaving', theorem='C10_full_statement')
    # the refutation witness of the send/defunct race, on the real code
    w1 = [{'a': 'query', 'r': 7, 'in_cb': [{'a': 'return'}], 'after_check': [{'a': 'defunct'}]}]
    cfg = dict(n_init=4, max_in_flight=4, thr=2)
    h, seq = with_fault(cfg, w1, 1, 'close')
    h.send_race = True
    hs.append(('witness:send-race', cfg, seq, h))
    for key, what in oracle_c10(h, seq, 0):
        ctx.violation(key, what + ' (witness of C10_send_race_refuted)', case={'cfg': cfg, 'actions': seq}, theorem='C10_send_race_refuted', kind='interleaving')
    ctx.exhaustive = False
    ctx.rule = ('each generated history (1-6 requests, optional paging sessions / interleavings) replayed with a failure injected at EVERY index, of every '
                'cause: defunct(), close(), undecodable response, ProtocolException response, silent / unexpected heartbeat (pool and control connection '
                'owners); in half of the cases some handlers raise when errored; directed 4-request cases on the inline and the helper-thread path; '
                'non-trivial = at least one request or paging session outstanding at the failure')
    conn_check.compare_with_model(ctx, hs, 'C10')
    run_aio(ctx)
    run_green(ctx)


def aio_oracle(name, arg, n, raising):
    """one scenario on the REAL AsyncioConnection (lib/vf/conn_aio.py) -> (violations, observation, model expression or None)"""
    a, ops = conn_aio.scenario(name, arg, n, raising)
    c = a.conn
    out = []
    tag = 'asyncio.' + name + ('.' + arg if arg else '')
    for tok in range(1, n + 1):
        cnt = a.counts.get(tok, [0, 0, 0])
        if sum(cnt) != 1 or cnt[1] + cnt[2] != 1:
            out.append((tag + ('.handler-never-failed' if sum(cnt) == 0 else '.handler-count'),
                        'AsyncioConnection, %s%s with %d requests outstanding: handler %d was invoked (deliveries, decode errors, ConnectionShutdown) = %r; '
                        'is_defunct=%s is_closed=%s; reader/writer task died with %r'
                        % (name, ' (' + arg + ')' if arg else '', n, tok, cnt, c.is_defunct, c.is_closed, a.escaped)))
    if sorted(c._requests):
        out.append((tag + '.still-registered', 'AsyncioConnection %s: streams %r still registered after the failure' % (tag, sorted(c._requests))))
    if not (c.is_defunct or c.is_closed):
        out.append((tag + '.not-failed', 'AsyncioConnection %s: connection neither defunct nor closed afterwards (task died with %r)' % (tag, a.escaped)))
    if a.send(99) != 'refused':
        out.append((tag + '.send-accepted', 'AsyncioConnection %s: send_msg accepted a request after the failure' % tag))
    obs = {'defunct': bool(c.is_defunct), 'closed': bool(c.is_closed), 'registered': sorted(c._requests), 'counts': a.counts, 'escaped': a.escaped}
    expr = None
    if ops is not None:
        allops = a.ops[:-2] if a.ops[-1].startswith('SendCheck') else a.ops     # drop the probe send (Borrow; SendCheck)
        allops = [o for o in allops] + ops + ['ErrCall'] * n
        sh = [a.counts.get(t, [0, 0, 0])[2] for t in range(1, n + 1)]
        expr = ('let s := run (init 8 7 6) [%s] in Bool.eqb (defunct s) %s && Bool.eqb (closed s) %s && list_eqb (sort (keys (reqs s))) %s '
                '&& list_eqb (map (fun t => shutdowns t (log s)) %s) %s'
                % ('; '.join(allops), conn_corr.b(c.is_defunct), conn_corr.b(c.is_closed), conn_corr.zl(sorted(c._requests)),
                   conn_corr.zl(list(range(1, n + 1))), conn_corr.zl(sh)))
    a.finish()
    return out, obs, expr


def run_aio(ctx):
    ctx.trust('AsyncioConnection driven without a socket (lib/vf/conn_aio.py): loop.sock_recv/sock_sendall scripted, event loop stepped by hand')
    exprs, meta = [], []
    for name, arg in conn_aio.SCENARIOS:
        for n in (0, 1, 3):
            if n == 0 and name in ('send_error', 'decode_error_frame', 'close_then_bad_frame_same_read'):
                continue        # nothing is written, so no write can fail
            for raising in ((), (1,), (2, 3)) if n == 3 else ((),):
                found, obs, expr = aio_oracle(name, arg, n, raising)
                case = {'aio': [name, arg, n, list(raising)]}
                ctx.case(['aio', name, arg, n, list(raising)], nontrivial=n > 0, sample={'reactor': 'asyncio', 'scenario': name, 'error': arg, 'requests': n, 'observed': obs})
                ctx.count('fault_kind', 'asyncio-' + name)
                for key, what in found:
                    ctx.violation(key, what, case=case, expected='every outstanding handler failed exactly once, later sends refused', actual=obs,
                                  kind='history', theorem='C10_deferred_close_then_failure / C10_full_statement')
                if expr is not None:
                    exprs.append(expr)
                    meta.append((case, obs))
    try:
        bad = ctx.coq_filter(['Conn'], '(fun b : bool => b)', exprs, shard=60)
        for i in bad[:5]:
            ctx.disagreement('model-vs-impl.asyncio', 'Conn model (Close / CloseRun / DefunctFlag ...) differs from the real AsyncioConnection in scenario %r' % (meta[i][0],),
                             case=meta[i][0], actual=meta[i][1])
    except RuntimeError as e:
        ctx.proof_broken.append(('correspondence:Conn-asyncio', str(e)[-600:]))


def green_oracle(rec):
    tag = '%s.%s%s' % (rec['kind'], rec['name'], ('.' + rec['arg']) if rec.get('arg') else '')
    out = []
    if 'error' in rec:
        return [(tag + '.harness-error', 'scenario raised %s' % rec['error'])]
    for tok in range(1, rec['n'] + 1):
        cnt = rec['counts'].get(str(tok), [0, 0, 0])
        if sum(cnt) != 1 or cnt[1] + cnt[2] != 1:
            out.append((tag + ('.handler-never-failed' if sum(cnt) == 0 else '.handler-count'),
                        '%s reactor, %s with %d requests outstanding: handler %d was invoked (deliveries, decode errors, ConnectionShutdown) = %r; '
                        'is_defunct=%s is_closed=%s socket closed=%s' % (rec['kind'], tag, rec['n'], tok, cnt, rec['defunct'], rec['closed'], rec['sock_closed'])))
    if rec['registered']:
        out.append((tag + '.still-registered', '%s: streams %r still registered after the failure' % (tag, rec['registered'])))
    if not (rec['defunct'] or rec['closed']):
        out.append((tag + '.not-failed', '%s: connection neither defunct nor closed afterwards' % tag))
    if rec['later_send'] != 'refused':
        out.append((tag + '.send-accepted', '%s: send_msg accepted a request after the failure' % tag))
    return out


def run_green_proc(kind, extra=()):
    import subprocess, sys
    env = dict(os.environ)
    try:
        p = subprocess.run([sys.executable, '-W', 'ignore', '-m', 'vf.conn_green', kind] + list(extra), env=env, stdout=subprocess.PIPE,
                           stderr=subprocess.STDOUT, text=True, timeout=150)
        out = p.stdout
    except subprocess.TimeoutExpired as e:
        out = (e.stdout or b'').decode() if isinstance(e.stdout, bytes) else (e.stdout or '')
        return None, 'timeout: ' + out[-300:]
    for line in out.split('\n'):
        if line.startswith('JSON:'):
            return json.loads(line[5:]), None
    return None, out[-400:]


def run_green(ctx):
    ctx.trust('EventletConnection / GeventConnection driven in real greenthreads over an in-memory socket (lib/vf/conn_green.py), one subprocess per reactor')
    for kind in ('eventlet', 'gevent'):
        recs, err = run_green_proc(kind)
        if recs is None:
            ctx.violation(kind + '.reactor-hung-or-crashed', '%s reactor scenarios did not finish: %s' % (kind, err), case={'green': [kind]},
                          theorem='C10_full_statement')
            continue
        for rec in recs:
            case = {'green': [rec['kind'], rec['name'], rec['arg'] or '-', rec['n'], rec['raising']]}
            ctx.case(['green', rec['kind'], rec['name'], rec['arg'], rec['n'], rec['raising']], nontrivial=True,
                     sample={'reactor': kind, 'scenario': rec['name'], 'error': rec['arg'], 'requests': rec['n'], 'observed': {k: rec.get(k) for k in ('defunct', 'closed', 'counts', 'registered')}})
            ctx.count('fault_kind', kind + '-' + rec['name'])
            for key, what in green_oracle(rec):
                ctx.violation(key, what, case=case, expected='every outstanding handler failed exactly once, later sends refused', actual=rec, kind='history',
                              theorem='C10_full_statement')


def replay(ctx, rp):
    case = rp.get('case') or {}
    if case.get('green'):
        kind, name, arg, n, raising = case['green']
        recs, err = run_green_proc(kind, [name, arg, str(n), json.dumps(raising)])
        found = [('hung', err)] if recs is None else green_oracle(recs[0])
        print('observed', recs or err)
        print('oracle', found)
        print(('VIOLATION property=C10 replay=%s' % ctx.replay_path) if found else 'not reproduced')
        return 1 if found else 0
    if case.get('aio'):
        name, arg, n, raising = case['aio']
        found, obs, _ = aio_oracle(name, arg, n, tuple(raising))
        print('observed', obs)
        print('oracle', found)
        print(('VIOLATION property=C10 replay=%s' % ctx.replay_path) if found else 'not reproduced')
        return 1 if found else 0
    if not case.get('actions') or not case.get('fault'):
        print('nothing to replay: %s' % rp.get('theorem'))
        return 1
    k, kind = case['fault']
    acts = case['actions'][:k] + case['actions'][k + 1:]
    h, seq = with_fault(case['cfg'], acts, k, kind, case.get('raising', ()), case.get('control', False))
    found = oracle_c10(h, seq, 0)
    print('per-handler (deliveries, decode errors, ConnectionShutdown):', h.cb_counts, 'paging', h.cp_events, 'defunct', h.conn.is_defunct)
    if case.get('expect_tok') is not None:
        c7 = h.cb_counts.get(case['expect_tok'], [0, 0, 0])
        if sum(c7) != 1 or c7[2] != 1:
            found = found + [('after-push', 'handler %r got %r' % (case['expect_tok'], c7))]
    print('oracle', found)
    print(('VIOLATION property=C10 replay=%s' % ctx.replay_path) if found else 'not reproduced')
    return 1 if found else 0
