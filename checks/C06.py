"""C06 -- protocol v5 segments are reassembled exactly and corruption is detected.

Coq: Model/Crc.v (crc24 as compute_crc24, bitwise CRC-32), Model/Segment.v (SegmentCodec encode/decode_header/decode,
segment_length, _process_segment_buffer + the process_io_buffer loop in checksumming mode, on top of C05's frame parser),
Props/C06.v (round trip under any segmentation and any chunking, no spurious CRC error, every single-bit flip detected).
(C) the real SegmentCodec (with a toy run-length compressor pair: lz4 is not installed, the codec takes any functions) and the
real Connection.process_io_buffer/_process_segment_buffer are driven on generated streams x chunkings x single-bit flips; events and
buffer sizes after EVERY read are compared with the model; zlib.crc32/compute_crc24/encode are compared with the Coq functions.
"""
import json, os, zlib
from vf import core
from vf import framing_impl as F
from vf import marshal_validation as MV

META = {
    'technique': 'Coq proof (parser invariants over any segmentation x any chunk list; GF(2) linearity of the CRC-24 step and injectivity of the '
                 'CRC-32 step for bit-flip detection at unbounded payload length) on a hand-written model of segment.py + the checksumming '
                 'path of Connection.process_io_buffer, + per-read differential execution against the real SegmentCodec/Connection',
    'level_text': 'C06_roundtrip / C06_roundtrip_messages (any frames, any segmentation incl. multi-segment messages > 128 KiB-1 and segments left '
                  'uncompressed, any chunking -> exactly those frames in order, both buffers empty at the end), C06_no_spurious_crc, '
                  'C06_detects_header_flip, C06_detects_payload_flip (every bit position, payload of any length, any chunking, anything after the segment '
                  '-> CrcMismatch, nothing delivered), C06_crc24_single_bit, C06_crc32_single_byte: all proved in Coq over Model/Segment.v (the REPAIRED code), '
                  'compressor pair abstract; the model is compared with the real SegmentCodec/Connection after every read.',
    'level_note': 'Tie is (T) for compute_crc24 / SegmentCodec.encode_header / decode_header / SegmentHeader.segment_length (regenerated from '
                  'cassandra/segment.py into Gen/SegmentGen.v; C06_source_* prove them equal to the hand model for every input) and correspondence (C) '
                  'for the rest (payload path, process_io_buffer loop); compressor pair abstract in the proofs (decompress (compress x) = x), toy RLE pair in the harness; '
                  'zlib.crc32 modelled bitwise and compared; behaviour after defunct not modelled; lz4 itself not covered.',
    'design_ref': 'DESIGN.md section 4, C06',
}

V5 = 5


def gen_v5_frame(rng, maxbody=30):
    r = rng.random()
    if r < 0.15:
        return (V5, 0, -1, 0x0C, F.event_body(rng))
    n = rng.choice([0, 1, 3, rng.randint(0, maxbody), rng.randint(0, maxbody)])
    k = rng.random()
    if k < 0.45:
        body = bytes([rng.randrange(256)]) * n                      # compressible
    elif k < 0.6:
        body = bytes(rng.choice([0, 0, 0, 7]) for _ in range(n))
    else:
        body = bytes(rng.randrange(256) for _ in range(n))          # incompressible -> left uncompressed
    return (V5, rng.choice([0, 0, 4, 0xff]), rng.choice([0, 1, 2, 300, 32767, rng.randint(0, 32767)]), rng.randrange(256), body)


def segmentation(rng, total, mode):
    """cut points of the frame-byte stream into segment payloads"""
    if mode == 'any':
        k = rng.choice([0, 1, 2, 3, 5])
        cuts = sorted(set(rng.randint(0, total) for _ in range(k)))
        return cuts
    return None


def build_stream(cd, frames, seg_cuts):
    """seg_cuts None: the driver's own encoder, one message at a time; else arbitrary payload pieces (what a server may send)"""
    encs = [F.enc_frame(*f) for f in frames]
    if seg_cuts is None:
        segs = []
        for e in encs:
            blob = F.encode_msg(cd, e)
            segs.append((blob, e))
        stream = b''.join(s for s, _ in segs)
        # frame i is complete when its last segment is complete
        ends, p = [], 0
        for s, _ in segs:
            p += len(s)
            ends.append(p)
        return stream, ends, [len(s) for s, _ in segs]
    data = b''.join(encs)
    pieces = F.chunk(data, seg_cuts)
    blobs = [F.encode_segment(cd, p, True) for p in pieces]
    stream = b''.join(blobs)
    # frame ends in payload coordinates -> stream coordinate of the end of the segment holding its last byte
    pay_end, p = [], 0
    for e in encs:
        p += len(e)
        pay_end.append(p)
    seg_pay_end, seg_str_end, a, b = [], [], 0, 0
    for pc, bl in zip(pieces, blobs):
        a += len(pc)
        b += len(bl)
        seg_pay_end.append(a)
        seg_str_end.append(b)
    ends = []
    for pe in pay_end:
        for spe, sse in zip(seg_pay_end, seg_str_end):
            if spe >= pe:
                ends.append(sse)
                break
    return stream, ends, [len(b) for b in blobs]


def oracle_valid(ctx, frames, ends, chunks, events, obs, case, compressed, tag=None):
    tag = tag or ('compressed' if compressed else 'plain')
    ds = [e for e in events if e[0] == 'D']
    ms = [e for e in events if e[0] == 'M']
    exp = [((f[0], f[1], f[2], f[3], len(f[4])), bytes(f[4])) for f in frames]
    if ds:
        d = ds[0]
        n_before = sum(len(c) for c, o in zip(chunks, obs) if o[1] != -1)
        first = chunks[0] and len(chunks[0])
        kind = 'crc' if d[1] == 3 else 'error'
        # classify by where the failing read ended relative to the segment boundaries
        ctx.violation('valid-stream.%s.spurious-%s' % (tag, kind),
                      'valid v5 stream (%d frames, %s) split into reads of sizes %r: connection defuncted with %s' % (
                          len(frames), tag, [len(c) for c in chunks][:12], d[2][:90]),
                      case=case, expected='no checksum error, %d frames delivered' % len(frames), actual=d[2], theorem='C06_no_spurious_crc')
        return False
    got = [(m[1], m[2]) for m in ms]
    if got != exp[:len(got)]:
        ctx.violation('valid-stream.%s.altered' % tag, 'delivered messages are not a prefix of the messages sent', case=case,
                      expected=[(list(h), b.hex()) for h, b in exp][:4], actual=[(list(h), b.hex()) for h, b in got][:4], theorem='C06_roundtrip')
        return False
    fed = 0
    for o, ch in zip(obs, chunks):
        fed += len(ch)
        complete = sum(1 for e in ends if e <= fed)
        if o[0] > complete:
            ctx.violation('valid-stream.%s.partial-delivered' % tag, 'after %d bytes %d frames delivered but only %d complete' % (fed, o[0], complete),
                          case=case, expected=complete, actual=o[0], theorem='C06_roundtrip')
            return False
    if len(got) != len(exp):
        ctx.violation('valid-stream.%s.lost' % tag,
                      'valid v5 stream (%s) split into reads of sizes %r: %d of %d messages delivered, no error raised' % (
                          tag, [len(c) for c in chunks][:12], len(got), len(exp)),
                      case=case, expected=len(exp), actual=len(got), theorem='C06_roundtrip')
        return False
    return True


def oracle_corrupt(ctx, frames, events, case, compressed, where):
    tag = 'compressed' if compressed else 'plain'
    ds = [e for e in events if e[0] == 'D']
    ms = [e for e in events if e[0] == 'M']
    exp = [((f[0], f[1], f[2], f[3], len(f[4])), bytes(f[4])) for f in frames]
    # no altered data: every delivered message is one of the sent messages, in order
    it = iter(exp)
    for m in ms:
        if not any(x == (m[1], m[2]) for x in it):
            ctx.violation('corrupt.%s.%s.altered-delivered' % (tag, where), 'a message that was not sent was delivered after a bit flip in the %s' % where,
                          case=case, expected='CrcMismatch, nothing altered', actual=[list(m[1]), m[2].hex()], theorem='C06_detects_%s_flip' % ('header' if where == 'header' else 'payload'))
            return False
    if not ds or ds[0][1] != 3:
        ctx.violation('corrupt.%s.%s.undetected' % (tag, where),
                      'single-bit flip in the %s not reported as a checksum mismatch (%s)' % (where, ds[0][2][:80] if ds else 'no error'),
                      case=case, expected='CrcMismatchException', actual=ds[0][2] if ds else None,
                      theorem='C06_detects_%s_flip' % ('header' if where == 'header' else 'payload'))
        return False
    return True


def mk_case(frames, compressed, seg_cuts, cuts, flip=None):
    return {'frames': [[f[0], f[1], f[2], f[3], bytes(f[4]).hex()] for f in frames], 'compressed': compressed,
            'seg_cuts': seg_cuts, 'cuts': list(cuts), 'flip': flip}


def lit_case(compressed, chunks, events, obs, fin):
    iev = F.ievents(events)
    return 'c06_case %s %s %s %s %s %s' % ('true' if compressed else 'false', F.zll(chunks), F.ievents_lit(iev), F.obs_lit(obs),
                                           F.zlist(fin[0]), F.zlist(fin[1]))


def eval_valid(ctx, frames, compressed, seg_cuts, cuts, cases, meta, model=True):
    cd = F.codec(compressed)
    stream, ends, seglens = build_stream(cd, frames, seg_cuts)
    chunks = F.chunk(stream, cuts)
    events, obs, fin = F.run_segments(chunks, compressed)
    case = mk_case(frames, compressed, seg_cuts, cuts)
    ok = oracle_valid(ctx, frames, ends, chunks, events, obs, case, compressed)
    ctx.case(case, nontrivial=len(frames) > 0 and len(cuts) > 0,
             sample={'frames': len(frames), 'stream_bytes': len(stream), 'segments': seglens[:6], 'reads': [len(c) for c in chunks][:8],
                     'delivered': sum(1 for e in events if e[0] == 'M')})
    ctx.count('kind', 'valid-' + ('compressed' if compressed else 'plain') + ('-driver-encoder' if seg_cuts is None else '-any-segmentation'))
    ctx.count('n_reads', min(len(chunks), 20))
    ctx.count('n_segments', min(len(seglens), 10))
    if model and len(stream) <= 400:
        cases.append(lit_case(compressed, chunks, events, obs, fin))
        meta.append(case)
    return ok


def eval_flip(ctx, frames, compressed, seg_cuts, cuts, bit, cases, meta, model=True):
    cd = F.codec(compressed)
    stream, ends, seglens = build_stream(cd, frames, seg_cuts)
    b = bytearray(stream)
    b[bit // 8] ^= 1 << (bit % 8)
    # which region of which segment
    p, where = 0, 'payload'
    hl = 5 if compressed else 3
    for sl in seglens:
        if p <= bit // 8 < p + sl:
            off = bit // 8 - p
            where = 'header' if off < hl + 3 else 'payload'
            break
        p += sl
    chunks = F.chunk(bytes(b), cuts)
    events, obs, fin = F.run_segments(chunks, compressed)
    case = mk_case(frames, compressed, seg_cuts, cuts, flip=bit)
    ok = oracle_corrupt(ctx, frames, events, case, compressed, where)
    ctx.case(case, nontrivial=True, sample={'flip_bit': bit, 'where': where, 'stream_bytes': len(stream),
                                            'result': [e[2][:60] for e in events if e[0] == 'D'][:1]})
    ctx.count('kind', 'flip-' + where + ('-compressed' if compressed else '-plain'))
    if model and len(stream) <= 400:
        cases.append(lit_case(compressed, chunks, events, obs, fin))
        meta.append(case)
    return ok


def eval_handshake(ctx, hs, frames, seg_fracs, cut_fracs, cases, meta, model=True):
    """the connection derives its segment codec itself: real OPTIONS/SUPPORTED/STARTUP/READY|AUTHENTICATE exchange, then the peer's
    segments (AUTH_SUCCESS first on an authenticated connection) in the format the protocol prescribes for what STARTUP announced"""
    import struct
    pv, auth = hs['pv'], hs['auth']
    info = {}

    def make(negotiated, auth_rid):
        fr = [(pv, f[1], f[2], f[3], f[4]) for f in frames]
        if auth:
            fr = [(pv, 0, auth_rid, 0x10, struct.pack('>i', -1))] + fr         # AUTH_SUCCESS, null token
        total = sum(len(F.enc_frame(*f)) for f in fr)
        if pv >= 5:
            seg_cuts = None if seg_fracs is None else sorted(set(int(x * total) for x in seg_fracs))
            stream, ends, seglens = build_stream(F.codec(negotiated), fr, seg_cuts)
        else:
            stream = b''.join(F.enc_frame(*f) for f in fr)
            ends, p = [], 0
            for f in fr:
                p += len(F.enc_frame(*f))
                ends.append(p)
            seglens = []
        n = len(stream)
        cuts = list(range(1, n)) if cut_fracs == 'bytes' else sorted(int(x * n) for x in cut_fracs)
        info.update(ends=ends, seglens=seglens, n=n)
        return fr, F.chunk(stream, cuts)

    r = F.run_handshake_segments(pv, auth, hs['compression'], hs['offer_lz4'], make)
    case = {'handshake': hs, 'frames': [[f[0], f[1], f[2], f[3], bytes(f[4]).hex()] for f in frames], 'seg_fracs': seg_fracs,
            'cut_fracs': cut_fracs}
    neg = r['negotiated']
    tag = '%s%s-%s' % ('v5' if pv >= 5 else 'v%d' % pv, '-auth' if auth else '-ready', 'compressed' if neg else 'plain')
    ok = True
    if r['defunct_in_handshake']:
        d = [e for e in r['events'] if e[0] == 'D']
        ctx.violation('handshake.%s.defunct-before-switch' % tag, 'handshake (%s) failed before any segment was exchanged: %s' % (tag, d[0][2] if d else '?'),
                      case=case, expected='framing switch', actual=d[0][2] if d else None, theorem='C06_codec_follows_negotiation')
        ok = False
    elif pv >= 5:
        ok = oracle_valid(ctx, r['frames'], info['ends'], r['chunks'], r['events'], r['obs'], case, neg, tag='handshake-' + tag)
    ctx.case(case, nontrivial=True, sample={'handshake': tag, 'switch': list(r['after_reply']), 'stream_bytes': info.get('n'),
                                            'reads': [len(c) for c in r['chunks']][:8], 'delivered': sum(1 for e in r['events'] if e[0] == 'M')})
    ctx.count('kind', 'handshake-' + tag)
    if model:
        b = lambda x: 'true' if x else 'false'
        z = lambda o: '(%d,%d,%d)' % tuple(o)
        cases.append('c06_switch_case %s %s %s %s %s' % (b(pv >= 5), b(neg), b(auth), z(r['after_reply']), z(r['after_success'])))
        meta.append(dict(case, what='framing switch'))
        if pv >= 5 and info.get('n', 0) <= 400 and not r['defunct_in_handshake']:
            cases.append(lit_case(neg, r['chunks'], r['events'], r['obs'], r['fin']))
            meta.append(case)
    return ok


def gen_handshakes(ctx, rng, n, cases, meta):
    for i in range(n):
        hs = {'pv': 5 if rng.random() < 0.8 else rng.choice([3, 4]), 'auth': rng.random() < 0.6,
              'compression': rng.random() < 0.7, 'offer_lz4': rng.random() < 0.8}
        if i < 8:      # every combination at least once
            hs = {'pv': 5, 'auth': bool(i & 1), 'compression': bool(i & 2), 'offer_lz4': bool(i & 4)}
        frames = [gen_v5_frame(rng, maxbody=rng.choice([6, 30])) for _ in range(rng.randint(0, 3))]
        seg_fracs = None if rng.random() < 0.7 else [rng.random() for _ in range(rng.randint(0, 3))]
        k = rng.random()
        cut_fracs = 'bytes' if k < 0.2 else [rng.random() for _ in range(rng.choice([0, 1, 2, 4]))]
        eval_handshake(ctx, hs, frames, seg_fracs, cut_fracs, cases, meta)


def load_corpus():
    d = os.path.join(core.VERIF, 'corpus', 'C06')
    out = []
    if os.path.isdir(d):
        for fn in sorted(os.listdir(d)):
            if fn.endswith('.json'):
                with open(os.path.join(d, fn)) as f:
                    out.append(json.load(f))
    return out


def frames_from_json(c):
    return [(f[0], f[1], f[2], f[3], bytes.fromhex(f[4])) for f in c['frames']]


def crc_cases(ctx, rng, n):
    import cassandra.segment as S
    out = ['(CRC32_INITIAL =? %d)' % S.CRC32_INITIAL]
    for i in range(n):
        ln = rng.choice([0, 1, 2, 3, 4, 7, 8, 9, 31, rng.randint(0, 120)])
        data = bytes(rng.choice([0, 0xff, rng.randrange(256)]) for _ in range(ln))
        out.append('(compute_crc32 %s CRC32_INITIAL =? %d)' % (F.zlist(data), S.compute_crc32(data, S.CRC32_INITIAL)))
        v = rng.randrange(2 ** 32)
        out.append('(compute_crc32 %s %d =? %d)' % (F.zlist(data[:20]), v, zlib.crc32(data[:20], v)))
        hl = rng.choice([3, 5])
        hd = rng.choice([0, 1, 2 ** (8 * hl) - 1, rng.randrange(2 ** (8 * hl)), 1 << rng.randrange(8 * hl)])
        out.append('(compute_crc24 %d %d%%nat =? %d)' % (hd, hl, S.compute_crc24(hd, hl)))
        ctx.count('kind', 'crc-vs-zlib', 3)
    return out


def enc_cases(ctx, rng, n):
    out = []
    for i in range(n):
        compressed = rng.random() < 0.5
        f = gen_v5_frame(rng, maxbody=40)
        msg = F.enc_frame(*f)
        blob = F.encode_msg(F.codec(compressed), msg)
        out.append('zlist_eqb (toy_encode %s %s) %s' % ('true' if compressed else 'false', F.zlist(msg), F.zlist(blob)))
        ctx.count('kind', 'encode-vs-model')
    return out


def gen(ctx):
    # (T) cassandra/segment.py (compute_crc24, header codec, segment_length) regenerated into coq/Gen/SegmentGen.v;
    # Proofs/C06_bridge.v proves the regenerated functions equal to the hand model used by the C06 theorems
    return MV.gen(ctx, parts=('segment',))


def run(ctx):
    gen(ctx)
    ok = ctx.prove('Props/C06.v')
    try:
        MV.validate(ctx, parts=('segment',))
    except Exception as e:
        ctx.proof_broken.append(('T-segment validation', repr(e)[-400:]))
    if ctx.tier == 'thorough' and ok:
        ctx.coqchk('Props/C06.v')
    rng = ctx.rng
    quick = ctx.tier == 'quick'
    cases, meta = [], []
    ctx.rule = ('v5 frames (compressible / incompressible / empty bodies, EVENT pushes) encoded by the real SegmentCodec, both by the driver\'s own '
                'encoder (one message per self-contained segment, > 128 KiB-1 split into several) and under arbitrary segmentation (several frames per '
                'segment, frames spanning segments), with and without a (toy) compressor; chunkings: EVERY single split of small streams (exhaustive), '
                'one byte at a time, random k-splits; corruption: EVERY single-bit flip of small streams (exhaustive) under whole/split/1-byte reads. '
                'handshake cases: the connection is put into checksumming mode by the REAL handshake handlers (READY or AUTHENTICATE + AUTH_SUCCESS, all 8 '
                'combinations of auth x compression requested x lz4 offered, also v3/v4) and then reads the format the peer uses. '
                'non-trivial = distinct (frames, segmentation, chunking, flip) with >= 1 frame and >= 1 split or a flip')
    # 0. corpus first (pre-fix failing cases)
    for c in load_corpus():
        fr = frames_from_json(c)
        if c.get('flip') is None:
            eval_valid(ctx, fr, c['compressed'], c['seg_cuts'], c['cuts'], cases, meta)
        else:
            eval_flip(ctx, fr, c['compressed'], c['seg_cuts'], c['cuts'], c['flip'], cases, meta)
    # 1. exhaustive single splits + one-byte reads of small streams
    for i in range(3 if quick else 40):
        compressed = (i % 2 == 1)
        frames = [gen_v5_frame(rng, maxbody=14) for _ in range(rng.randint(1, 3))]
        total = sum(len(F.enc_frame(*f)) for f in frames)
        seg_cuts = None if rng.random() < 0.5 else segmentation(rng, total, 'any')
        stream, _, _ = build_stream(F.codec(compressed), frames, seg_cuts)
        for cut in range(len(stream) + 1):
            eval_valid(ctx, frames, compressed, seg_cuts, [cut], cases, meta)
        eval_valid(ctx, frames, compressed, seg_cuts, list(range(1, len(stream))), cases, meta)
    ctx.exhaustive = True
    # 2. random k-splits
    for i in range(60 if quick else 1200):
        compressed = rng.random() < 0.5
        frames = [gen_v5_frame(rng, maxbody=rng.choice([6, 30, 80])) for _ in range(rng.randint(0, 5))]
        total = sum(len(F.enc_frame(*f)) for f in frames)
        seg_cuts = None if rng.random() < 0.4 else segmentation(rng, total, 'any')
        stream, _, _ = build_stream(F.codec(compressed), frames, seg_cuts)
        n = len(stream)
        cuts = F.splits_k(rng, n, rng.choice([0, 1, 2, 3, 6, n // 3 + 1]))
        eval_valid(ctx, frames, compressed, seg_cuts, cuts, cases, meta)
    # 3. large messages: several x 128 KiB, multi-segment (implementation oracle only; literals too large for coqc)
    for i in range(2 if quick else 8):
        compressed = (i % 2 == 1)
        size = rng.choice([131071 - 9, 131071 - 8, 131071, 131072 + 5, 2 * 131071 + 17, 3 * 131071 - 9])
        if compressed and i % 4 == 1:
            body = bytes([7]) * size
        else:
            body = bytes(rng.randrange(256) for _ in range(size))
        frames = [(V5, 0, 3, 8, body), gen_v5_frame(rng, maxbody=10)]
        stream, _, seglens = build_stream(F.codec(compressed), frames, None)
        n = len(stream)
        bnd, p = [], 0
        for sl in seglens:
            p += sl
            bnd.append(p)
        cuts = sorted(set(min(n, max(0, b + rng.choice([-3, -2, -1, 0, 1, 2, 3, 7]))) for b in bnd) | set(F.splits_k(rng, n, 3)))
        eval_valid(ctx, frames, compressed, None, cuts, cases, meta, model=False)
        ctx.count('kind', 'large-message-%d-segments' % len(seglens))
    # 4. every single-bit flip of small streams
    for i in range(2 if quick else 10):
        compressed = (i % 2 == 1)
        frames = [gen_v5_frame(rng, maxbody=8) for _ in range(rng.randint(1, 2))]
        total = sum(len(F.enc_frame(*f)) for f in frames)
        seg_cuts = None if rng.random() < 0.6 else segmentation(rng, total, 'any')
        stream, _, _ = build_stream(F.codec(compressed), frames, seg_cuts)
        n = len(stream)
        for bit in range(8 * n):
            mode = bit % 3
            cuts = [] if mode == 0 else ([rng.randint(0, n)] if mode == 1 else list(range(1, n)))
            eval_flip(ctx, frames, compressed, seg_cuts, cuts, bit, cases, meta, model=(bit % 4 == 0 or not quick))
    # 4b. a flipped bit in segment k of a multi-segment SINGLE read with more segments behind it, frames spanning segments
    #     (nothing may be delivered after the failure: the frame buffer may hold part of an earlier frame)
    for i in range(40 if quick else 800):
        compressed = rng.random() < 0.5
        frames = [gen_v5_frame(rng, maxbody=12) for _ in range(rng.randint(2, 3))]
        if rng.random() < 0.7:
            frames[-1] = (V5, 0, -1, 0x0C, F.event_body(rng))
        total = sum(len(F.enc_frame(*f)) for f in frames)
        seg_cuts = sorted(set(rng.randint(1, total - 1) for _ in range(rng.randint(3, 6))))
        stream, _, seglens = build_stream(F.codec(compressed), frames, seg_cuts)
        k = rng.randrange(0, len(seglens) - 1)
        bit = 8 * sum(seglens[:k]) + rng.randrange(8 * seglens[k])
        cuts = [] if rng.random() < 0.7 else F.splits_k(rng, len(stream), 1)
        eval_flip(ctx, frames, compressed, seg_cuts, cuts, bit, cases, meta)
        ctx.count('kind', 'flip-mid-stream-single-read')
    # 5. random flips in longer streams
    for i in range(40 if quick else 1200):
        compressed = rng.random() < 0.5
        frames = [gen_v5_frame(rng, maxbody=60) for _ in range(rng.randint(1, 4))]
        stream, _, _ = build_stream(F.codec(compressed), frames, None)
        n = len(stream)
        eval_flip(ctx, frames, compressed, None, F.splits_k(rng, n, rng.choice([0, 1, 3])), rng.randrange(8 * n), cases, meta)
    # 6. the connection chooses its own segment codec: real handshake (READY / AUTHENTICATE+AUTH_SUCCESS) x compression negotiated or not
    gen_handshakes(ctx, rng, 24 if quick else 300, cases, meta)
    # ---- model vs implementation
    if os.path.exists(os.path.join(core.COQ, 'Model', 'SegmentToy.vo')):
        try:
            bad = ctx.coq_filter(['Stream', 'Crc', 'Segment', 'SegmentToy'], '(fun b : bool => b)', cases, shard=50)
            for i in bad[:10]:
                ctx.disagreement('model-vs-impl', 'Model/Segment.v differs from Connection/SegmentCodec at %s' % json.dumps(meta[i])[:300], case=meta[i])
            fn = crc_cases(ctx, rng, 30 if quick else 600) + enc_cases(ctx, rng, 20 if quick else 400)
            bad = ctx.coq_filter(['Stream', 'Crc', 'Segment', 'SegmentToy'], '(fun b : bool => b)', fn, shard=30)
            for i in bad[:5]:
                ctx.disagreement('crc-or-encode-vs-impl', 'Coq crc/encode differs from zlib/segment.py: %s' % fn[i][:300], case={'expr': fn[i][:2000]})
        except RuntimeError as e:
            ctx.proof_broken.append(('correspondence:Segment', str(e)[-600:]))
    else:
        ctx.proof_broken.append(('correspondence:Segment', 'Model/SegmentToy.vo not built'))
    ctx.trust('hand-written models coq/Model/Crc.v, Segment.v (tied by per-read correspondence with SegmentCodec/Connection and by crc32/crc24/encode comparison)',
              'bitwise CRC-32 model of zlib.crc32 (compared on generated inputs)',
              'compressor pair abstract: Section hypothesis decompress (compress x) (len x) = x; harness uses a toy run-length pair, lz4 not installed',
              'no-socket Connection subclass (lib/vf/framing_impl.py)')
    ctx.assume('each reactor appends received bytes to Connection._iobuf and calls process_io_buffer()',
               'no read is processed after the connection is defunct; events later in the same process_io_buffer call are not modelled')


def replay(ctx, rp):
    case = rp.get('case') or {}
    if 'frames' not in case:
        print('nothing to replay: %s' % rp.get('theorem'))
        return 1
    fr = frames_from_json(case)
    if case.get('handshake'):
        ok = eval_handshake(ctx, case['handshake'], fr, case['seg_fracs'], case['cut_fracs'], [], [], model=False)
    elif case.get('flip') is None:
        ok = eval_valid(ctx, fr, case['compressed'], case['seg_cuts'], case['cuts'], [], [], model=False)
    else:
        ok = eval_flip(ctx, fr, case['compressed'], case['seg_cuts'], case['cuts'], case['flip'], [], [], model=False)
    for v in ctx.violations:
        print('  ' + v.what)
    print('not reproduced' if ok else 'VIOLATION property=C06 replay=%s' % ctx.replay_path)
    return 0 if ok else 1
