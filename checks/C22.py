"""C22 -- token-aware plans put live local replicas first without losing hosts.

Proof: Props/C22.v over Model/TokenAware.v (replica list, up flags, child distance and child plan are arbitrary inputs).
Tie (C): the real TokenAwarePolicy wraps a real RoundRobin / WhiteList / DCAware child that went through a generated
membership history; cluster.metadata.get_replicas returns a scripted replica list, shuffle() is scripted; the plan is
compared with the model as a list and the statement is checked on the implementation's plan by a Python oracle.
"""
import itertools, json, os
from vf import core
from vf.impl import import_cluster
from vf import lbp_impl as I, lbp_gen as G

META = {
    'technique': 'Coq proof over an executable model of TokenAwarePolicy.make_query_plan + differential execution of the real '
                 'policy (real child policies, scripted replica lists, host states and shuffle) against the model',
    'level_text': 'C22_prefix / C22_rest_order / C22_nodup / C22_nothing_lost / C22_nothing_added / C22_unrouted proved for every replica list, '
                  'every permutation chosen by shuffle, every host up/unknown/down state, every child distance function and child plan, '
                  'over Model/TokenAware.v; the model is compared with the real TokenAwarePolicy on generated and exhaustively enumerated cases.',
    'level_note': 'Tie is by correspondence (hand-written model). The replica list for a key is an input (its computation is C26); '
                  'C22_nodup assumes that list and the child plan are duplicate-free (C26 / C21). Trusted: Coq kernel, the Python harness.',
    'design_ref': 'DESIGN.md section 4, C22',
}


def zl(v):
    return '(%d)' % v if v < 0 else '%d' % v


def zlist(l):
    return '[' + '; '.join(zl(x) for x in l) + ']'


def coq_case(case, res):
    routed = case.get('routed', True) and case.get('keyspace', True)
    ups = [i for i, u in enumerate(case['up']) if u]
    return 'check_ta %s %s %s %s %s %s' % ('true' if routed else 'false', zlist(ups), zlist(res['dist']), zlist(res['order']),
                                           zlist(res['child_plan']), zlist(res['plan']))


def corpus_cases():
    d = os.path.join(core.VERIF, 'corpus', 'C22')
    out = []
    if os.path.isdir(d):
        for fn in sorted(os.listdir(d)):
            if fn.endswith('.json'):
                with open(os.path.join(d, fn)) as f:
                    out.append(json.load(f)['case'])
    return out


def run_one(ctx, case, cases, meta, tag):
    res = I.run_token_aware(case)

    def report(key, what, thm):
        ctx.violation(key, '%s (case %r)' % (what, case), case=case, expected='statement of %s' % thm, actual=res, theorem=thm)
    I.check_token_aware(case, res, report)
    routed = case.get('routed', True) and case.get('keyspace', True)
    interesting = routed and any(h in res['child_plan'] for h in case['replicas']) and len(res['child_plan']) >= 2
    ctx.case(case, nontrivial=interesting, sample={'case': case, 'child_plan': res['child_plan'], 'plan': res['plan']})
    ctx.count('child', case['child']['kind'])
    ctx.count('replicas', len(case['replicas']))
    ctx.count('shuffle', 'yes' if case.get('shuffle') is not None else 'no')
    ctx.count('routed', 'yes' if routed else 'no')
    ctx.count('replica_in_child_plan_not_up', sum(1 for h in case['replicas'] if h in res['child_plan'] and not case['up'][h]))
    ctx.count('shared_addresses', 'yes' if case['child'].get('addrs') else 'no')
    ctx.count('prior_shuffling_policy', 'yes' if case.get('prior_shuffle') is not None else 'no')
    ctx.count('source', tag)
    cases.append(coq_case(case, res))
    meta.append(case)


def run(ctx):
    ok = ctx.prove('Props/C22.v')
    if ctx.tier == 'thorough' and ok:
        ctx.coqchk('Props/C22.v')
    import_cluster()
    rng = ctx.rng
    cases, meta = [], []
    for case in corpus_cases():
        run_one(ctx, case, cases, meta, 'corpus')
    for _ in range(2500 if ctx.tier == 'quick' else 15000):
        spec = G.gen_spec(rng)
        n = len(spec['dcs'])
        hist = G.gen_history(rng, spec, rng.randint(0, 5))
        reps = rng.sample(range(n), rng.randint(0, n))
        if reps and rng.random() < 0.05:
            reps.append(rng.choice(reps))          # a duplicate replica (C26's suspect): nodup is then not demanded
        case = {'child': spec, 'history': hist, 'replicas': reps,
                'up': [rng.choice([True, True, None, False]) for _ in range(n)],
                'shuffle': (rng.sample(range(len(reps)), len(reps)) if rng.random() < 0.4 else None),
                'routed': rng.random() < 0.92, 'keyspace': rng.random() < 0.92}
        if rng.random() < 0.25 and len(reps) > 1:
            # another execution profile's TokenAwarePolicy with shuffle_replicas=True shares the Metadata and planned first
            case['prior_shuffle'] = rng.sample(range(len(reps)), len(reps))
        run_one(ctx, case, cases, meta, 'random')
    # exhaustive small scope: 3 hosts (host 2 in a remote DC), every ordered replica list, every up/unknown/down assignment
    nex = 0
    states = [True, None, False] if ctx.tier == 'thorough' else [True, None]
    for spec in ({'kind': 'dca', 'dcs': [1, 1, 2], 'local': 1, 'used': 1, 'contact': [0], 'pred': {'hosts': [], 'dc': 0}},
                 {'kind': 'rr', 'dcs': [1, 1, 2], 'pred': {'hosts': [], 'dc': 0}}):
        for k in range(0, 4):
            for reps in itertools.permutations(range(3), k):
                for up in itertools.product(states, repeat=3):
                    for live in ([0, 1, 2], [1, 2]):
                        case = {'child': spec, 'history': [['P', live, 0]], 'replicas': list(reps), 'up': list(up),
                                'shuffle': None, 'routed': True, 'keyspace': True}
                        run_one(ctx, case, cases, meta, 'exhaustive')
                        nex += 1
    ctx.exhaustive = True
    ctx.rule = ('random: child policy (RoundRobin/WhiteList/DCAware, random parameters) after a random membership history over <= 6 hosts x <= 3 DCs, '
                'random replica list (any hosts, any order), host is_up in {True, None, False}, optional scripted shuffle permutation, statements '
                'with/without routing key and keyspace; exhaustive: 3 hosts (one in a remote DC), 2 children x 2 populations x every ordered replica '
                'list x every up-state assignment (%d cases). Non-trivial = distinct routed case whose child plan has >= 2 hosts and contains a replica.' % nex)
    try:
        bad = ctx.coq_filter(['LBP', 'TokenAware'], '(fun b : bool => b)', cases, shard=400)
        for i in bad[:10]:
            ctx.disagreement('model-vs-impl.token-aware', 'Model/TokenAware.v and TokenAwarePolicy.make_query_plan differ on %r' % (meta[i],),
                             case=meta[i], actual=cases[i])
    except RuntimeError as e:
        ctx.proof_broken.append(('correspondence:TokenAware', str(e)[-600:]))
    ctx.trust('Python harness lib/vf/lbp_impl.py: fake cluster.metadata.get_replicas returning the scripted list, scripted cassandra.policies.shuffle, '
              'real Host objects with is_up set by the case, real child policies')
    ctx.assume('the replica list of a (keyspace, routing key) is an input (C26); the child plan and distance() are those of the wrapped policy at the time of the call',
               'a query plan is consumed atomically with respect to membership events and is_up changes')


def replay(ctx, rp):
    import_cluster()
    case = rp.get('case') or {}
    if 'child' not in case:
        print('nothing to replay: %s' % rp.get('theorem'))
        return 1
    res = I.run_token_aware(case)
    found = []
    I.check_token_aware(case, res, lambda key, what, thm: found.append((key, what, thm)))
    print('child plan %r -> token-aware plan %r (replicas as iterated %r, up %r, distances %r)' % (res['child_plan'], res['plan'], res['order'], case['up'], res['dist']))
    for f in found:
        print('  fails %s: %s' % (f[2], f[1]))
    print(('VIOLATION property=C22 replay=%s' % ctx.replay_path) if found else 'not reproduced')
    return 1 if found else 0
