"""C47 -- a connection is usable only after a successful handshake.

Proof: coq/Props/C47.v over coq/Model/Handshake.v (all reply sequences, all configurations).
Tie (C): the REAL handlers of cassandra/connection.py (reached through the real process_msg, send_msg, defunct and the
real close() of the asyncio and twisted reactors) are run on no-socket connections (lib/vf/hs_impl.py) and compared
with the model after EVERY reply; the statement itself is evaluated on the implementation by `oracle` below.
"""
import itertools, json, os
from vf import core, py2coq
from vf.specs import hs_version

META = {
    'technique': 'Coq proof (invariants over all reply sequences) on a hand-written handshake state machine + '
                 'per-step correspondence with the real Connection handlers on no-socket asyncio/twisted connections',
    'level_text': 'C47_ready_only_after / C47_error_kinds / C47_compression_both_sides / C47_compress_only_after_accept / '
                  'C47_checksumming_iff_v5 / C47_handshake_is_final proved for every reply sequence, authenticator kind, compression '
                  'setting, local/remote algorithm lists and protocol version; model tied to cassandra/connection.py by running the '
                  'real handlers on every reply sequence of length <= 5 (exhaustive in the thorough tier) and comparing sent frames '
                  '(kind, compressed, checksummed), compressor/decompressor, checksumming flag, connected_event, flags and the class '
                  'of last_error after every reply.',
    'level_note': 'Reading (DESIGN 4.0): non-authentication failures may be any non-AuthenticationFailed exception. An ERROR of any '
                  'kind answering the client\'s credentials counts as an authentication failure (the driver reports it so); only '
                  'BadCredentials there and AUTHENTICATE without an authenticator are REQUIRED to be AuthenticationFailed. '
                  'Trusted: Coq kernel, harness (no-socket subclasses, toy codecs, frame parser). libev/asyncore/eventlet/gevent '
                  'close() are not importable here and are covered by reading only.',
    'design_ref': 'DESIGN.md section 4, C47',
}

NAMES = ['lz4', 'snappy', 'zstd', 'deflate']
ERR_CODE = {'none': 0, 'auth_failed': 1, 'conn_shutdown': 2, 'conn_exception': 3, 'protocol_error': 4,
            'server_protocol_exception': 5, 'unsupported_operation': 6, 'key_error': 7, 'os_error': 8, 'exception': 9}
CS_VERSIONS = (5, 6)          # protocol versions with checksummed (segment) framing: v5 and the v6 beta


# ------------------------------------------------------------------------------------------ Gallina literals
def b(x):
    return 'true' if x else 'false'


def optz(x):
    return 'None' if x is None else '(Some %d)' % x


def zlist(l):
    return '[' + '; '.join(str(x) for x in l) + ']'


def g_cfg(cfg, local):
    auth = {'none': 'ANone', 'sasl': 'ASasl', 'dict': 'ADict'}[cfg['auth']]
    c = cfg['compression']
    comp = 'CompOff' if c is False else 'CompAuto' if c is True else '(CompName %d)' % NAMES.index(c)
    return '(mkConfig %s %s %s %d true)' % (auth, comp, zlist(local), cfg['version'])


def g_reply(r):
    k = r[0]
    if k == 'supported':
        return '(RSupported %s)' % zlist(r[1])
    if k == 'challenge':
        return '(RChallenge %s)' % b(r[1] == 'good')
    if k == 'error':
        return '(RError %s)' % {'auth': 'EkAuth', 'server': 'EkServer', 'protocol': 'EkProtocol'}[r[1]]
    return {'ready': 'RReady', 'authenticate': 'RAuthenticate', 'auth_success': 'RAuthSuccess', 'unexpected': 'RUnexpected',
            'disconnect': 'RDisconnect', 'sockerr': 'RSockErr'}[k]


def name_id(n):
    return None if n is None else (NAMES.index(n) if n in NAMES else 99)


def optcode(n):
    i = name_id(n)
    return 0 if i is None else i + 1


def code_frame(f):
    kind = {'options': 0, 'startup': 1, 'auth_response': 2, 'credentials': 3}.get(f['kind'])
    if kind is None:
        return 4095                        # unparsed / unknown message: can never match the model
    return (1 + kind + 4 * (int(f['compressed']) + 2 * int(f['checksummed']) + 4 * int(f['seg_compressed']))
            + 32 * optcode(f['startup_compression'] if f['kind'] == 'startup' else None))


def code_frames(fs):
    c = 0
    for f in reversed(fs):
        c = code_frame(f) + 4096 * c
    return c


def code_state(o):
    return (min(o['pending'], 1) + 2 * ERR_CODE[o['last_error']]
            + 32 * (int(o['closed']) + 2 * int(o['defunct']) + 4 * int(o['connected']) + 8 * int(o['seg_lz4']) + 16 * int(o['checksumming']))
            + 1024 * optcode(o['decompressor']) + 131072 * optcode(o['compressor']))


def g_case(cfg, local, replies, obs):
    """same packing as code_state / code_frames in coq/Model/Handshake.v"""
    codes = []
    for o in obs:
        codes += [code_state(o) if o['pending'] <= 1 else -1, code_frames(o['sent'])]
    return 'check_trace %s [%s] %s' % (g_cfg(cfg, local), '; '.join(g_reply(r) for r in replies), zlist(codes))


# ------------------------------------------------------------------------------------------ the statement, on the implementation
def oracle(cfg, local, replies, obs):
    """-> list of (key, what, theorem) : failures of the PROPERTY (not of the model) on the observed behaviour."""
    out = []
    v = cfg['version']
    cs = v in CS_VERSIONS
    localn = [NAMES[i] for i in local]
    remoten = [NAMES[i] for i in replies[0][1]] if replies and replies[0][0] == 'supported' else None
    ready_seen = accept_seen = False
    last_sent = 'options'

    def frames_check(o, allowed_compressed):
        for f in o['sent']:
            if (f['compressed'] or f['seg_compressed']) and not allowed_compressed:
                out.append(('compressed-before-accept.%s' % f['kind'], 'a %s frame left compressed before READY/AUTHENTICATE arrived' % f['kind'],
                            'C47_compress_only_after_accept'))
            if f['checksummed'] and not cs:
                out.append(('checksummed-frame.v%d' % v, 'a %s frame was sent in a checksummed segment on protocol v%d' % (f['kind'], v),
                            'C47_checksumming_iff_v5'))
            if f['kind'] == 'startup' and f['startup_compression'] is not None:
                n = f['startup_compression']
                if n not in localn or remoten is None or n not in remoten:
                    out.append(('compression-not-both.startup', 'STARTUP announced compression %r; local %r, remote %r' % (n, localn, remoten),
                                'C47_compression_both_sides'))

    frames_check(obs[0], False)
    for i, r in enumerate(replies):
        prev, o = obs[i], obs[i + 1]
        k = r[0]
        if k in ('ready', 'auth_success'):
            ready_seen = True
        if k in ('ready', 'authenticate'):
            accept_seen = True
        # reported ready only after READY / AUTH_SUCCESS
        became_ready = o['reported_ready'] and not prev['reported_ready']
        if became_ready and not ready_seen:
            out.append(('ready-without-ready.%s' % k, 'connection reported ready (connected_event set, last_error None) after %s although '
                        'neither READY nor AUTH_SUCCESS was received' % k, 'C47_ready_only_after'))
        # failures
        live = (not prev['connected']) and prev['last_error'] == 'none' and prev['pending'] == 1
        if o['last_error'] == 'auth_failed' and prev['last_error'] != 'auth_failed':
            seen = replies[:i + 1]
            if not (any(x[0] == 'authenticate' for x in seen) and (cfg['auth'] == 'none' or any(x[0] == 'error' for x in seen))):
                out.append(('auth-failed-without-cause.%s' % k, 'AuthenticationFailed reported after %s without an authentication cause' % k,
                            'C47_error_kinds'))
        must_auth = live and ((k == 'authenticate' and cfg['auth'] == 'none' and last_sent in ('startup', 'credentials'))
                              or (k == 'error' and r[1] == 'auth' and last_sent in ('auth_response', 'credentials')))
        if must_auth and o['last_error'] != 'auth_failed':
            out.append(('auth-failure-not-auth-error.%s' % k, 'authentication failure (%s after %s) surfaced as %s' % (k, last_sent, o['last_error']),
                        'C47_error_kinds'))
        if o['last_error'] != 'none':
            if o['reported_ready'] or not o['connected']:
                out.append(('failure-not-reported.%s' % k, 'failure %s but connected=%s reported_ready=%s' % (o['last_error'], o['connected'], o['reported_ready']),
                            'C47_error_kinds'))
        if prev['last_error'] != 'none' and o['last_error'] != prev['last_error']:
            out.append(('failure-overwritten.%s' % k, 'last_error changed from %s to %s' % (prev['last_error'], o['last_error']), 'C47_error_kinds'))
        if live and k not in ('supported', 'ready', 'authenticate', 'challenge', 'auth_success') and not o['connected']:
            out.append(('failure-hangs.%s' % k, '%s during the handshake left the connect attempt waiting (no error, not connected)' % k, 'C47_error_kinds'))
        # compression
        frames_check(o, accept_seen)
        for attr in ('compressor', 'decompressor'):
            n = o[attr]
            if n is not None and (n not in localn or remoten is None or n not in remoten):
                out.append(('compression-not-both.%s' % attr, '%s=%r; local %r, remote %r' % (attr, n, localn, remoten), 'C47_compression_both_sides'))
        # checksumming
        if o['checksumming'] and not cs:
            out.append(('checksumming-on.v%d' % v, 'checksumming enabled on protocol v%d' % v, 'C47_checksumming_iff_v5'))
        if became_ready and ready_seen and o['checksumming'] != cs:
            out.append(('checksumming-off.v%d' % v, 'ready connection on protocol v%d has checksumming=%s' % (v, o['checksumming']), 'C47_checksumming_iff_v5'))
        for f in o['sent']:
            last_sent = f['kind']
    return out


# ------------------------------------------------------------------------------------------ case generation
SUBSETS3 = [[], [0], [1], [2], [0, 1], [1, 0], [0, 2], [1, 2], [0, 1, 2]]
LATER = [['supported', [0]], ['ready', None], ['authenticate', None], ['challenge', 'good'], ['challenge', 'bad'], ['auth_success', None],
         ['error', 'auth'], ['error', 'server'], ['error', 'protocol'], ['unexpected', None], ['disconnect', None], ['sockerr', None]]
FIRST = [['supported', s] for s in SUBSETS3] + LATER[1:]
AFTER_TERMINAL = [['ready', None], ['auth_success', None], ['disconnect', None], ['sockerr', None]]


def all_configs(tier):
    auths = ['none', 'sasl', 'dict']
    comps = [True, False, 'lz4', 'snappy', 'zstd']
    locals_ = [[], [0], [1], [0, 1], [1, 0]]
    versions = [1, 2, 3, 4, 5, 6, 65, 66]
    out = []
    for fl in ('asyncio', 'twisted'):
        for a, c, l, v in itertools.product(auths, comps, locals_, versions):
            out.append(({'flavour': fl, 'auth': a, 'compression': c, 'version': v}, l))
    return out


def enumerate_tree(H, cfg, local, maxlen=5):
    """all reply sequences of length <= maxlen, extended until the connect attempt is decided (connected_event set) and then by
    one more reply from AFTER_TERMINAL; returns the maximal ones with their observation traces"""
    leaves = []

    def rec(prefix):
        obs = H.run_case(cfg, local, prefix)
        terminal = obs[-1]['connected']
        if len(prefix) >= maxlen:
            leaves.append((prefix, obs))
            return
        if terminal:
            if len(prefix) >= 1 and obs[-2]['connected']:
                leaves.append((prefix, obs))
                return
            for r in AFTER_TERMINAL:
                rec(prefix + [r])
            return
        for r in (FIRST if not prefix else LATER):
            rec(prefix + [r])
    rec([])
    return leaves


def random_walk(H, rng, cfg, local, n=5):
    """a reply sequence biased toward legal continuations (by the last frame the client sent), with illegal ones mixed in"""
    replies = []
    phase = 'options'
    for i in range(n):
        x = rng.random()
        if x < 0.55:
            if phase == 'options':
                r = ['supported', rng.choice(SUBSETS3)]
            elif phase == 'startup':
                r = rng.choice([['ready', None], ['authenticate', None], ['authenticate', None], ['error', 'server']])
            elif phase == 'auth':
                r = rng.choice([['challenge', 'good'], ['auth_success', None], ['error', 'auth'], ['ready', None], ['authenticate', None]])
            else:
                r = rng.choice(LATER)
        else:
            r = rng.choice(FIRST if i == 0 else LATER)
        replies.append(r)
        if r[0] == 'supported' and phase == 'options':
            phase = 'startup'
        elif r[0] == 'authenticate' and phase == 'startup':
            phase = 'auth'
        elif r[0] in ('ready', 'auth_success', 'disconnect', 'sockerr', 'error', 'unexpected'):
            phase = 'done'
    return replies


def _work(args):
    """thorough tier worker: the whole tree of one configuration"""
    cfg, local = args
    from vf import hs_impl as H
    with H.patched_reactors():
        leaves = enumerate_tree(H, cfg, local)
    H.shutdown()
    res = []
    for replies, obs in leaves:
        res.append((replies, obs, oracle(cfg, local, replies, obs)))
    return cfg, local, res


def nontrivial(replies, obs):
    """the handshake got past STARTUP: at least one reply was processed while a STARTUP/auth request was outstanding"""
    return len(obs) > 2 and obs[1]['pending'] == 1 and not obs[1]['connected']


def load_corpus():
    d = os.path.join(core.VERIF, 'corpus', 'C47')
    out = []
    if os.path.isdir(d):
        for fn in sorted(os.listdir(d)):
            if fn.endswith('.json'):
                with open(os.path.join(d, fn)) as f:
                    c = json.load(f)
                out.append((c['cfg'], c['local'], c['replies']))
    return out


def gen(ctx):
    # (T) ProtocolVersion.has_checksumming_support is regenerated from cassandra/__init__.py; Props/C47.v bridges it to has_cs
    ctx.generate('HsProtoVersion.v', lambda: py2coq.Translator(core.REPO, hs_version.fns()).emit())


def run(ctx):
    gen(ctx)
    ok = ctx.prove('Props/C47.v')
    if ctx.tier == 'thorough' and ok:
        ctx.coqchk('Props/C47.v')
    from vf import hs_impl as H

    results = []           # (cfg, local, replies, obs, oracle findings)
    try:
        with H.patched_reactors():
            # corpus first (both flavours), then the standard flows
            directed = load_corpus()
            for fl in ('asyncio', 'twisted'):
                for v in (4, 5):
                    directed.append(({'flavour': fl, 'auth': 'none', 'compression': True, 'version': v}, [0, 1],
                                     [['supported', [0, 1]], ['ready', None]]))
                    directed.append(({'flavour': fl, 'auth': 'sasl', 'compression': True, 'version': v}, [0, 1],
                                     [['supported', [1, 0]], ['authenticate', None], ['challenge', 'good'], ['auth_success', None]]))
                directed.append(({'flavour': fl, 'auth': 'dict', 'compression': 'snappy', 'version': 1}, [0, 1],
                                 [['supported', [1]], ['authenticate', None], ['ready', None]]))
            for cfg, local, replies in directed:
                obs = H.run_case(cfg, local, replies)
                results.append((cfg, local, replies, obs, oracle(cfg, local, replies, obs)))
                ctx.count('source', 'corpus+directed')
            configs = all_configs(ctx.tier)
            if ctx.tier == 'quick':
                ctx.exhaustive = False
                chosen = [configs[i] for i in sorted(ctx.rng.sample(range(len(configs)), 100))]
                for cfg, local in chosen:
                    for _ in range(30):
                        replies = random_walk(H, ctx.rng, cfg, local, ctx.rng.choice([3, 4, 5, 5]))
                        obs = H.run_case(cfg, local, replies)
                        results.append((cfg, local, replies, obs, oracle(cfg, local, replies, obs)))
                        ctx.count('source', 'random-walk')
                # two complete trees
                for cfg, local in [chosen[0], chosen[-1]]:
                    for replies, obs in enumerate_tree(H, cfg, local):
                        results.append((cfg, local, replies, obs, oracle(cfg, local, replies, obs)))
                        ctx.count('source', 'full-tree')
            # malformed SUPPORTED bodies (evidence only; DESIGN 4.0): must never end up ready
            from cassandra.protocol import SupportedMessage
            for opts, cql in (({}, ['3.4.5']), ({'COMPRESSION': []}, [])):
                conn = H.make_conn({'flavour': 'twisted', 'auth': 'none', 'compression': True, 'version': 4})
                sid = max(conn._requests)
                cb, _d, md = conn._requests[sid]
                msg = SupportedMessage(cql_versions=cql, options=opts)
                conn._requests[sid] = (cb, (lambda *a, **k: msg), md)
                conn.process_msg(H.C._Frame(4, 0, sid, 6, 9, 9), b'')
                ctx.count('malformed_supported', H.err_tag(conn.last_error))
        H.shutdown()
        if ctx.tier == 'thorough':
            ctx.exhaustive = True
            import multiprocessing
            mp = multiprocessing.get_context('fork')
            with mp.Pool(core.JOBS) as pool:
                for cfg, local, res in pool.imap(_work, all_configs(ctx.tier), chunksize=4):
                    for replies, obs, found in res:
                        results.append((cfg, local, replies, obs, found))
                    ctx.count('source', 'full-tree', len(res))
    finally:
        H.shutdown()

    ctx.rule = ('configurations = {asyncio,twisted close()} x authenticator {none, PlainTextAuthenticator, credentials dict} x compression '
                '{True, False, lz4, snappy, zstd} x local codecs {[], [lz4], [snappy], [lz4,snappy], [snappy,lz4]} x versions {1,2,3,4,5,6,65,66}; '
                'replies from {SUPPORTED(9 option lists), READY, AUTHENTICATE, AUTH_CHALLENGE good/bad, AUTH_SUCCESS, ERROR bad-credentials/server/'
                'protocol, RESULT, disconnect, socket error}; thorough: every sequence of length <= 5 up to the reply that decides the connect attempt, '
                'plus every extension of a decided attempt by READY/AUTH_SUCCESS/disconnect/socket error; quick: 100 random configurations x 30 '
                'model-guided random walks + 2 complete trees; non-trivial = distinct (configuration, sequence) whose handshake got past STARTUP')
    cases, meta = [], []
    seen_viol = set()
    for cfg, local, replies, obs, found in results:
        canon = [cfg['flavour'], cfg['auth'], str(cfg['compression']), cfg['version'], local, replies]
        ctx.case(canon, nontrivial=nontrivial(replies, obs),
                 sample={'cfg': cfg, 'local': local, 'replies': replies,
                         'final': {k: v for k, v in obs[-1].items() if k != 'sent'},
                         'sent': [[f['kind'], f['compressed'], f['checksummed']] for o in obs for f in o['sent']]}
                 if len(replies) >= 4 and obs[-1]['reported_ready'] else None)
        ctx.count('length', len(replies))
        ctx.count('outcome', 'ready' if obs[-1]['reported_ready'] else obs[-1]['last_error'] if obs[-1]['last_error'] != 'none' else 'pending')
        ctx.count('auth', cfg['auth'])
        ctx.count('version', cfg['version'])
        for r in replies:
            ctx.count('reply', r[0] if r[0] not in ('error', 'challenge') else '%s/%s' % (r[0], r[1]))
        for key, what, thm in found:
            k2 = '%s.%s' % (cfg['flavour'], key)
            if k2 in seen_viol:
                continue
            seen_viol.add(k2)
            ctx.violation(k2, '%s reactor: %s (replies %r, config %r, local codecs %r)' % (cfg['flavour'], what, replies, cfg, local),
                          case={'cfg': cfg, 'local': local, 'replies': replies}, expected='property C47 (%s)' % thm,
                          actual=[{k: v for k, v in o.items()} for o in obs], theorem=thm, kind='history')
        cases.append(g_case(cfg, local, replies, obs))
        meta.append((cfg, local, replies, bool(found)))
    try:
        bad = ctx.coq_filter(['Handshake'], '(fun b : bool => b)', cases, shard=600)
    except RuntimeError as e:
        ctx.proof_broken.append(('correspondence:Handshake', str(e)[-800:]))
        bad = []
    ctx.extra['model_disagreements'] = len(bad)
    shown = 0
    for i in bad:
        cfg, local, replies, violated = meta[i]
        if violated or shown >= 5:
            continue           # the property failure itself is already reported for this case
        shown += 1
        ctx.disagreement('model-vs-impl', 'handshake model differs from the implementation: config %r local %r replies %r' % (cfg, local, replies),
                         case={'cfg': cfg, 'local': local, 'replies': replies}, actual=results[i][3])
    ctx.trust('harness lib/vf/hs_impl.py: no-socket subclasses of AsyncioConnection/TwistedConnection (real close(), real process_msg/'
              'send_msg/defunct), toy codecs patched into locally_supported_compressions / segment_codec_lz4, frame+segment parser',
              'reply objects are built by the harness (decoding is C04), PlainTextAuthenticator is the SASL-style authenticator')
    ctx.assume('every reactor callback (reply, close, socket error) runs to completion on the event-loop thread before the next one',
               'reactor close() records ConnectionShutdown while the handshake is unfinished (c_guard): true for asyncore and, since fix C47-1, '
               'for asyncio/twisted/eventlet/gevent; libev close() never sets connected_event (factory times out instead)')


def replay(ctx, rp):
    case = rp.get('case') or {}
    if not case.get('replies') and not case.get('cfg'):
        print('nothing to replay: %s' % rp.get('theorem'))
        return 1
    from vf import hs_impl as H
    with H.patched_reactors():
        obs = H.run_case(case['cfg'], case['local'], case['replies'])
    H.shutdown()
    for r, o in zip([['(constructed)']] + case['replies'], obs):
        print('  %-28r sent=%r %r' % (r, [(f['kind'], f['compressed'], f['checksummed']) for f in o['sent']],
                                      {k: v for k, v in o.items() if k != 'sent'}))
    found = oracle(case['cfg'], case['local'], case['replies'], obs)
    for key, what, thm in found:
        print('  property fails: %s [%s]' % (what, thm))
    print(('VIOLATION property=C47 replay=%s' % ctx.replay_path) if found else 'not reproduced')
    return 1 if found else 0
