"""C47 -- a connection is usable only after a successful handshake.

Proof: coq/Props/C47.v over coq/Model/Handshake.v (all reply sequences, all configurations).
Tie (C): the REAL handlers of cassandra/connection.py (reached through the real process_msg, send_msg, defunct and the
real close() of the asyncio and twisted reactors) are run on no-socket connections (lib/vf/hs_impl.py) and compared
with the model after EVERY reply; the statement itself is evaluated on the implementation by `oracle` below.
"""
import itertools, json, os
from vf import core, py2coq
from vf.specs import hs_version

META = {
    'technique': 'Coq proof (invariants over all reply sequences) on a hand-written handshake state machine + '
                 'per-step correspondence with the real Connection handlers on no-socket asyncio/twisted connections',
    'level_text': 'C47_ready_only_after / C47_error_kinds / C47_compression_both_sides / C47_compress_only_after_accept / '
                  'C47_checksumming_iff_v5 / C47_handshake_is_final proved for every reply sequence, authenticator kind, compression '
                  'setting, local/remote algorithm lists and protocol version; model tied to cassandra/connection.py by running the '
                  'real handlers on every reply sequence of length <= 5 (exhaustive in the thorough tier) and comparing sent frames '
                  '(kind, compressed, checksummed), compressor/decompressor, checksumming flag, connected_event, flags and the class '
                  'of last_error after every reply.',
    'level_note': 'Reading (DESIGN 4.0): non-authentication failures may be any non-AuthenticationFailed exception. An ERROR of any '
                  'kind answering the client\'s credentials counts as an authentication failure (the driver reports it so); only '
                  'BadCredentials there and AUTHENTICATE without an authenticator are REQUIRED to be AuthenticationFailed. '
                  'Trusted: Coq kernel, harness (no-socket subclasses, toy codecs, frame parser). libev/asyncore/eventlet/gevent '
                  'close() are not importable here and are covered by reading only.',
    'design_ref': 'DESIGN.md section 4, C47',
}

NAMES = ['lz4', 'snappy', 'zstd', 'deflate']
ERR_CODE = {'none': 0, 'auth_failed': 1, 'conn_shutdown': 2, 'conn_exception': 3, 'protocol_error': 4,
            'server_protocol_exception': 5, 'unsupported_operation': 6, 'key_error': 7, 'os_error': 8, 'exception': 9}
CS_VERSIONS = (5, 6)          # protocol versions with checksummed (segment) framing: v5 and the v6 beta


# ------------------------------------------------------------------------------------------ Gallina literals
def b(x):
    return 'true' if x else 'false'


def optz(x):
    return 'None' if x is None else '(Some %d)' % x


def zlist(l):
    return '[' + '; '.join(str(x) for x in l) + ']'


def g_cfg(cfg, local):
    auth = {'none': 'ANone', 'sasl': 'ASasl', 'dict': 'ADict'}[cfg['auth']]
    c = cfg['compression']
    comp = 'CompOff' if c is False else 'CompAuto' if c is True else '(CompName %d)' % NAMES.index(c)
    return '(mkConfig %s %s %s %d true)' % (auth, comp, zlist(local), cfg['version'])


def g_reply(r):
    k = r[0]
    if k == 'supported':
        return '(RSupported %s)' % zlist(r[1])
    if k == 'challenge':
        return '(RChallenge %s)' % b(r[1] == 'good')
    if k == 'error':
        return '(RError %s)' % {'auth': 'EkAuth', 'server': 'EkServer', 'protocol': 'EkProtocol'}[r[1]]
    return {'ready': 'RReady', 'authenticate': 'RAuthenticate', 'auth_success': 'RAuthSuccess', 'unexpected': 'RUnexpected',
            'disconnect': 'RDisconnect', 'sockerr': 'RSockErr'}[k]


def g_case(cfg, local, replies, codes):
    """codes: same packing as code_state / code_frames in coq/Model/Handshake.v (computed in vf.hs_cases.summarize)"""
    return 'check_trace %s [%s] %s' % (g_cfg(cfg, local), '; '.join(g_reply(r) for r in replies), zlist(codes))


from vf.hs_cases import oracle, enumerate_tree, random_walk, _work, all_configs, summarize


def load_corpus():
    d = os.path.join(core.VERIF, 'corpus', 'C47')
    out = []
    if os.path.isdir(d):
        for fn in sorted(os.listdir(d)):
            if fn.endswith('.json'):
                with open(os.path.join(d, fn)) as f:
                    c = json.load(f)
                out.append((c['cfg'], c['local'], c['replies']))
    return out


def gen(ctx):
    # (T) ProtocolVersion.has_checksumming_support is regenerated from cassandra/__init__.py; Props/C47.v bridges it to has_cs
    ctx.generate('HsProtoVersion.v', lambda: py2coq.Translator(core.REPO, hs_version.fns()).emit())


def run(ctx):
    gen(ctx)
    ok = ctx.prove('Props/C47.v')
    if ctx.tier == 'thorough' and ok:
        ctx.coqchk('Props/C47.v')
    from vf import hs_impl as H

    results = []           # compact records (vf.hs_cases.summarize)
    try:
        with H.patched_reactors():
            # corpus first (both flavours), then the standard flows
            directed = load_corpus()
            for fl in ('asyncio', 'twisted'):
                for v in (4, 5):
                    directed.append(({'flavour': fl, 'auth': 'none', 'compression': True, 'version': v}, [0, 1],
                                     [['supported', [0, 1]], ['ready', None]]))
                    directed.append(({'flavour': fl, 'auth': 'sasl', 'compression': True, 'version': v}, [0, 1],
                                     [['supported', [1, 0]], ['authenticate', None], ['challenge', 'good'], ['auth_success', None]]))
                directed.append(({'flavour': fl, 'auth': 'dict', 'compression': 'snappy', 'version': 1}, [0, 1],
                                 [['supported', [1]], ['authenticate', None], ['ready', None]]))
            # v5/v6 x snappy as the chosen algorithm (only common one, or requested by name): nothing may be negotiated or applied
            for fl in ('asyncio', 'twisted'):
                for v in (5, 6):
                    for comp, local, remote in ((True, [1], [1]), (True, [0, 1], [1]), (True, [1, 0], [0, 1]), ('snappy', [0, 1], [0, 1]), ('snappy', [1], [1, 2])):
                        directed.append(({'flavour': fl, 'auth': 'none', 'compression': comp, 'version': v}, local, [['supported', remote], ['ready', None]]))
                        directed.append(({'flavour': fl, 'auth': 'sasl', 'compression': comp, 'version': v}, local,
                                         [['supported', remote], ['authenticate', None], ['challenge', 'good'], ['auth_success', None]]))
            for cfg, local, replies in directed:
                results.append(summarize(cfg, local, replies, H.run_case(cfg, local, replies)))
                ctx.count('source', 'corpus+directed')
            configs = all_configs(ctx.tier)
            if ctx.tier == 'quick':
                ctx.exhaustive = False
                chosen = [configs[i] for i in sorted(ctx.rng.sample(range(len(configs)), 80))]
                for cfg, local in chosen:
                    for _ in range(25):
                        replies = random_walk(H, ctx.rng, cfg, local, ctx.rng.choice([3, 4, 5, 5]))
                        results.append(summarize(cfg, local, replies, H.run_case(cfg, local, replies)))
                        ctx.count('source', 'random-walk')
                # two complete trees
                for cfg, local in [chosen[0], chosen[-1]]:
                    for replies, obs in enumerate_tree(H, cfg, local):
                        results.append(summarize(cfg, local, replies, obs))
                        ctx.count('source', 'full-tree')
            # malformed SUPPORTED bodies (evidence only; DESIGN 4.0): must never end up ready
            from cassandra.protocol import SupportedMessage
            for opts, cql in (({}, ['3.4.5']), ({'COMPRESSION': []}, [])):
                conn = H.make_conn({'flavour': 'twisted', 'auth': 'none', 'compression': True, 'version': 4})
                sid = max(conn._requests)
                cb, _d, md = conn._requests[sid]
                msg = SupportedMessage(cql_versions=cql, options=opts)
                conn._requests[sid] = (cb, (lambda *a, **k: msg), md)
                conn.process_msg(H.C._Frame(4, 0, sid, 6, 9, 9), b'')
                ctx.count('malformed_supported', H.err_tag(conn.last_error))
        H.shutdown()
        if ctx.tier == 'thorough':
            ctx.exhaustive = True
            import multiprocessing
            mp = multiprocessing.get_context('fork')
            with mp.Pool(core.JOBS) as pool:
                for res in pool.imap(_work, all_configs(ctx.tier), chunksize=4):
                    results.extend(res)
                    ctx.count('source', 'full-tree', len(res))
    finally:
        H.shutdown()

    ctx.rule = ('configurations = {asyncio,twisted close()} x authenticator {none, PlainTextAuthenticator, credentials dict} x compression '
                '{True, False, lz4, snappy, zstd} x local codecs {[], [lz4], [snappy], [lz4,snappy], [snappy,lz4]} x versions {1,2,3,4,5,6,65,66}; '
                'replies from {SUPPORTED(9 option lists), READY, AUTHENTICATE, AUTH_CHALLENGE good/bad, AUTH_SUCCESS, ERROR bad-credentials/server/'
                'protocol, RESULT, disconnect, socket error}; thorough: every sequence of length <= 5 up to the reply that decides the connect attempt, '
                'plus every extension of a decided attempt by READY/AUTH_SUCCESS/disconnect/socket error; quick: 80 random configurations x 25 '
                'model-guided random walks + 2 complete trees; non-trivial = distinct (configuration, sequence) whose handshake got past STARTUP')
    cases, meta = [], []
    seen_viol = set()
    for rec in results:
        cfg, local, replies, found = rec['cfg'], rec['local'], rec['replies'], rec['found']
        canon = [cfg['flavour'], cfg['auth'], str(cfg['compression']), cfg['version'], local, replies]
        ctx.case(canon, nontrivial=rec['nontrivial'], sample=rec['sample'])
        ctx.count('length', len(replies))
        ctx.count('outcome', rec['outcome'])
        ctx.count('factory', rec['factory'].split(':')[0])
        if rec['factory_mismatch'] and not found and 'factory' not in seen_viol:
            seen_viol.add('factory')
            ctx.disagreement('factory-vs-flags', '%s (replies %r, config %r)' % (rec['factory_mismatch'], replies, cfg),
                             case={'cfg': cfg, 'local': local, 'replies': replies})
        ctx.count('auth', cfg['auth'])
        ctx.count('version', cfg['version'])
        for r in replies:
            ctx.count('reply', r[0] if r[0] not in ('error', 'challenge') else '%s/%s' % (r[0], r[1]))
        for key, what, thm in found:
            k2 = '%s.%s' % (cfg['flavour'], key)
            if k2 in seen_viol:
                continue
            seen_viol.add(k2)
            ctx.violation(k2, '%s reactor: %s (replies %r, config %r, local codecs %r)' % (cfg['flavour'], what, replies, cfg, local),
                          case={'cfg': cfg, 'local': local, 'replies': replies}, expected='property C47 (%s)' % thm,
                          actual=rec['obs'], theorem=thm, kind='history')
        cases.append(g_case(cfg, local, replies, rec['codes']))
        meta.append((cfg, local, replies, bool(found)))
    try:
        bad = ctx.coq_filter(['Handshake'], '(fun b : bool => b)', cases, shard=600 if ctx.tier == 'quick' else 1500, timeout=1200)
    except RuntimeError as e:
        ctx.proof_broken.append(('correspondence:Handshake', str(e)[-800:]))
        bad = []
    ctx.extra['model_disagreements'] = len(bad)
    shown = 0
    for i in bad:
        cfg, local, replies, violated = meta[i]
        if violated or shown >= 5:
            continue           # the property failure itself is already reported for this case
        shown += 1
        ctx.disagreement('model-vs-impl', 'handshake model differs from the implementation: config %r local %r replies %r' % (cfg, local, replies),
                         case={'cfg': cfg, 'local': local, 'replies': replies}, actual=results[i]['codes'])
    ctx.trust('harness lib/vf/hs_impl.py: no-socket subclasses of AsyncioConnection/TwistedConnection (real close(), real process_msg/'
              'send_msg/defunct), toy codecs patched into locally_supported_compressions / segment_codec_lz4, frame+segment parser',
              'reply objects are built by the harness (decoding is C04), PlainTextAuthenticator is the SASL-style authenticator')
    ctx.assume('every reactor callback (reply, close, socket error) runs to completion on the event-loop thread before the next one',
               'reactor close() records ConnectionShutdown while the handshake is unfinished (c_guard): true for asyncore and, since fix C47-1, '
               'for asyncio/twisted/eventlet/gevent; libev close() never sets connected_event (factory times out instead)')


def replay(ctx, rp):
    case = rp.get('case') or ({'cfg': rp['cfg'], 'local': rp['local'], 'replies': rp['replies']} if 'cfg' in rp else {})   # replay file or corpus file
    if not case.get('replies') and not case.get('cfg'):
        print('nothing to replay: %s' % rp.get('theorem'))
        return 1
    from vf import hs_impl as H
    with H.patched_reactors():
        obs = H.run_case(case['cfg'], case['local'], case['replies'])
    H.shutdown()
    for r, o in zip([['(constructed)']] + case['replies'], obs):
        print('  %-28r sent=%r %r' % (r, [(f['kind'], f['compressed'], f['checksummed']) for f in o['sent']],
                                      {k: v for k, v in o.items() if k != 'sent'}))
    with H.patched_reactors():
        fac = H.run_factory(case['cfg'], case['local'], case['replies'])
    H.shutdown()
    print('  Connection.factory() -> %s' % fac)
    found = oracle(case['cfg'], case['local'], case['replies'], obs, fac)
    for key, what, thm in found:
        print('  property fails: %s [%s]' % (what, thm))
    print(('VIOLATION property=C47 replay=%s' % ctx.replay_path) if found else 'not reproduced')
    return 1 if found else 0
