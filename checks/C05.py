"""C05 -- incoming frames are reassembled exactly under any TCP chunking.

Coq: Model/Stream.v (greedy header/body parser = _read_frame_header + process_io_buffer, routing of process_msg),
Props/C05.v (chunking invariance, exact delivery, no partial frame, routing).
(C) a no-socket Connection subclass is fed generated frame streams under generated / exhaustive chunkings through the real
process_io_buffer and process_msg; events, routing and the buffer/_current_frame after EVERY read are compared with the model;
a Python oracle of the statement is applied to the implementation's deliveries.
"""
import json, os
from vf import core
from vf import framing_impl as F

META = {
    'technique': 'Coq proof (prefix-stability of the greedy frame parser, induction over chunk and frame lists) on a hand-written model '
                 'of _read_frame_header/process_io_buffer/process_msg routing + per-read differential execution against the real Connection',
    'level_text': 'C05_chunking (any chunk list = one read of the concatenation: same deliveries, same final state), C05_exact (any list of '
                  'well-formed frames followed by an incomplete tail delivers exactly those frames in order, tail stays buffered), '
                  'C05_no_partial, C05_prefix_monotone, C05_routing proved for all frame lists and all chunkings in Model/Stream.v; the model '
                  'is compared with the real Connection after every read (events, routing, buffered bytes, _current_frame).',
    'level_note': 'Tie is correspondence (C): the model is hand-written. Not covered: the socket read loop of each reactor; behaviour after '
                  'defunct (the model is absorbing); message body decoding (C04). _current_frame is modelled as a function of the buffer.',
    'design_ref': 'DESIGN.md section 4, C05',
}

BAD_VERSIONS = [0, 7, 8, 64, 67, 127]


def run_impl(data_chunks, reqs, pv=4, wspec=None):
    """-> (events, obs per read, final buffer bytes, watcher iteration order per event type)"""
    Conn = F.fake_conn_class()
    holder = [None]
    with F.PushRecorder(holder):
        c = Conn(protocol_version=pv)
        holder[0] = c
        c.watch(wspec)
        for r in reqs:
            c.expect(r)
        obs = []
        for ch in data_chunks:
            if not c.is_defunct:
                c.feed(ch)
            n = len(F.ievents(c.events))
            if c.is_defunct:
                obs.append((n, -1, 0))
            else:
                obs.append((n, len(c._io_buffer.io_buffer.getvalue()), 1 if c._current_frame else 0))
        buf = b'' if c.is_defunct else c._io_buffer.io_buffer.getvalue()
        return list(c.events), obs, buf, dict(c.watcher_order)


def event_type_of(body):
    n = int.from_bytes(body[:2], 'big')
    return bytes(body[2:2 + n]).decode('ascii').upper()


def oracle(ctx, frames, tail_ok, data_chunks, reqs, events, obs, case, worder=None):
    """the statement of C05 applied to what the implementation did (valid frame streams only)."""
    encs = [F.enc_frame(*f) for f in frames]
    ends, p = [], 0
    for e in encs:
        p += len(e)
        ends.append(p)
    ms = [e for e in events if e[0] == 'M']
    if any(e[0] == 'D' for e in events):
        d = [e for e in events if e[0] == 'D'][0]
        ctx.violation('frames.spurious-defunct', 'valid frame stream defuncted the connection (%s) under chunking %r' % (d[2], [len(x) for x in data_chunks]),
                      case=case, expected='no error', actual=d[2], theorem='C05_exact')
        return False
    # after every read: exactly the frames completely received so far
    got = 0
    for (n, _, _), ch in zip(obs, data_chunks):
        got += len(ch)
        complete = sum(1 for e in ends if e <= got)
        if n != complete:
            ctx.violation('frames.count-after-read', 'after %d bytes %d frames were delivered, %d are complete' % (got, n, complete),
                          case=case, expected=complete, actual=n, theorem='C05_chunking')
            return False
    exp = [((f[0], f[1], f[2], f[3], len(f[4])), bytes(f[4])) for f in frames]
    if [(m[1], m[2]) for m in ms] != exp:
        ctx.violation('frames.altered-or-reordered', 'delivered frames differ from the frames sent', case=case,
                      expected=[(list(h), b.hex()) for h, b in exp], actual=[(list(m[1]), m[2].hex()) for m in ms], theorem='C05_exact')
        return False
    # routing
    rt = F.routed(events)
    pending = list(reqs)
    for f, r in zip(frames, rt):
        h = (f[0], f[1], f[2], f[3], len(f[4]))
        if f[2] < 0:
            ok = r[0] == 'W' and r[1] == h and r[2] == bytes(f[4])
            key = 'route.push-not-to-watchers'
            if ok and worder is not None:
                # every watcher registered for this event type is called exactly once, whichever of them raise
                want = sorted(w for w, _ in worder.get(event_type_of(f[4]), []))
                if sorted(r[3]) != want:
                    ok = False
                    key = 'route.push-watcher-skipped'
        elif f[2] in pending:
            pending.remove(f[2])
            ok = r[0] == 'H' and r[1] == f[2] and r[2] == h and r[3] == bytes(f[4]) and r[4] == 1
            key = 'route.wrong-handler'
        else:
            ok = r[0] == 'X'
            key = 'route.unsolicited-delivered'
        if not ok:
            what = 'frame stream=%d routed as %r' % (f[2], r[:2])
            if key == 'route.push-watcher-skipped':
                what = ('pushed %s event (stream %d): watchers %r are registered (id, raises) but only %r were called' % (
                    event_type_of(f[4]), f[2], worder.get(event_type_of(f[4])), r[3]))
            ctx.violation(key, what, case=case, expected='stream %d' % f[2], actual=repr(r)[:200],
                          theorem='C05_routing')
            return False
    return True


def mk_case(frames, cuts, reqs, raw=None, wspec=None):
    return {'frames': [[f[0], f[1], f[2], f[3], bytes(f[4]).hex()] for f in frames], 'cuts': list(cuts), 'reqs': list(reqs),
            'raw_tail': (raw or b'').hex(), 'watchers': wspec}


def gen_wspec(rng):
    """1-3 watchers per event type, some of which raise (the default of the first wave was one well-behaved watcher)"""
    if rng.random() < 0.3:
        return None
    return {et: [rng.random() < 0.45 for _ in range(rng.randint(1, 3))] for et in ('TOPOLOGY_CHANGE', 'STATUS_CHANGE', 'SCHEMA_CHANGE')}


def eval_case(ctx, frames, tail, cuts, reqs, valid, cases, meta, nontrivial=True, wspec=None):
    data = b''.join(F.enc_frame(*f) for f in frames) + tail
    chunks = F.chunk(data, cuts)
    events, obs, buf, worder = run_impl(chunks, reqs, wspec=wspec)
    case = mk_case(frames, cuts, reqs, tail, wspec)
    ok = True
    if valid:
        ok = oracle(ctx, frames, True, chunks, reqs, events, obs, case, worder)
    # handle_pushed against the model: watchers in the set's iteration order, ids actually called
    for f, r in zip(frames, F.routed(events)):
        if f[2] < 0 and r[0] == 'W' and valid:
            ws = worder.get(event_type_of(f[4]), [])
            cases.append('c05_push_case [%s] %s' % (';'.join('(%d,%s)' % (w, 'true' if x else 'false') for w, x in ws), F.zlist(r[3])))
            meta.append((case, [('push', list(ws), list(r[3]))]))
            ctx.count('watchers_per_push', len(ws))
            ctx.count('raising_watchers_per_push', sum(1 for _, x in ws if x))
    ctx.case(case, nontrivial=nontrivial and len(frames) > 0 and len(cuts) > 0,
             sample={'frames': case['frames'][:3], 'cuts': cuts[:8], 'delivered': sum(1 for e in events if e[0] == 'M')})
    ctx.count('n_frames', len(frames))
    ctx.count('n_chunks', min(len(chunks), 20))
    for f in frames:
        ctx.count('version', f[0])
        ctx.count('stream_sign', 'neg' if f[2] < 0 else 'nonneg')
    ctx.count('kind', 'valid' if valid else 'malformed')
    iev = F.ievents(events)
    cases.append('c05_case %s %s %s %s %s %s' % (F.zll(chunks), F.zlist(reqs), F.ievents_lit(iev), F.routed_lit(F.routed(events)),
                                                 F.obs_lit(obs), F.zlist(buf)))
    meta.append((case, [(e[0],) + tuple(x.hex() if isinstance(x, bytes) else x for x in e[1:]) for e in iev]))
    return ok


def gen_reqs(rng, frames):
    ids = [f[2] for f in frames if f[2] >= 0]
    reqs = [i for i in ids if rng.random() < 0.85]
    if rng.random() < 0.3:
        reqs.append(rng.randint(0, 100))
    out = []
    for r in reqs:          # _requests is a dict: one callback per stream id
        if r not in out:
            out.append(r)
    return out


def malformed_tail(rng):
    k = rng.random()
    if k < 0.4:
        v = rng.choice(BAD_VERSIONS)
        return bytes([rng.choice([0x80, 0]) | v]) + bytes(rng.randrange(256) for _ in range(rng.randint(0, 12)))
    if k < 0.8:
        ver = rng.choice([1, 2, 3, 4])
        return F.enc_frame(ver, 0, 1, 8, b'abc', length=rng.choice([-1, -2, -2 ** 31, -100])) + b'xyz'
    ver = rng.choice([1, 2, 3, 4, 5, 6, 65, 66])
    full = F.enc_frame(ver, 1, 2, 3, bytes(range(10)))
    return full[:rng.randint(0, len(full) - 1)]


def load_corpus(pid):
    d = os.path.join(core.VERIF, 'corpus', pid)
    out = []
    if os.path.isdir(d):
        for fn in sorted(os.listdir(d)):
            if fn.endswith('.json'):
                with open(os.path.join(d, fn)) as f:
                    out.append(json.load(f))
    return out


def case_from_json(c):
    frames = [(f[0], f[1], f[2], f[3], bytes.fromhex(f[4])) for f in c['frames']]
    return frames, bytes.fromhex(c.get('raw_tail', '')), c['cuts'], c['reqs']


def run(ctx):
    ok = ctx.prove('Props/C05.v')
    if ctx.tier == 'thorough' and ok:
        ctx.coqchk('Props/C05.v')
    rng = ctx.rng
    cases, meta = [], []
    quick = ctx.tier == 'quick'
    ctx.rule = ('frame streams (v1-v4 headers mostly, also v5/v6/DSE; stream ids of both signs incl. boundary ids; empty bodies; EVENT bodies for '
                'negative ids) x chunkings: EVERY single split point of short streams (exhaustive), all-1-byte reads, random k-splits incl. empty '
                'reads; separate malformed stream (bad version byte, negative length, truncated). non-trivial = distinct (frames, chunking) with >= 1 '
                'frame and >= 1 split; 1-4 watchers per event type, each raising with probability ~1/2 (every registered watcher must be called)')
    for c in load_corpus('C05'):
        frames, tail, cuts, reqs = case_from_json(c)
        eval_case(ctx, frames, tail, cuts, reqs, c.get('valid', True), cases, meta, wspec=c.get('watchers'))
    # 1. exhaustive single splits of short streams
    n_short = 12 if quick else 60
    for _ in range(n_short):
        frames = [F.gen_frame(rng, maxbody=10) for _ in range(rng.randint(1, 3))]
        data_len = sum(len(F.enc_frame(*f)) for f in frames)
        reqs = gen_reqs(rng, frames)
        tail = b''
        if rng.random() < 0.3:
            t = F.enc_frame(*F.gen_frame(rng, maxbody=6, neg_ok=False))
            tail = t[:rng.randint(0, len(t) - 1)]
        ws = gen_wspec(rng)
        for cut in range(0, data_len + len(tail) + 1):
            eval_case(ctx, frames, tail, [cut], reqs, True, cases, meta, wspec=ws)
        eval_case(ctx, frames, tail, list(range(1, data_len + len(tail))), reqs, True, cases, meta, wspec=ws)   # one byte at a time
    ctx.exhaustive = True
    # 2. random k-splits of longer streams, all versions
    for _ in range(150 if quick else 1500):
        vs = rng.choice([(1, 2, 3, 4)] * 4 + [(1, 2, 3, 4, 5, 6, 65, 66)])
        frames = [F.gen_frame(rng, versions=vs, maxbody=rng.choice([4, 24, 60])) for _ in range(rng.randint(0, 6))]
        n = sum(len(F.enc_frame(*f)) for f in frames)
        k = rng.choice([0, 1, 2, 3, 5, 9, n // 2 + 1])
        cuts = F.splits_k(rng, n, k)
        eval_case(ctx, frames, b'', cuts, gen_reqs(rng, frames), True, cases, meta, wspec=gen_wspec(rng))
    # 2b. pushed events with several watchers per event type, some of which raise (handle_pushed must call every one)
    for _ in range(60 if quick else 600):
        ver = rng.choice([1, 2, 3, 4, 4, 5])
        frames = []
        for _k in range(rng.randint(1, 4)):
            if rng.random() < 0.75:
                frames.append((ver, 0, -1, 0x0C, F.event_body(rng)))
            else:
                frames.append(F.gen_frame(rng, versions=(ver,), maxbody=8, neg_ok=False))
        n = sum(len(F.enc_frame(*f)) for f in frames)
        ws = {et: [rng.random() < 0.5 for _w in range(rng.randint(2, 4))] for et in ('TOPOLOGY_CHANGE', 'STATUS_CHANGE', 'SCHEMA_CHANGE')}
        eval_case(ctx, frames, b'', F.splits_k(rng, n, rng.choice([0, 1, 3])), gen_reqs(rng, frames), True, cases, meta, wspec=ws)
        ctx.count('kind', 'multi-watcher-push')
    # 3. malformed / truncated
    for _ in range(80 if quick else 600):
        frames = [F.gen_frame(rng, maxbody=8) for _ in range(rng.randint(0, 3))]
        tail = malformed_tail(rng)
        n = sum(len(F.enc_frame(*f)) for f in frames) + len(tail)
        cuts = F.splits_k(rng, n, rng.choice([0, 1, 2, 4, n]))
        eval_case(ctx, frames, tail, cuts, gen_reqs(rng, frames), False, cases, meta)
    # the encoder used in the theorems (Stream.enc_frame) against struct.pack, on frames of every version
    for _ in range(40 if quick else 400):
        f = F.gen_frame(rng, versions=(1, 2, 3, 4, 5, 6, 65, 66), maxbody=12)
        d = rng.choice([0x80, 0])
        cases.append('zlist_eqb (enc_frame %d %s %s) %s' % (d, F.hdr_lit((f[0], f[1], f[2], f[3], len(f[4]))), F.zlist(f[4]),
                                                          F.zlist(F.enc_frame(*f, dirbit=d))))
        meta.append(({'enc_frame': [f[0], f[1], f[2], f[3], bytes(f[4]).hex()]}, []))
        ctx.count('kind', 'enc_frame-vs-struct')
    if ok or os.path.exists(os.path.join(core.COQ, 'Model', 'Stream.vo')):
        try:
            bad = ctx.coq_filter(['Stream'], '(fun b : bool => b)', cases, shard=60)
            for i in bad[:10]:
                case, iev = meta[i]
                ctx.disagreement('model-vs-impl', 'Model/Stream.v differs from Connection at %s' % json.dumps(case)[:300],
                                 case=case, actual=iev)
        except RuntimeError as e:
            ctx.proof_broken.append(('correspondence:Stream', str(e)[-600:]))
    ctx.trust('hand-written model coq/Model/Stream.v of _read_frame_header/process_io_buffer/process_msg routing (tied by per-read correspondence)',
              'no-socket Connection subclass (lib/vf/framing_impl.py): close/push replaced, process_msg/defunct wrapped to record')
    ctx.assume('each reactor appends the received bytes to Connection._iobuf and calls process_io_buffer() (handle_read)',
               'no read is processed after the connection is defunct (reactors stop reading on close)')


def replay(ctx, rp):
    case = rp.get('case') or {}
    if not case.get('frames') and not case.get('raw_tail'):
        print('nothing to replay: %s' % rp.get('theorem'))
        return 1
    frames, tail, cuts, reqs = case_from_json(case)
    data = b''.join(F.enc_frame(*f) for f in frames) + tail
    chunks = F.chunk(data, cuts)
    events, obs, buf, worder = run_impl(chunks, reqs, wspec=case.get('watchers'))
    print('replay: %d frames, chunk sizes %r -> events %r' % (len(frames), [len(c) for c in chunks], [(e[0],) + tuple(e[1:2]) for e in events]))
    ok = oracle(ctx, frames, True, chunks, reqs, events, obs, case, worder)
    print('not reproduced' if ok else 'VIOLATION property=C05 replay=%s' % ctx.replay_path)
    for v in ctx.violations:
        print('  ' + v.what)
    return 0 if ok else 1
