"""C37 -- cqlengine statements bind every placeholder to its own clause's value.

(C) hand-written model coq/Model/Clauses.v (every clause class as size / rendered placeholders / context writes;
statements; update_context_id; BatchQuery.execute; query-set chains) run side by side with the real statement and
clause objects, BatchQuery.execute and ModelQuerySet chains; observations after every building step.
The property itself (oracle in lib/vf/cqle_stmt.py) is evaluated on the real objects for every case.
"""
import json, os, re
from vf import core
from vf import cqle_stmt as H

META = {
    'technique': 'Coq proof over a hand-written model of cqlengine clauses/statements/batches/query-set chains + '
                 'differential execution against the real objects after every building step',
    'level_text': 'C37_bijection / C37_own_value / C37_batch / C37_parts (+ clause-level and chain lemmas) proved in Coq for every '
                  'statement built by any sequence of add_*/update_context_id calls over any number and kind of clauses and any '
                  'values, and every batch; model tied to cassandra/cqlengine/statements.py, query.py by correspondence.',
    'level_note': 'Trusted: Coq kernel; the harness CQL-text parser and canonicalisation; hand-written model (tie C, no translator). '
                  'Domain = clause placements cqlengine itself produces (Clauses_proofs.wf_add); Token() values with as many columns as values.',
    'design_ref': 'DESIGN.md section 4, C37',
}

CORPUS = os.path.join(core.VERIF, 'corpus', 'C37')


def property_fails(probs):
    """a size mismatch alone is a root cause, not yet a failure of the statement as written"""
    return [p for p in probs if not p[0].endswith('size-differs-from-rendered-placeholders')]


def primary_key_of(probs):
    """the most specific root-cause key among the oracle's findings for one statement"""
    for suffix in ('size-differs-from-rendered-placeholders', 'own-context-differs', 'not-the-requested-value'):
        for k, m in probs:
            if k.endswith(suffix):
                return k, m
    return probs[0]


def check_stmt_on_impl(ctx, spec, where):
    """build the real statement step by step; returns (observations or None, violated?)"""
    kind, ops = spec
    st = H.new_stmt(kind)
    objs, obs = [], []
    violated = False
    for o in ops:
        try:
            cl = H.apply_sop(st, o)
        except Exception as e:
            ctx.violation('%s.build-raises' % kind, 'building %r raised %r at %r' % (spec, e, o), case={'stmt': spec},
                          expected='no exception', actual=repr(e), theorem='C37_bijection')
            return None, True
        if cl is not None:
            objs.append((o[1], o[2], cl))
        probs = H.oracle(st, objs, kind)
        if property_fails(probs) and not violated:
            violated = True
            k, msg = primary_key_of(probs)
            ctx.violation('%s.%s' % (kind, k), msg, case={'stmt': [kind, ops[:len(obs) + 1]]}, expected='every placeholder bound once, to the value of the clause that rendered it',
                          actual=[m for _, m in probs][:4], theorem='C37_bijection/C37_own_value')
        try:
            parsed, items, text = H.observe_real(st)
            obs.append((parsed, items))
        except H.ParseError as e:
            if not violated:
                violated = True
                ctx.violation('%s.unparseable-rendering' % kind, 'rendered text does not have the expected shape: %s' % e,
                              case={'stmt': [kind, ops[:len(obs) + 1]]}, expected='WHERE/IF/SET parts as requested', actual=str(e), theorem='C37_parts')
            return None, True
    return obs, violated


def run_batch_impl(specs):
    from cassandra.cqlengine.query import BatchQuery
    sts = [H.build_real(sp) for sp in specs]
    bq = BatchQuery()
    for st, _ in sts:
        bq.add_query(st)
    with H.Recorder() as rec:
        bq.execute()
    (text, params), = rec.calls
    return sts, text, params


def batch_oracle(specs, sts, text, params):
    probs = []
    lines = text.split('\n')
    body = lines[1:-1]
    if len(body) != len(sts):
        return [('line-count', 'batch has %d statements, text has %d lines' % (len(sts), len(body)))], None
    seen = {}
    for idx, ((st, objs), line) in enumerate(zip(sts, body)):
        ids = re.findall(H.PH, line)
        for i in ids:
            if i in seen and seen[i] != idx:
                probs.append(('id-ranges-overlap', 'placeholder %%(%s)s occurs in batched statements #%d and #%d: %r' % (i, seen[i], idx, text)))
            seen[i] = idx
        own = st.get_context()
        if set(ids) != set(own.keys()):
            probs.append(('statement-placeholders-differ', 'statement #%d renders %s, its context has %s' % (idx, ids, sorted(own.keys(), key=int))))
        for i in ids:
            if i in own and (i not in params or H.canon_val(params[i]) != H.canon_val(own[i])):
                probs.append(('foreign-value', 'placeholder %%(%s)s of batched statement #%d is bound to %r, the statement supplied %r: %r'
                              % (i, idx, params.get(i, '<missing>'), own[i], text)))
        for k, m in H.oracle(st, objs, specs[idx][0]):
            probs.append(('statement.' + k, m))
    allids = re.findall(H.PH, text)
    if set(allids) != set(params.keys()):
        probs.append(('parameters-differ', 'batch placeholders %s, parameters %s' % (sorted(set(allids), key=int), sorted(params.keys(), key=int))))
    try:
        parsed = [H.parse_statement(l) for l in body]
    except H.ParseError as e:
        probs.append(('unparseable-rendering', str(e)))
        parsed = None
    return probs, parsed


def run(ctx):
    props = os.path.join(core.COQ, 'Props', 'C37.v')
    ok = ctx.prove('Props/C37.v') if os.path.exists(props) else ctx.proof_broken.append(('Props/C37.v', 'missing'))
    if ctx.tier == 'thorough' and ok:
        ctx.coqchk('Props/C37.v')
    from vf.impl import import_cluster
    import_cluster()
    rng = ctx.rng
    quick = ctx.tier == 'quick'
    ctx.rule = ('random statements (kind x 1..6 building steps: add_where/add_conditional/add_assignment/add_field with every clause class, '
                'values incl. empty containers and None, update_context_id at random points), observed after EVERY step; random batches of 1..4 '
                'statements through BatchQuery.execute; random ModelQuerySet chains (filter ops incl. in/contains/token/TimeUUID functions, iff, '
                'order_by, limit, only, defer, allow_filtering) ending in select/delete/update; corpus of past failures first. '
                'non-trivial = distinct case with at least two clauses carrying placeholders')
    ctx.exhaustive = False
    cases, meta = [], []

    # ---- corpus (pre-fix failing inputs) + generated statements
    specs = []
    if os.path.isdir(CORPUS):
        for fn in sorted(os.listdir(CORPUS)):
            with open(os.path.join(CORPUS, fn)) as f:
                specs.append(('corpus:' + fn, json.load(f)['stmt']))
    for _ in range(350 if quick else 2500):
        specs.append(('gen', H.gen_stmt(rng)))
    for origin, sp in specs:
        kind, ops = sp
        obs, violated = check_stmt_on_impl(ctx, sp, origin)
        nph = sum(1 for o in ops if o[0] == 'add' and o[2][0] not in ('delf', 'notnull'))
        ctx.case(['stmt', sp], nontrivial=nph >= 2, sample={'statement': sp, 'final': None if not obs else {'parts': obs[-1][0]['parts'], 'context': obs[-1][1]}})
        ctx.count('statement_kind', kind)
        ctx.count('steps', len(ops))
        for o in ops:
            ctx.count('clause', o[2][0] if o[0] == 'add' else 'update_context_id')
        if obs is None:
            continue
        lit = '[' + '; '.join(H.coq_obs(p, items) for p, items in obs) + ']'
        cases.append('list_eqb obs_eqb (trace (empty_stmt %s) %s) %s' % (kind, H.coq_sops(ops), lit))
        meta.append(('stmt', sp, [(p['parts'], items) for p, items in obs]))

    # ---- batches
    for _ in range(80 if quick else 600):
        bs = [H.gen_stmt(rng, maxn=4) for _ in range(rng.randint(1, 4))]
        # statements the ORM would batch: no pending renumbering quirks needed; keep as generated
        try:
            sts, text, params = run_batch_impl(bs)
        except Exception as e:
            ctx.violation('Batch.raises', 'BatchQuery.execute raised %r for %r' % (e, bs), case={'batch': bs}, expected='no exception', actual=repr(e), theorem='C37_batch')
            continue
        probs, parsed = batch_oracle(bs, sts, text, params)
        ctx.case(['batch', bs], nontrivial=len(bs) >= 2, sample=None)
        ctx.count('batch_size', len(bs))
        if property_fails(probs):
            k, msg = primary_key_of(probs)
            ctx.violation('Batch.%s' % k, msg, case={'batch': bs}, expected='disjoint id ranges, every placeholder bound to its own statement\'s value',
                          actual=[m for _, m in probs][:4], theorem='C37_batch')
        if parsed is None:
            continue
        items = [(k, H.canon_val(v)) for k, v in params.items()]
        cases.append("(let '(rs, ps) := batch_exec 0 [%s] [] in list_eqb rendered_eqb rs [%s] && dict_eqb ps %s)"
                     % ('; '.join(H.coq_stmt(s) for s in bs), '; '.join(H.coq_rendered(p['parts']) for p in parsed), H.coq_dict(items)))
        meta.append(('batch', bs, text))

    # ---- query-set chains
    M = H.chain_model()
    from cassandra.cqlengine import CQLEngineException
    for _ in range(220 if quick else 1200):
        ops = H.gen_chain(rng)
        action = rng.choice(['select', 'select', 'delete', 'update'])
        try:
            qs = H.apply_chain(M.objects, ops)
        except (CQLEngineException, TypeError) as e:
            ctx.count('chain_error', type(e).__name__)
            continue
        ctx.count('chain_action', action)
        ctx.count('chain_len', len(ops))
        for o in ops:
            ctx.count('chain_op', o[0])
        chain = H.coq_chain(ops)
        if action == 'select':
            try:
                st = qs._select_query()
                text = str(st)
                parsed = H.parse_statement(text)
                ctxd = st.get_context()
            except CQLEngineException as e:
                ctx.count('chain_error', type(e).__name__)
                if 'No fields in select query' in str(e):
                    cases.append('match select_tail %s %s %s with None => true | Some _ => false end' % (H.zl(H.COLS), H.zl(H.PKS), chain))
                    meta.append(('chain-nofields', ops, None))
                    ctx.case(['chain', ops, action], nontrivial=False)
                continue
            except H.ParseError as e:
                ctx.violation('Select.unparseable-rendering', 'query set %r renders %r' % (ops, str(e)), case={'chain': ops, 'action': action},
                              expected='SELECT of the expected shape', actual=str(e), theorem='C37_parts')
                continue
            sel_objs = [('W', None, c) for c in st.where_clauses]
            probs = [p for p in chain_oracle(st, text, ctxd)]
            if probs:
                ctx.violation('Select.chain.%s' % probs[0][0], probs[0][1], case={'chain': ops, 'action': action}, expected='bijection', actual=[m for _, m in probs][:3],
                              theorem='C37_bijection')
            items = [(k, H.canon_val(v)) for k, v in ctxd.items()]
            ex = parsed['extra']
            order = []
            for o_ in ex['order']:
                m = re.fullmatch(r'"f(\d+)" (ASC|DESC)', o_)
                order.append((int(m.group(1)), m.group(2) == 'DESC') if m else (-7, False))
            fields = [int(x[1:]) if re.fullmatch(r'f\d+', x) else -7 for x in ex['fields']]
            tail = '(%s, [%s], %s, %s)' % (H.zl(fields), '; '.join('(%s, %s)' % (H.z(f), H.b(d)) for f, d in order), H.z(ex['limit']), H.b(ex['allow']))
            cases.append('obs_eqb (observe (select_stmt %s)) %s && tail_eqb (select_tail %s %s %s) %s'
                         % (chain, H.coq_obs(parsed, items), H.zl(H.COLS), H.zl(H.PKS), chain, tail))
            meta.append(('chain-select', ops, text))
            ctx.case(['chain', ops, action], nontrivial=len(st.where_clauses) >= 2, sample={'chain': ops, 'select': text})
            # requested filters, checked directly: one WHERE fragment per filter op, in order, same field and operator
            req = [(o[1] if o[0] == 'filter' else H.TOKEN_FIELD if o[0] == 'ftoken' else o[1][1], o[2] if o[0] == 'filter' else o[1] if o[0] == 'ftoken' else o[1][3])
                   for o in ops if o[0] in ('filter', 'ftoken', 'fraw')]
            got = [(fr[1], fr[0][2]) for fr in parsed['parts'][0][1]]
            if req != got:
                ctx.violation('Select.chain.where-differs-from-filters', 'filters requested %r, WHERE renders %r (%r)' % (req, got, text),
                              case={'chain': ops, 'action': action}, expected=req, actual=got, theorem='C37_parts_chain')
            else:
                fops = [o for o in ops if o[0] in ('filter', 'ftoken', 'fraw')]
                for o_, fr in zip(fops, parsed['parts'][0][1]):
                    if o_[0] == 'filter' and o_[4][0] == 'fn' and o_[2] != 2:
                        want = o_[4][2] - H.fn_off(o_[4]) * 60000
                        have = ctxd.get(str(fr[2][0]))
                        if have != want:
                            ctx.violation('Select.chain.TimeUUID-function.not-the-requested-instant',
                                          'filter %r: placeholder %%(%s)s is bound to %r ms, the datetime given is the instant %r ms (%r)' % (o_, fr[2][0], have, want, text),
                                          case={'chain': ops, 'action': action}, expected=want, actual=have, theorem='C37_own_value')
            continue
        with H.Recorder() as rec:
            try:
                if action == 'delete':
                    qs.delete()
                    assigns = None
                else:
                    assigns = H.gen_update_values(rng)
                    qs.update(**dict((kw, pv) for _, kw, pv in assigns))
            except CQLEngineException as e:
                ctx.count('chain_error', type(e).__name__)
                continue
        model_st = ('(delete_stmt %s)' % chain) if action == 'delete' else \
                   ('(update_stmt %s [%s])' % (chain, '; '.join(H.coq_clause(c) for c, _, _ in assigns)))
        ctx.case(['chain', ops, action, [a[0] for a in assigns] if assigns else None], nontrivial=True,
                 sample={'chain': ops, action: [c[0] for c in rec.calls]})
        if not rec.calls:
            cases.append('match s_assign %s with [] => true | _ => false end' % model_st)
            meta.append(('chain-' + action + '-nothing', ops, assigns and [a[0] for a in assigns]))
            continue
        text, params = rec.calls[0]
        try:
            parsed = H.parse_statement(text)
        except H.ParseError as e:
            ctx.violation('%s.chain.unparseable-rendering' % action, 'query set %r %s renders %r' % (ops, action, str(e)), case={'chain': ops, 'action': action},
                          expected='statement of the expected shape', actual=str(e), theorem='C37_parts')
            continue
        phs = re.findall(H.PH, text)
        if len(set(phs)) != len(phs) or set(phs) != set(params.keys()):
            ctx.violation('%s.chain.placeholders-differ-from-context' % action, 'query set %r %s: %r with %r' % (ops, action, text, sorted(params.keys(), key=int)),
                          case={'chain': ops, 'action': action, 'values': assigns and [a[0] for a in assigns]}, expected='bijection', actual=text, theorem='C37_bijection')
        items = [(k, H.canon_val(v)) for k, v in params.items()]
        cases.append('obs_eqb (observe %s) %s' % (model_st, H.coq_obs(parsed, items)))
        meta.append(('chain-' + action, ops, text))

    # ---- instance-level conditional updates: instance.iff(...).update(...) -> UPDATE ... IF all conditions; DELETE nulled IF the rest
    SC = {4: 'f4', 5: 'f5', 6: 'a6'}
    for _ in range(60 if quick else 600):
        cols = [4, 5, 6]
        conds = [(f, rng.choice([1, 2, 3])) for f in rng.sample(cols, rng.randint(1, 3))]
        upd = rng.sample(cols, rng.randint(1, 2))
        nulled = [f for f in cols if f not in upd][:rng.randint(1, 2)]
        if not nulled:
            nulled, upd = [upd[-1]], upd[:-1]
        newv = dict((f, rng.choice([7, 8, 9])) for f in upd)
        inst = M._construct_instance({'f0': 1, 'f1': 2, 'f2': 3, 'f3': 4, 'f4': 1, 'f5': 2, 'f6': 3})
        kw = dict((SC[f], newv[f]) for f in upd)
        kw.update((SC[f], None) for f in nulled)
        spec = {'conds': conds, 'update': newv, 'nulled': nulled}
        try:
            with H.Recorder() as rec:
                inst.iff(**dict((SC[f], v) for f, v in conds)).update(**kw)
            parsed = [H.parse_statement(t) for t, _ in rec.calls]
        except (CQLEngineException, H.ParseError) as e:
            ctx.violation('Model.update.iff.raises-or-unparseable', 'instance conditional update %r: %r' % (spec, e), case={'inst_update': spec},
                          expected='UPDATE + DELETE', actual=repr(e), theorem='C37_parts_instance_update')
            continue
        ctx.case(['inst_update', spec], nontrivial=True, sample={'inst_update': spec, 'emitted': [t for t, _ in rec.calls]})
        ctx.count('chain_action', 'instance-iff-update')
        prob = inst_update_oracle(spec, rec.calls, parsed)
        if prob:
            ctx.violation('Model.update.iff.%s' % prob[0], prob[1], case={'inst_update': spec}, expected='UPDATE IF all requested conditions; DELETE IF the requested '
                          'conditions on columns the UPDATE did not rewrite', actual=[t for t, _ in rec.calls], theorem='C37_parts_instance_update')
        if len(parsed) != 2:
            continue
        keys = '[' + '; '.join('CWhere %d true OpEQ (QPlain (VInt %d))' % (f, f + 1) for f in range(4)) + ']'
        cl = '[' + '; '.join('CWhere %d true OpEQ (QPlain (VInt %d))' % (f, v) for f, v in conds) + ']'
        asg = '[' + '; '.join('CAssign %d (VInt %d)' % (f, newv[f]) for f in sorted(upd)) + ']'
        model = '(inst_update_stmts %s %s %s %s)' % (keys, cl, asg, H.zl(sorted(nulled)))
        obs = [H.coq_obs(p_, [(k, H.canon_val(v)) for k, v in prm.items()]) for p_, (_, prm) in zip(parsed, rec.calls)]
        cases.append('obs_eqb (observe (fst %s)) %s && obs_eqb (observe (snd %s)) %s' % (model, obs[0], model, obs[1]))
        meta.append(('inst-update', spec, [t for t, _ in rec.calls]))

    if not ok:
        return
    prelude = '''
Definition tail_eqb (a : option (list Z * list (Z * bool) * Z * bool)) (b : list Z * list (Z * bool) * Z * bool) : bool :=
  match a with
  | None => false
  | Some (fs, od, lim, al) =>
    let '(fs', od', lim', al') := b in
    zlist_eqb fs fs' && list_eqb (fun x y => (fst x =? fst y) && Bool.eqb (snd x) (snd y)) od od' && (lim =? lim') && Bool.eqb al al'
  end.
'''
    try:
        bad = ctx.coq_filter(['Clauses'], '(fun b : bool => b)', cases, shard=120, prelude=prelude)
    except RuntimeError as e:
        ctx.proof_broken.append(('correspondence:Clauses', str(e)[-800:]))
        return
    for i in bad[:10]:
        kind, sp, extra = meta[i]
        ctx.disagreement('model-vs-impl.%s' % kind, 'model Clauses.v disagrees with cqlengine on %s %r (impl: %r)' % (kind, sp, extra),
                         case={kind: sp}, actual=extra, model=cases[i][:2000])
    ctx.assume('clauses are placed where cqlengine itself places them (Clauses_proofs.wf_add): WhereClause/IsNotNull in WHERE, '
               'WhereClause/ConditionalClause in IF, assignment-family clauses in SET, AssignmentClause only in INSERT, delete clauses in DELETE fields',
               'Token() values carry as many partition columns as values (enforced by AbstractQuerySet.filter); IN is not applied to Token/TimeUUID values')
    ctx.trust('harness CQL-text parser and canonicalisation (lib/vf/cqle_stmt.py)')


def inst_update_oracle(spec, calls, parsed):
    """independent of the model: which IF conditions each of the two statements must carry (db field ids, in request order)"""
    if len(parsed) != 2 or parsed[0]['kind'] != 'Update' or parsed[1]['kind'] != 'Delete':
        return ('statement-shapes', 'expected UPDATE then DELETE, got %r' % [t for t, _ in calls])
    want_u = [f for f, _ in spec['conds']]
    got_u = [fr[1] for fr in dict(parsed[0]['parts'])['C']]
    if got_u != want_u:
        return ('update-conditions-differ', 'UPDATE carries IF on %r, requested %r: %r' % (got_u, want_u, calls[0][0]))
    rewritten = set(fr[1] for fr in dict(parsed[0]['parts'])['A'])
    want_d = [f for f in want_u if f not in rewritten]
    got_d = [fr[1] for fr in dict(parsed[1]['parts'])['C']]
    if got_d != want_d:
        return ('delete-conditions-differ', 'the follow-up DELETE carries IF on columns %r, but the requested conditions on columns the UPDATE did not '
                'rewrite are %r (UPDATE rewrote %r): %r ; %r' % (got_d, want_d, sorted(rewritten), calls[0][0], calls[1][0]))
    for (text, prm), p_ in zip(calls, parsed):
        phs = re.findall(H.PH, text)
        if len(set(phs)) != len(phs) or set(phs) != set(prm.keys()):
            return ('placeholders-differ-from-context', '%r with %r' % (text, sorted(prm.keys(), key=int)))
        vals = dict(spec['conds'])
        for fr in dict(p_['parts'])['C']:
            if prm.get(str(fr[2][0])) != vals.get(fr[1]):
                return ('condition-value-differs', 'IF on column %d bound to %r, requested %r: %r' % (fr[1], prm.get(str(fr[2][0])), vals.get(fr[1]), text))
    return None


def chain_oracle(st, text, ctxd):
    phs = re.findall(H.PH, text)
    if len(set(phs)) != len(phs):
        yield ('duplicate-placeholder', 'duplicate placeholders in %r' % text)
    if set(phs) != set(ctxd.keys()):
        yield ('placeholders-differ-from-context', 'placeholders %s, context keys %s: %r' % (phs, sorted(ctxd.keys(), key=int), text))
    for c in st.where_clauses:
        ids = re.findall(H.PH, str(c))
        own = {}
        c.update_context(own)
        if set(ids) != set(own.keys()):
            yield ('WhereClause.own-context-differs', '%r renders %s, supplies %s' % (str(c), ids, sorted(own.keys())))
        for i in ids:
            if i in own and i in ctxd and H.canon_val(own[i]) != H.canon_val(ctxd[i]):
                yield ('WhereClause.foreign-value', 'placeholder %s of %r bound to %r' % (i, str(c), ctxd[i]))


def replay(ctx, rp):
    from vf.impl import import_cluster
    import_cluster()
    case = rp.get('case') or {}
    if 'stmt' in case:
        st, objs = H.build_real(case['stmt'])
        probs = property_fails(H.oracle(st, objs, case['stmt'][0]))
        print('replay %r' % (case['stmt'],))
        print('  rendered: %s' % str(st))
        print('  context : %r' % st.get_context())
        for k, m in probs:
            print('  %s: %s' % (k, m))
        print(('VIOLATION property=C37 replay=%s' % ctx.replay_path) if probs else 'not reproduced')
        return 1 if probs else 0
    if 'batch' in case:
        sts, text, params = run_batch_impl(case['batch'])
        probs, _ = batch_oracle(case['batch'], sts, text, params)
        probs = property_fails(probs)
        print('replay batch %r\n%s\n%r' % (case['batch'], text, params))
        for k, m in probs:
            print('  %s: %s' % (k, m))
        print(('VIOLATION property=C37 replay=%s' % ctx.replay_path) if probs else 'not reproduced')
        return 1 if probs else 0
    if 'inst_update' in case:
        spec = case['inst_update']
        M = H.chain_model()
        SC = {4: 'f4', 5: 'f5', 6: 'a6'}
        inst = M._construct_instance({'f0': 1, 'f1': 2, 'f2': 3, 'f3': 4, 'f4': 1, 'f5': 2, 'f6': 3})
        kw = dict((SC[int(f)], v) for f, v in spec['update'].items())
        kw.update((SC[f], None) for f in spec['nulled'])
        with H.Recorder() as rec:
            inst.iff(**dict((SC[f], v) for f, v in spec['conds'])).update(**kw)
        for t, prm in rec.calls:
            print('  %s   %r' % (t, prm))
        prob = inst_update_oracle(spec, rec.calls, [H.parse_statement(t) for t, _ in rec.calls])
        print(('VIOLATION property=C37 replay=%s  (%s)' % (ctx.replay_path, prob[1])) if prob else 'not reproduced')
        return 1 if prob else 0
    if 'chain' in case:
        M = H.chain_model()
        qs = H.apply_chain(M.objects, case['chain'])
        st = qs._select_query()
        text = str(st)
        probs = list(chain_oracle(st, text, st.get_context()))
        ctxd = st.get_context()
        fops = [o for o in case['chain'] if o[0] in ('filter', 'ftoken', 'fraw')]
        for o_, fr in zip(fops, H.parse_statement(text)['parts'][0][1]):
            if o_[0] == 'filter' and o_[4][0] == 'fn' and o_[2] != 2 and ctxd.get(str(fr[2][0])) != o_[4][2] - H.fn_off(o_[4]) * 60000:
                probs.append(('instant', 'placeholder %s bound to %r, instant given %r' % (fr[2][0], ctxd.get(str(fr[2][0])), o_[4][2] - H.fn_off(o_[4]) * 60000)))
        print('replay chain %r -> %s %r' % (case['chain'], text, st.get_context()))
        print(('VIOLATION property=C37 replay=%s' % ctx.replay_path) if probs else 'not reproduced (select form)')
        return 1 if probs else 0
    print('nothing to replay: %s' % rp.get('theorem'))
    return 1
