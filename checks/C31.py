"""C31 -- client-side timestamps strictly increase across all threads.

(T) _next_timestamp is regenerated into coq/Gen/Timestamps.v; Props/C31.v proves strictness for every clock
sequence, one call = one atomic step.  The atomicity assumption is CHECKED on the source (lock audit).
(C) the real generator is run with a scripted clock and compared with the model; real threads with a stuck /
backward clock check global distinctness.
"""
import ast, itertools, os, sys, threading
from vf import py2coq, core
from vf.specs import timestamps

META = {
    'technique': 'Coq proof (induction over call sequences) on source-translated _next_timestamp + lock-region audit + scripted-clock correspondence',
    'level_text': 'C31_strict / C31_not_behind / C31_one_per_call / C31_above_state proved for every initial state and every '
                  'clock-reading sequence over Gallina regenerated from cassandra/timestamps.py; each call is one atomic step, '
                  'which an AST audit of __call__ (self.last read and written only under self.lock) checks on every run.',
    'level_note': 'Trusted: Coq kernel, py2coq, the lock audit, threading.Lock. Not modelled: int(time.time()*1e6) float conversion '
                  '(the reading is the model input); _maybe_warn (logging only).',
    'design_ref': 'DESIGN.md section 4, C31',
}


def gen(ctx):
    ctx.generate('Timestamps.v', lambda: py2coq.Translator(core.REPO, timestamps.fns()).emit())


def audit(src):
    """Returns list of problems with the atomicity assumption 'one __call__ = one atomic step'."""
    probs = []
    tree = ast.parse(src)
    cls = [n for n in tree.body if isinstance(n, ast.ClassDef) and n.name == 'MonotonicTimestampGenerator']
    if not cls:
        return ['class MonotonicTimestampGenerator not found']
    cls = cls[0]
    meths = {n.name: n for n in cls.body if isinstance(n, ast.FunctionDef)}
    call = meths.get('__call__')
    if call is None:
        return ['__call__ not found']
    body = [s for s in call.body if not (isinstance(s, ast.Expr) and isinstance(s.value, ast.Constant))]
    # statements before the locked region may compute the clock reading (an arbitrary input of the model)
    # but must not touch self.last
    pre = body[:-1]
    for st in pre:
        for n in ast.walk(st):
            if isinstance(n, ast.Attribute) and n.attr == 'last':
                probs.append('self.last accessed outside the locked region')
            # the reading must stay thread-local: nothing shared may be written before the lock is taken
            if isinstance(n, (ast.Assign, ast.AugAssign)):
                for t in (n.targets if isinstance(n, ast.Assign) else [n.target]):
                    if isinstance(t, ast.Attribute):
                        probs.append('shared attribute %s written outside the locked region' % ast.unparse(t))
    if not body or not isinstance(body[-1], ast.With):
        probs.append('__call__ does not end with a `with self.lock` region')
    else:
        w = body[-1]
        item = w.items[0].context_expr if len(w.items) == 1 else None
        if not (isinstance(item, ast.Attribute) and isinstance(item.value, ast.Name) and item.value.id == 'self' and item.attr == 'lock'):
            probs.append('__call__ does not hold self.lock')
        if not (len(w.body) == 1 and isinstance(w.body[0], ast.Return) and isinstance(w.body[0].value, ast.Call)):
            probs.append('body of the locked region is not `return self._next_timestamp(...)`')
        else:
            c = w.body[0].value
            f = c.func
            if not (isinstance(f, ast.Attribute) and f.attr == '_next_timestamp' and isinstance(f.value, ast.Name) and f.value.id == 'self'):
                probs.append('locked region does not call self._next_timestamp')
            kw = {k.arg: k.value for k in c.keywords}
            args = list(c.args)
            now = kw.get('now', args[0] if args else None)
            last = kw.get('last', args[1] if len(args) > 1 else None)
            if now is None:
                probs.append('no clock argument')
            else:
                nm = now
                if isinstance(nm, ast.Name):
                    # a local computed before the lock: find its defining expression
                    defs = [st.value for st in pre if isinstance(st, ast.Assign) and any(
                        isinstance(t, ast.Name) and t.id == nm.id for t in st.targets)]
                    nm = defs[-1] if defs else nm
                if not (isinstance(nm, ast.Call) and isinstance(nm.func, ast.Name) and nm.func.id == 'int'):
                    probs.append('the clock reading passed to _next_timestamp is not truncated to an integer (int(...))')
                if any(isinstance(x, ast.Attribute) and isinstance(x.value, ast.Name) and x.value.id == 'self'
                       for x in ast.walk(now)):
                    probs.append('the clock reading is taken from shared state (self.*) instead of a thread-local value')
            if not (isinstance(last, ast.Attribute) and last.attr == 'last' and isinstance(last.value, ast.Name) and last.value.id == 'self'):
                probs.append('`last` argument is not self.last read inside the locked region')
    # self.last written only in __init__ and _next_timestamp
    for name, m in meths.items():
        for n in ast.walk(m):
            if isinstance(n, (ast.Assign, ast.AugAssign)):
                ts = n.targets if isinstance(n, ast.Assign) else [n.target]
                for t in ts:
                    if isinstance(t, ast.Attribute) and t.attr == 'last' and name not in ('__init__', '_next_timestamp'):
                        probs.append('self.last written in %s' % name)
    lock_init = [n for n in ast.walk(meths.get('__init__', cls)) if isinstance(n, ast.Assign) and any(
        isinstance(t, ast.Attribute) and t.attr == 'lock' for t in n.targets)]
    if not lock_init:
        probs.append('self.lock is not created in __init__')
    return probs


class FakeReading(object):
    """stands for time.time(): `reading * 1e6` yields the scripted microseconds exactly; a scripted reading may
    carry a sub-microsecond fraction (k + 0.25 ...), as real float clocks do"""
    def __init__(self, us):
        self.us = us

    def __mul__(self, other):
        return self.us


class FakeTime(object):
    def __init__(self, readings, per_thread=None):
        self.readings = list(readings)
        self.i = 0
        self.lock = threading.Lock()
        self.per_thread = per_thread     # thread name -> list of readings (detsched runs)

    def time(self):
        if self.per_thread is not None:
            lst = self.per_thread[threading.current_thread().name]
            return FakeReading(lst.pop(0) if len(lst) > 1 else lst[0])
        with self.lock:
            r = self.readings[min(self.i, len(self.readings) - 1)]
            self.i += 1
        return FakeReading(r)


def reentrant_logging_probe():
    """The skew warning is logged while the generator's lock is held and BEFORE the new value is stored.  A logging handler
    that itself asks the generator for a timestamp (application handlers that write log records through the driver do) re-enters
    on the same thread: with a non-reentrant lock that call cannot proceed (no value is returned: nothing to compare); if the lock
    admits the owning thread again, every value returned -- nested or not -- must still be strictly increasing.  The probe
    re-enters only when the lock can be re-acquired by the calling thread.  Returns None or a description."""
    import logging
    import cassandra.timestamps as T
    for thr, itv in ((1, 1), (0, 0), (1, 0)):
        g = T.MonotonicTimestampGenerator(warn_on_drift=True, warning_threshold=thr, warning_interval=itv)
        vals = []

        class H(logging.Handler):
            def emit(self, record):
                try:
                    ok = g.lock.acquire(False)
                except Exception:
                    return
                if ok:
                    g.lock.release()
                    if len(vals) < 50:
                        vals.append(('nested', g()))
        h = H()
        old_time, old_prop, old_level = T.time, T.log.propagate, T.log.level
        T.log.addHandler(h)
        T.log.propagate = False
        T.log.setLevel(logging.WARNING)
        T.time = FakeTime([10 * 10**6, 10 * 10**6, 8 * 10**6, 8 * 10**6, 7 * 10**6, 12 * 10**6])
        try:
            for _ in range(6):
                vals.append(('call', g()))
        finally:
            T.time, T.log.propagate = old_time, old_prop
            T.log.setLevel(old_level)
            T.log.removeHandler(h)
        seq = [v for _, v in vals]
        for a, b in zip(seq, seq[1:]):
            if not b > a:
                return ('warning_threshold=%r warning_interval=%r, clock 10s,10s,8s,8s,7s,12s, a logging handler on cassandra.timestamps asks for a '
                        'timestamp during the skew warning: values in order of return %r' % (thr, itv, vals))
    return None


def run_impl(last0, clock, warn=False):
    import cassandra.timestamps as T
    g = T.MonotonicTimestampGenerator(warn_on_drift=warn, warning_threshold=0 if warn else 1, warning_interval=0 if warn else 1)
    g.last = last0
    old = T.time
    T.time = FakeTime(clock)
    try:
        return [g() for _ in clock]
    finally:
        T.time = old


def zl(v):
    return '(%d)' % v if v < 0 else '%d' % v


def zlist(l):
    return '[' + '; '.join(zl(x) for x in l) + ']'


def stress(ctx, nthreads, per, readings):
    import cassandra.timestamps as T
    g = T.MonotonicTimestampGenerator(warn_on_drift=False)
    old = T.time
    T.time = FakeTime(readings)
    out = [[] for _ in range(nthreads)]
    oldsw = sys.getswitchinterval()
    sys.setswitchinterval(1e-6)
    try:
        def work(k):
            for _ in range(per):
                out[k].append(g())
        ths = [threading.Thread(target=work, args=(k,)) for k in range(nthreads)]
        for t in ths:
            t.start()
        for t in ths:
            t.join()
    finally:
        sys.setswitchinterval(oldsw)
        T.time = old
    return out


class ChildOS(object):
    """stands for the `os` module as seen in a forked child: same as os, but another pid than at construction time"""
    def __init__(self, real):
        self._real = real
        self.shift = 0

    def getpid(self):
        return self._real.getpid() + self.shift

    def __getattr__(self, name):
        return getattr(self._real, name)


def explore_interleavings(ctx, child=False):
    """Directed search (not a proof): two real threads on the real generator, switched at source-line granularity
    under every schedule with at most two preemptions, with per-thread clock readings; then a third, later call.
    child=True: the generator was created in a parent process and the two calls are the first ones in a forked child
    (only meaningful when the module looks at the process id at all)."""
    from vf import detsched
    import cassandra.timestamps as T
    old = T.time
    old_os = getattr(T, 'os', None)
    if child and old_os is None:
        return
    n = 0
    try:
        for (ra, rb) in ((1, 1), (1, 2), (2, 1), (3, 1), (1, 3)):
            for sched in detsched.schedules_two_threads(14 if child else 9, 2):
                if child:
                    T.os = ChildOS(old_os)
                g = T.MonotonicTimestampGenerator(warn_on_drift=False)
                g.last = 0
                if child:
                    T.os.shift = 1
                ft = FakeTime([], per_thread={'A': [ra * 10**6], 'B': [rb * 10**6], 'C': [1]})
                T.time = ft

                def body(name):
                    def f():
                        threading.current_thread().name = name
                        return g()
                    return f
                r = detsched.Run([body('A'), body('B')], ['cassandra/timestamps.py'], sched).run()
                threading.current_thread().name = 'C'
                ft.per_thread[threading.current_thread().name] = [1]
                third = g()
                n += 1
                a, b = r.results
                ctx.case(['sched', ra, rb, sched], nontrivial=True)
                bad = None
                if r.errors[0] or r.errors[1] or a is None or b is None:
                    bad = 'call raised or did not finish: %r %r' % (r.errors, r.results)
                elif a == b:
                    bad = 'two threads returned the same timestamp %d' % a
                elif a < ra * 10**6 or b < rb * 10**6:
                    bad = 'a call returned a value behind its own clock reading (A read %d got %d, B read %d got %d)' % (ra * 10**6, a, rb * 10**6, b)
                elif not third > max(a, b):
                    bad = 'a later call returned %d, not above the earlier %d/%d' % (third, a, b)
                if bad:
                    ctx.violation('interleaving.' + bad.split(' ')[0] + '.' + bad.split(' ')[1], 'threads A (reads %ds) and B (reads %ds), schedule %r: %s' % (ra, rb, sched, bad),
                                  case={'threads': 'detsched', 'ra': ra, 'rb': rb, 'schedule': sched, 'child': child}, kind='interleaving',
                                  expected='distinct, not behind the own reading, later call larger', actual={'A': a, 'B': b, 'third': third},
                                  theorem='C31_strict/C31_not_behind')
                    return
    finally:
        T.time = old
        if old_os is not None:
            T.os = old_os
        threading.current_thread().name = 'MainThread'
    ctx.count('threaded_calls', 'detsched_schedules' + ('_child' if child else ''), n)


def run(ctx):
    gen(ctx)
    ok = ctx.prove('Props/C31.v')
    if ctx.tier == 'thorough' and ok:
        ctx.coqchk('Props/C31.v')
    src = open(os.path.join(core.REPO, 'cassandra/timestamps.py')).read()
    probs = audit(src)
    ctx.extra['lock_audit'] = probs or 'ok: self.last read and write both inside `with self.lock`'
    ctx.trust('lock-region audit of MonotonicTimestampGenerator.__call__ (checks/C31.py:audit)')
    if probs:
        ctx.proof_broken.append(('atomicity-audit', '; '.join(probs)))

    deltas = [-1000, -1, 0, 1, 1000]
    seqs = []
    maxlen = 6 if ctx.tier == 'thorough' else 4
    for n in range(1, maxlen + 1):
        for ds in itertools.product(deltas, repeat=n):
            seqs.append(ds)
    ctx.exhaustive = True
    extra = []
    for _ in range(300 if ctx.tier == 'quick' else 3000):
        n = ctx.rng.randint(1, 12)
        extra.append(tuple(ctx.rng.choice(deltas + [-10**9, 10**9, 7]) for _ in range(n)))
    ctx.rule = ('exhaustive clock-delta sequences over {-1000,-1,0,1,1000} of length <= %d from three initial states, plus random '
                'longer sequences; non-trivial = distinct sequence in which the clock stands still or goes backwards at least once' % maxlen)
    cases, meta = [], []
    for ds in seqs + extra:
        for last0, base in ((0, 5000), (10**15, 10**15), (10**15, 10**15 - 3)):
            clock, t = [], base
            for d in ds:
                t += d
                clock.append(t)
            got = run_impl(last0, clock)
            # the default configuration logs a skew warning (threshold/interval 0 here: it fires whenever it can): same values
            gotw = run_impl(last0, clock, warn=True)
            if gotw != got:
                ctx.violation('warn_on_drift.changes-the-values', 'clock %r from last=%d: warn_on_drift=False returns %r, warn_on_drift=True returns %r'
                              % (clock, last0, got, gotw), case={'last': last0, 'clock': clock, 'warn': True}, expected=got, actual=gotw, theorem='C31_strict')
            ctx.case([last0, clock], nontrivial=any(d <= 0 for d in ds), sample={'last': last0, 'clock': clock, 'returned': got})
            ctx.count('len', len(clock))
            prev = last0
            for now, r in zip(clock, got):
                if not (r > prev):
                    ctx.violation('not-strictly-increasing', 'generator returned %d after %d (clock %r from last=%d)' % (r, prev, clock, last0),
                                  case={'last': last0, 'clock': clock}, expected='strictly increasing', actual=got, theorem='C31_strict')
                    break
                if r < now:
                    ctx.violation('behind-clock', 'generator returned %d for clock reading %d' % (r, now),
                                  case={'last': last0, 'clock': clock}, expected='>= reading', actual=got, theorem='C31_not_behind')
                    break
                prev = r
            cases.append('py_list_eqb (run %s %s) %s' % (zl(last0), zlist(clock), zlist(got)))
            meta.append((last0, clock, got))
    if not any(x[0].startswith('translate:') for x in ctx.proof_broken):
        try:
            bad = ctx.coq_filter(['PyBase', 'Timestamps', 'Timestamp'], '(fun b : bool => b)', cases)
            for i in bad[:10]:
                last0, clock, got = meta[i]
                ctx.disagreement('model-vs-impl', 'model run differs from the generator at last=%d clock=%r (impl %r)' % (last0, clock, got),
                                 case={'last': last0, 'clock': clock}, actual=got)
        except RuntimeError as e:
            ctx.proof_broken.append(('correspondence:Timestamp', str(e)[-600:]))
    # real threads, stuck and backward clocks
    rounds = 3 if ctx.tier == 'quick' else 20
    for rd in range(rounds):
        readings = [10**15 - i * (rd % 3) for i in range(50)]
        outs = stress(ctx, 8, 300, readings)
        flat = [x for o in outs for x in o]
        ctx.count('threaded_calls', 'calls', len(flat))
        dup = len(flat) - len(set(flat))
        mono = all(all(a < b for a, b in zip(o, o[1:])) for o in outs)
        if dup or not mono:
            ctx.violation('threads-duplicate', '8 threads x 300 calls with a stuck clock: %d duplicate timestamps, per-thread increasing=%s' % (dup, mono),
                          case={'threads': 8, 'per_thread': 300, 'clock': 'stuck/backward', 'round': rd}, kind='interleaving',
                          expected='all distinct', actual={'duplicates': dup}, theorem='C31_strict')
            break
    # sub-microsecond fractions: the reading is truncated BEFORE it is compared (model input = floor of the reading)
    import math
    for _ in range(200 if ctx.tier == 'quick' else 3000):
        base = ctx.rng.randrange(10**6, 2**40)
        clock = []
        for _k in range(ctx.rng.randint(2, 6)):
            base += ctx.rng.choice([0, 0, 1, 2, -1])
            clock.append(base + ctx.rng.choice([0.0, 0.25, 0.5, 0.75]))
        got = run_impl(int(clock[0]) - 3, clock)
        ctx.case(['frac', clock], nontrivial=True)
        ctx.count('len', 'fractional')
        prev = int(clock[0]) - 3
        for now, r in zip(clock, got):
            if not (isinstance(r, int) and r > prev and r >= math.floor(now)):
                ctx.violation('fractional-reading.not-strictly-increasing', 'readings %r (us, with sub-microsecond fractions) -> %r' % (clock, got),
                              case={'last': int(clock[0]) - 3, 'clock': clock}, expected='strictly increasing integers', actual=got,
                              theorem='C31_strict')
                break
            prev = r
    explore_interleavings(ctx)
    explore_interleavings(ctx, child=True)
    # same-thread re-entry from a logging handler during the skew warning
    try:
        prob = reentrant_logging_probe()
    except Exception as e:
        prob = None
        ctx.proof_broken.append(('harness:reentrant_logging_probe', repr(e)[:300]))
    ctx.case(['reentrant-logging'], nontrivial=True)
    if prob:
        ctx.violation('reentrant.not-strictly-increasing', prob, case={'probe': 'reentrant_logging_probe'}, kind='interleaving',
                      expected='strictly increasing in order of return', actual=prob, theorem='C31_strict')
    ctx.assume('one MonotonicTimestampGenerator.__call__ is one atomic step (checked by the lock audit)',
               'the clock reading int(time.time()*1e6) is an arbitrary integer input of the model')


def replay(ctx, rp):
    case = rp.get('case') or {}
    if case.get('probe') == 'reentrant_logging_probe':
        prob = reentrant_logging_probe()
        print('replay probe: %s' % (prob or 'ok'))
        print(('VIOLATION property=C31 replay=%s' % ctx.replay_path) if prob else 'not reproduced')
        return 1 if prob else 0
    if 'clock' in case and isinstance(case['clock'], list):
        got = run_impl(case['last'], case['clock'], warn=bool(case.get('warn')))
        if case.get('warn') and got != run_impl(case['last'], case['clock']):
            print('replay: warn_on_drift=True returns %r, False returns %r' % (got, run_impl(case['last'], case['clock'])))
            print('VIOLATION property=C31 replay=%s' % ctx.replay_path)
            return 1
        print('replay last=%r clock=%r -> %r' % (case['last'], case['clock'], got))
        prev, bad = case['last'], False
        for now, r in zip(case['clock'], got):
            if not (r > prev) or r < now:
                bad = True
            prev = r
        print(('VIOLATION property=C31 replay=%s' % ctx.replay_path) if bad else 'not reproduced')
        return 1 if bad else 0
    if case.get('threads') == 'detsched':
        from vf import detsched
        import cassandra.timestamps as T
        old = T.time
        old_os = getattr(T, 'os', None)
        try:
            if case.get('child') and old_os is not None:
                T.os = ChildOS(old_os)
            g = T.MonotonicTimestampGenerator(warn_on_drift=False)
            g.last = 0
            if case.get('child') and old_os is not None:
                T.os.shift = 1
            T.time = FakeTime([], per_thread={'A': [case['ra'] * 10**6], 'B': [case['rb'] * 10**6]})

            def body(name):
                def f():
                    threading.current_thread().name = name
                    return g()
                return f
            r = detsched.Run([body('A'), body('B')], ['cassandra/timestamps.py'], case['schedule']).run()
        finally:
            T.time = old
            if old_os is not None:
                T.os = old_os
        a, b = r.results
        print('detsched replay: A=%r B=%r (readings %ds / %ds)' % (a, b, case['ra'], case['rb']))
        bad = a is None or b is None or a == b or a < case['ra'] * 10**6 or b < case['rb'] * 10**6
        print(('VIOLATION property=C31 replay=%s' % ctx.replay_path) if bad else 'not reproduced')
        return 1 if bad else 0
    if case.get('threads'):
        outs = stress(ctx, case['threads'], case['per_thread'], [10**15] * 10)
        flat = [x for o in outs for x in o]
        dup = len(flat) - len(set(flat))
        print('threaded replay: duplicates=%d' % dup)
        print(('VIOLATION property=C31 replay=%s' % ctx.replay_path) if dup else 'not reproduced')
        return 1 if dup else 0
    print('nothing to replay: %s' % rp.get('theorem'))
    return 1
