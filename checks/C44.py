"""C44 -- heartbeats detect dead idle connections without leaking capacity.
The body of the REAL ConnectionHeartbeat.run is executed round by round (thread never started, _shutdown_event scripted,
lib/vf/conn_hb.py) over real Connection objects owned by real HostConnection holders; replies are scripted
(supported / error / silent), traffic between rounds makes connections busy.  After every model step the real
connection is compared with Model/Conn.v; the statement is checked per round by a Python oracle."""
import json
from vf import core, conn_corr, conn_impl, conn_check, conn_hb

META = {
    'technique': 'Coq theorems on the heartbeat steps of the Conn model + round-by-round execution of the real ConnectionHeartbeat.run body with '
                 'scripted replies, compared with the model at every step, statement checked by an oracle',
    'level_text': 'C44_busy_skipped, C44_failed_defunct, C44_owner_notified, C44_at_threshold_not_sent hold in every state; C44_idle_get_heartbeat, '
                  'C44_capacity_preserved_instances, C44_failed_round_instances are computed instances.',
    'level_note': 'PARTIAL: capacity preservation for an arbitrary state / number of rounds is checked on the real code every round, not proved in general. '
                  'Real waiting (Event.wait timeouts) is scripted.',
    'design_ref': 'DESIGN.md section 4 C44',
}


def run_legacy(stats, rounds_after=1, version=2):
    """ONE real HostConnectionPool (v1/v2 pool class) holding len(stats) real connections; stats[k] in {'dead','idle','busy'} is the state
    of connection k at the start of the round ('dead' = closed by a clean server EOF, not yet signalled to the pool).
    Returns (harnesses, decisions actually taken per listed connection, violations)."""
    hs = [conn_impl.Harness(n_init=2, max_in_flight=4, thr=2, protocol_version=version) for _ in stats]
    pool = conn_hb.make_legacy_pool(hs)
    for k, st in enumerate(stats):
        if st == 'dead':
            hs[k].conn.close()
            hs[k].checkpoint()
        elif st == 'busy':
            hs[k].do({'a': 'push_event'})
    for h in hs:
        h.traffic_before = h.traffic
    report = conn_hb.run_rounds(hs, [{'replies': ['supported'] * len(hs)}], holders=[pool])
    out, decisions = [], []
    for k, (st, h) in enumerate(zip(stats, hs)):
        told = len([e for e in h.events if e == [12]])
        sent = report[0][k]['sent']
        decisions.append(0 if told else 1 if sent else 2 if h.conn.is_idle and st == 'busy' else -1)
        where = 'connection %d of the pool (listed after %r)' % (k, stats[:k])
        if st == 'dead' and not told:
            out.append(('dead-owner-not-notified.legacy-pool', '%s is closed but its owner was not told' % where))
        if st == 'idle':
            if not sent:
                out.append(('idle-no-heartbeat.legacy-pool', '%s is idle and alive but got NO heartbeat in this round' % where))
            elif h.conn.is_defunct or h.conn.in_flight != 0:
                out.append(('capacity-changed.legacy-pool', '%s: successful heartbeat left in_flight=%d defunct=%s' % (where, h.conn.in_flight, h.conn.is_defunct)))
        if st == 'busy':
            if sent:
                out.append(('busy-got-heartbeat.legacy-pool', '%s received traffic but got a heartbeat' % where))
            if not h.conn.is_idle:
                out.append(('busy-idle-flag-not-reset.legacy-pool', '%s received traffic; its idle flag was not reset in this round' % where))
    return hs, decisions, out


def run_group(nholders, rounds, T=100):
    """nholders real connections (one real HostConnection owner each) through the REAL run() for len(rounds) rounds; returns
    (harnesses, report, violations) -- the oracle reads only scripted facts (reply kind, arrival instant vs T) and the connections"""
    group = [conn_impl.Harness(n_init=2, max_in_flight=4, thr=2) for _ in range(nholders)]
    pre = [(g.conn.in_flight, sorted(g.conn.request_ids)) for g in group]
    report = conn_hb.run_rounds(group, rounds, T=T)
    out = []
    dead = [False] * nholders
    for rd, r in enumerate(rounds):
        for k in range(nholders):
            if dead[k]:
                continue
            d = (r.get('delays') or [None] * nholders)[k] or 0
            fails = r['replies'][k] != 'supported' or d > T
            if fails:
                dead[k] = True
    for k, g in enumerate(group):
        told = len([e for e in g.events if e == [12]])
        if dead[k]:
            if not g.conn.is_defunct:
                out.append(('failed-heartbeat-not-defunct' + ('.reply-during-wait' if g.hb_early_wakes else ''),
                            'holder %d: its heartbeat failed (replies per round %r, arrival instants %r, T=%d) but the connection is not defunct%s'
                            % (k, [r['replies'][k] for r in rounds], [(r.get('delays') or [0] * nholders)[k] for r in rounds], T,
                               ('; schedule: the heartbeat thread was blocked in HeartbeatFuture.wait() when the failing reply came in; it woke up when '
                               '_event was set and read _exception before the callback had stored it') if g.hb_early_wakes else '')))
            if not told:
                out.append(('failed-heartbeat.wrong-owner-notified', 'holder %d: its owner was never told about the failed heartbeat' % k))
        else:
            if g.conn.is_defunct or told:
                out.append(('healthy-connection-failed' + ('.slow-staggered-replies' if any(r.get('delays') for r in rounds) else ''),
                            'holder %d answered every heartbeat within the timeout T=%d (arrival instants per round %r) but was marked defunct=%s / its owner '
                            'notified %d times' % (k, T, [(r.get('delays') or [0] * nholders)[k] for r in rounds], g.conn.is_defunct, told)))
            elif g.conn.in_flight != pre[k][0] or sorted(g.conn.request_ids) != pre[k][1]:
                out.append(('capacity-changed' + ('.after-aborted-round' if any(r.get('raise_in_owner') for r in rounds) else ''),
                            'holder %d: %d successful heartbeats (no failure of its own) changed its capacity: in_flight %d -> %d, free ids %r -> %r; waits on '
                            'futures of an EARLIER round: %d' % (k, len(rounds), pre[k][0], g.conn.in_flight, pre[k][1], sorted(g.conn.request_ids), g.hb_stale_waits)))
    return group, report, out


def run(ctx):
    ok = ctx.prove('Props/C44.v')
    if ctx.tier == 'thorough' and ok:
        ctx.coqchk('Props/C44.v')
    conn_check.run_audit(ctx)
    ctx.assume('HeartbeatFuture.wait timeouts are scripted (timeout 0: a reply either arrived before the wait or never)')
    hs = []
    n = 40 if ctx.tier == 'quick' else 400
    for k in range(n):
        rng = ctx.rng
        cfg = conn_check.gen_cfg(rng)
        cfg['control'] = rng.random() < 0.4      # holder of a CONTROL connection (run() treats it differently)
        ctx.count('owner', 'control-connection' if cfg['control'] else 'pool')
        h = conn_impl.Harness(**cfg)
        acts = []
        rounds = rng.randint(1, 5)
        tok = 0
        for rd in range(rounds):
            # optional traffic before the round
            busy = False
            for _ in range(rng.randint(0, 2)):
                if h.pool_has_conn() and not h.conn.is_defunct:
                    tok += 1
                    acts.append({'a': 'query', 'r': tok, 'in_cb': [{'a': 'return'}]})
                    h.do(acts[-1])
                    if h.wire and rng.random() < 0.7:
                        acts.append({'a': 'respond', 'i': h.wire[0][0], 'd': 'DOk'})
                        h.do(acts[-1])
                        busy = True
            if rng.random() < 0.3 and not h.conn.is_closed:
                # the only traffic of the interval may be a server-pushed EVENT frame (stream -1), through the real process_msg
                acts.append({'a': 'push_event'})
                h.do(acts[-1])
                ctx.count('traffic', 'pushed-event-only' if not busy else 'responses+event')
            reply = rng.choices(['supported', 'error', 'silent'], [6, 1, 1])[0]
            c = h.conn
            # "idle" is decided by the harness from the frames it fed since the last round, NOT by reading the connection's own flag
            pre = {'in_flight': c.in_flight, 'free': sorted(c.request_ids), 'dead': bool(c.is_defunct or c.is_closed), 'idle': not h.traffic,
                   'flag_idle': bool(c.is_idle),
                   'nev': len(h.events), 'cap': c.in_flight >= c.__dict__['_mri_real'], 'has': h.pool_has_conn()}
            acts.append({'a': 'hb_round', 'reply': reply})
            if reply == 'supported' and rng.random() < 0.4:
                tok += 1
                acts[-1]['race_borrow'] = tok    # a borrower's locked in_flight += 1 tries to run inside run()'s `in_flight -= 1`
            raced0, held0 = h.hb_race_ran, len(h.held)
            if not pre['has']:
                acts.pop()
                break
            try:
                h.do(acts[-1])
            except Exception as e:
                h.problems.append('exception escaped: %r' % (e,))
            h.checkpoint()
            new = h.events[pre['nev']:]
            sent = [e for e in new if e[0] == 0 and e[2] >= 1000]
            notified = [e for e in new if e == [12]]
            ctx.count('round', ('dead' if pre['dead'] else 'busy' if not pre['idle'] else 'cap' if pre['cap'] else reply))
            case = {'cfg': cfg, 'actions': list(acts)}
            if pre['dead']:
                if not notified:
                    ctx.violation('dead-owner-not-notified', 'owner not told about a defunct/closed connection', case=case, theorem='C44_owner_notified')
            elif not pre['idle']:
                if sent:
                    ev_only = acts[-2]['a'] == 'push_event' and (len(acts) < 3 or acts[-3]['a'] != 'respond')
                    ctx.violation('busy-got-heartbeat' + ('.pushed-event' if acts[-2]['a'] == 'push_event' else ''),
                                  'heartbeat sent on a connection that received traffic during the interval (%s); its own idle flag said idle=%s'
                                  % ('a server-pushed EVENT frame' if acts[-2]['a'] == 'push_event' else 'responses', pre['flag_idle']),
                                  case=case, theorem='C44_busy_skipped / C44_pushed_event_is_traffic')
                if not c.is_idle:
                    ctx.violation('busy-idle-flag-not-reset', 'idle flag not reset after the skipped round', case=case, theorem='C44_busy_skipped')
            elif pre['cap']:
                pass
            else:
                if not sent:
                    ctx.violation('idle-no-heartbeat', 'idle connection got no heartbeat', case=case, theorem='C44_idle_get_heartbeat')
                if reply == 'supported':
                    borrowed = len(h.held) - held0
                    if h.hb_race_ran > raced0 and c.in_flight != pre['in_flight'] + borrowed:
                        ctx.violation('capacity-changed.lost-update', 'schedule: heartbeat thread reads in_flight=%d for its `in_flight -= 1` WITHOUT the lock; a borrower '
                                      'runs borrow_connection (locked in_flight += 1, id %r); heartbeat thread writes %d: in_flight=%d but %d ids are in use'
                                      % (pre['in_flight'] + 1, sorted(h.held.values()), pre['in_flight'], c.in_flight, pre['in_flight'] + borrowed),
                                      case=case, kind='interleaving', theorem='C44_capacity_preserved_instances / lock audit')
                    elif borrowed:
                        pass
                    elif c.in_flight != pre['in_flight'] or (sorted(c.request_ids) != pre['free'] and pre['free']) or c.is_defunct:
                        ctx.violation('capacity-changed', 'successful heartbeat changed capacity: in_flight %d -> %d, free %r -> %r, defunct=%s'
                                      % (pre['in_flight'], c.in_flight, pre['free'], sorted(c.request_ids), c.is_defunct), case=case,
                                      theorem='C44_capacity_preserved_instances')
                else:
                    if not c.is_defunct or not notified:
                        ctx.violation('failed-heartbeat-not-defunct' + ('.control-connection' if cfg['control'] else ''),
                                      'heartbeat reply=%s on a %s connection: defunct=%s owner notified=%s' % (reply, 'CONTROL' if cfg['control'] else 'pool', c.is_defunct, bool(notified)),
                                      case=case, theorem='C44_failed_defunct')
        hs.append(('hb', cfg, acts, h))
        ctx.case([cfg, acts], nontrivial=rounds >= 2, sample={'cfg': cfg, 'actions': acts[:8], 'model_ops': conn_corr.all_ops(h)[:16]})
        for p in h.problems:
            ctx.disagreement('harness-problem', p[:300], case={'cfg': cfg, 'actions': acts})
    # several holders in ONE round (one real connection + real HostConnection owner each): WHICH owner hears about a failed heartbeat
    import itertools
    perms = list(itertools.permutations(['silent', 'error', 'supported'])) + [('silent', 'supported', 'supported'), ('supported', 'error', 'supported', 'supported')]
    for replies in perms:
        for pre_traffic in (False, True):
            cfgs = [dict(n_init=2, max_in_flight=4, thr=2) for _ in replies]
            group = [conn_impl.Harness(**c) for c in cfgs]
            gacts = [[] for _ in replies]
            if pre_traffic:
                for k, g in enumerate(group):
                    a = {'a': 'query', 'r': 1, 'in_cb': [{'a': 'return'}]}
                    g.do(a)
                    gacts[k].append(a)
                    g.traffic = False
            conn_hb.run_round(group, list(replies))
            for k, g in enumerate(group):
                g.checkpoint()
                told = len([e for e in g.events if e == [12]])
                case = {'holders': list(replies), 'pre_traffic': pre_traffic, 'holder': k}
                ctx.case(['holders', list(replies), pre_traffic, k], nontrivial=True,
                         sample={'holders': list(replies), 'holder': k, 'defunct': g.conn.is_defunct, 'owner_notified': told,
                                 'shutdown_on_error': g.pool.shutdown_on_error})
                ctx.count('round', 'multi-holder-' + replies[k])
                if replies[k] in ('silent', 'error'):
                    if not g.conn.is_defunct:
                        ctx.violation('failed-heartbeat-not-defunct', 'holder %d (%s) of %r: connection not defunct' % (k, replies[k], replies), case=case,
                                      theorem='C44_failed_defunct')
                    if told != 1 or not g.pool.shutdown_on_error:
                        others = [j for j, o in enumerate(group) if j != k and (len([e for e in o.events if e == [12]]) > (1 if replies[j] != 'supported' else 0))]
                        ctx.violation('failed-heartbeat.wrong-owner-notified', 'holders %r: the heartbeat of holder %d failed (%s) but ITS owner got %d return_connection calls '
                                      '(shutdown_on_error=%s); notified instead: holders %r' % (list(replies), k, replies[k], told, g.pool.shutdown_on_error, others),
                                      case=case, theorem='C44_owner_notified')
                else:
                    if told or g.pool.shutdown_on_error or g.conn.is_defunct:
                        ctx.violation('healthy-owner-notified', 'holders %r: holder %d answered SUPPORTED but its owner was told about a failure (%d calls, shutdown_on_error=%s)'
                                      % (list(replies), k, told, g.pool.shutdown_on_error), case=case, theorem='C44_capacity_preserved_instances')
                if not g.problems:
                    hs.append(('holders', cfgs[k], gacts[k], g))
    # (a) >= 3 heartbeats in one round with slow, staggered replies in VIRTUAL time: every future has the same deadline T;
    # (b) a round aborted by an exception from the owner's failure handling, followed by further rounds (nothing may be left over)
    T = 100
    plans = [(3, [{'replies': ['supported'] * 3, 'delays': [40, 60, 90]}]),
             (4, [{'replies': ['supported'] * 4, 'delays': [30, 30, 80, 99]}]),
             (3, [{'replies': ['supported', 'silent', 'supported'], 'delays': [50, None, 95]}]),
             (3, [{'replies': ['supported'] * 3, 'delays': [40, 60, 130]}]),
             (3, [{'replies': ['silent', 'supported', 'supported'], 'raise_in_owner': [0]}, {'replies': ['silent', 'supported', 'supported']}]),
             (3, [{'replies': ['supported', 'error', 'supported'], 'raise_in_owner': [1]}, {'replies': ['supported'] * 3}, {'replies': ['supported'] * 3}]),
             (2, [{'replies': ['supported', 'supported']}, {'replies': ['supported', 'supported'], 'delays': [10, 70]}]),
             # a FAILING reply that comes in while the heartbeat thread is already blocked in wait()
             (3, [{'replies': ['error', 'supported', 'supported'], 'delays': [30, 10, 50]}]),
             (3, [{'replies': ['supported', 'error', 'error'], 'delays': [20, 40, 0]}]),
             (1, [{'replies': ['error'], 'delays': [60]}])]
    for _ in range(12 if ctx.tier == 'quick' else 150):
        n = rng.randint(3, 5)
        rs = []
        for _r in range(rng.randint(1, 3)):
            rs.append({'replies': [rng.choices(['supported', 'silent', 'error'], [5, 1, 1])[0] for _k in range(n)],
                       'delays': [rng.choice([0, 5, 20, 35, 45, 60, 75, 90, 99, 120]) for _k in range(n)]})
            # an exception from the owner's failure handling aborts the round (run() logs it): script it only where the statement still says
            # what must hold -- exactly one connection fails in that round, it is still alive at the round's start, and it is the one whose
            # owner raises (anything else in an aborted round is handled one interval later by the real code)
            alive = [k for k in range(n) if all(r0['replies'][k] == 'supported' and (r0['delays'][k] or 0) <= T for r0 in rs[:-1])]
            failing = [k for k in alive if rs[-1]['replies'][k] != 'supported' or rs[-1]['delays'][k] > T]
            if rng.random() < 0.3 and len(failing) == 1 and len(alive) == n:
                rs[-1]['raise_in_owner'] = failing
        plans.append((n, rs))
    dl_exprs, dl_meta = [], []
    for n, rs in plans:
        group, report, found = run_group(n, rs, T)
        case = {'group': n, 'rounds': rs, 'T': T}
        ctx.case(['group', n, rs], nontrivial=True, sample={'holders': n, 'rounds': rs, 'waited_ok': [[x['waited_ok'] for x in r] for r in report]})
        ctx.count('round', 'group-%d-rounds-%d' % (n, len(rs)))
        for key, what in found:
            ctx.violation(key, what + '; rounds=%s' % json.dumps(rs), case=case, kind='history', theorem='C44_shared_deadline / C44_rounds_independent')
        for g in group:
            for p in g.problems:
                ctx.disagreement('harness-problem', p[:300], case=case)
        # the wait phase against Model/Heartbeat.v: per round, the futures run() waited for, in order
        for rd, r in enumerate(rs):
            ks = [k for k in range(n) if report[rd][k]['sent'] and report[rd][k]['waited_ok'] is not None]
            arr = ['None' if r['replies'][k] == 'silent' else '(Some %d)' % ((r.get('delays') or [0] * n)[k] or 0) for k in ks]
            got = [conn_corr.b(report[rd][k]['waited_ok']) for k in ks]
            if all(r['replies'][k] != 'error' for k in ks):
                dl_exprs.append('bools_eqb (wait_phase %d [%s]) [%s]' % (T, '; '.join(arr), '; '.join(got)))
                dl_meta.append((case, rd))
    try:
        for i in ctx.coq_filter(['Heartbeat'], '(fun b : bool => b)', dl_exprs, shard=200)[:5]:
            ctx.disagreement('model-vs-impl.wait-phase', 'Model/Heartbeat.v wait_phase differs from run() in round %d of %r' % (dl_meta[i][1], dl_meta[i][0]), case=dl_meta[i][0])
    except RuntimeError as e:
        ctx.proof_broken.append(('correspondence:Heartbeat', str(e)[-600:]))
    # (c) a REAL HostConnectionPool (v1/v2 pool class, several connections per host) as holder: every connection it listed at the
    # start of the round is visited, also the one right behind a closed-but-unsignalled connection
    import itertools as _it
    lg_exprs, lg_meta = [], []
    for n in (2, 3, 4):
        for stats in _it.product(['dead', 'idle', 'busy'], repeat=n):
            if 'dead' not in stats or (ctx.tier == 'quick' and n == 4 and ctx.rng.random() < 0.7):
                continue
            for version in (2, 1):
                if version == 1 and ctx.rng.random() < 0.7:
                    continue
                lhs, decisions, found = run_legacy(stats, version=version)
                case = {'legacy': list(stats), 'version': version}
                ctx.case(['legacy', list(stats), version], nontrivial=True, sample={'pool': 'HostConnectionPool', 'protocol': version, 'listed': list(stats), 'decisions': decisions})
                ctx.count('round', 'legacy-pool-%d' % n)
                for key, what in found:
                    ctx.violation(key, what + '; connections listed by the pool at the start of the round: %r (protocol v%d)' % (list(stats), version), case=case,
                                  kind='history', theorem='C44_every_listed_connection_visited')
                for g in lhs:
                    for pr in g.problems:
                        ctx.disagreement('harness-problem', pr[:300], case=case)
                    hs.append(('legacy', dict(n_init=2, max_in_flight=4, thr=2, protocol_version=version), [], g))
                code = {'dead': 'CDead', 'idle': 'CIdle', 'busy': 'CBusy'}
                lg_exprs.append('zs_eqb (map decision_code (send_phase [%s])) %s' % ('; '.join(code[x] for x in stats), conn_corr.zl(decisions)))
                lg_meta.append(case)
    try:
        for i in ctx.coq_filter(['Heartbeat'], '(fun b : bool => b)', lg_exprs, shard=200)[:5]:
            ctx.disagreement('model-vs-impl.send-phase', 'Model/Heartbeat.v send_phase differs from run() over a HostConnectionPool for %r' % (lg_meta[i],), case=lg_meta[i])
    except RuntimeError as e:
        ctx.proof_broken.append(('correspondence:Heartbeat-send-phase', str(e)[-600:]))
    ctx.exhaustive = False
    ctx.rule = '1-5 heartbeat rounds per connection with random traffic in between and replies supported/error/silent; non-trivial = at least 2 rounds'
    conn_check.compare_with_model(ctx, hs, 'C44')


def key_is_busy(rp):
    return (rp.get('key') or '').startswith('busy-got-heartbeat')


def replay(ctx, rp):
    case = rp.get('case') or {}
    if case.get('legacy'):
        lhs, decisions, found = run_legacy(tuple(case['legacy']), version=case.get('version', 2))
        print('listed', case['legacy'], 'decisions (0 owner told, 1 heartbeat, 2 idle flag reset, -1 none)', decisions)
        print('oracle', found)
        print(('VIOLATION property=C44 replay=%s' % ctx.replay_path) if found else 'not reproduced')
        return 1 if found else 0
    if case.get('rounds'):
        group, report, found = run_group(case['group'], case['rounds'], case.get('T', 100))
        for k, g in enumerate(group):
            print('holder %d: defunct=%s in_flight=%d owner notified=%d stale waits=%d' % (k, g.conn.is_defunct, g.conn.in_flight,
                                                                                           len([e for e in g.events if e == [12]]), g.hb_stale_waits))
        print('oracle', found)
        print(('VIOLATION property=C44 replay=%s' % ctx.replay_path) if found else 'not reproduced')
        return 1 if found else 0
    if case.get('holders'):
        group = [conn_impl.Harness(n_init=2, max_in_flight=4, thr=2) for _ in case['holders']]
        conn_hb.run_round(group, list(case['holders']))
        bad = False
        for k, g in enumerate(group):
            told = len([e for e in g.events if e == [12]])
            print('holder %d reply=%s defunct=%s owner notified=%d shutdown_on_error=%s' % (k, case['holders'][k], g.conn.is_defunct, told, g.pool.shutdown_on_error))
            exp = 1 if case['holders'][k] != 'supported' else 0
            bad = bad or told != exp or g.pool.shutdown_on_error != bool(exp) or g.conn.is_defunct != bool(exp)
        print(('VIOLATION property=C44 replay=%s' % ctx.replay_path) if bad else 'not reproduced')
        return 1 if bad else 0
    if not case.get('actions'):
        print('nothing to replay: %s' % rp.get('theorem'))
        return 1
    h = conn_corr.run_history(case['cfg'], case['actions'])
    if (rp.get('key') or '').endswith('lost-update'):
        ids = len(h.held) + len(h.conn.__dict__['_requests_real']) + len(h.conn.orphaned_request_ids)
        bad = h.hb_race_ran > 0 and h.conn.in_flight != ids
        print('interleaved borrowers: %d, in_flight=%d, ids in use=%d' % (h.hb_race_ran, h.conn.in_flight, ids))
        print(('VIOLATION property=C44 replay=%s' % ctx.replay_path) if bad else 'not reproduced')
        return 1 if bad else 0
    if key_is_busy(rp):
        h0 = conn_corr.run_history(case['cfg'], case['actions'][:-1])
        traffic, n0 = h0.traffic, len(h0.events)
        h0.do(case['actions'][-1])
        sent = [e for e in h0.events[n0:] if e[0] == 0 and e[2] >= 1000]
        print('traffic since the previous round: %s (last frame action: %s); heartbeats sent in the round: %d' % (traffic, case['actions'][-2]['a'], len(sent)))
        bad = bool(traffic and sent)
        print(('VIOLATION property=C44 replay=%s' % ctx.replay_path) if bad else 'not reproduced')
        return 1 if bad else 0
    for ops, sn in h.points[-8:]:
        print(ops, {k: v for k, v in sn.items() if k != 'events'})
    key = rp.get('key') or ''
    c = h.conn
    ids_in_use = len(h.held) + len(c.__dict__['_requests_real']) + len(c.orphaned_request_ids)
    bad = ((key.startswith('failed-heartbeat') and not c.is_defunct) or (key == 'capacity-changed' and (c.is_defunct or c.in_flight != ids_in_use))
           or (key.startswith('busy') or key.startswith('idle') or key.startswith('dead')))
    if key.startswith('failed-heartbeat'):
        print('after the failed heartbeat round: defunct=%s control=%s' % (c.is_defunct, c.is_control_connection))
    print(('VIOLATION property=C44 replay=%s' % ctx.replay_path) if bad else 'not reproduced')
    return 1 if bad else 0
