"""C44 -- heartbeats detect dead idle connections without leaking capacity.
The body of the REAL ConnectionHeartbeat.run is executed round by round (thread never started, _shutdown_event scripted,
lib/vf/conn_hb.py) over real Connection objects owned by real HostConnection holders; replies are scripted
(supported / error / silent), traffic between rounds makes connections busy.  After every model step the real
connection is compared with Model/Conn.v; the statement is checked per round by a Python oracle."""
import json
from vf import core, conn_corr, conn_impl, conn_check, conn_hb

META = {
    'technique': 'Coq theorems on the heartbeat steps of the Conn model + round-by-round execution of the real ConnectionHeartbeat.run body with '
                 'scripted replies, compared with the model at every step, statement checked by an oracle',
    'level_text': 'C44_busy_skipped, C44_failed_defunct, C44_owner_notified, C44_at_threshold_not_sent hold in every state; C44_idle_get_heartbeat, '
                  'C44_capacity_preserved_instances, C44_failed_round_instances are computed instances.',
    'level_note': 'PARTIAL: capacity preservation for an arbitrary state / number of rounds is checked on the real code every round, not proved in general. '
                  'Real waiting (Event.wait timeouts) is scripted.',
    'design_ref': 'DESIGN.md section 4 C44',
}


def run(ctx):
    ok = ctx.prove('Props/C44.v')
    if ctx.tier == 'thorough' and ok:
        ctx.coqchk('Props/C44.v')
    conn_check.run_audit(ctx)
    ctx.assume('HeartbeatFuture.wait timeouts are scripted (timeout 0: a reply either arrived before the wait or never)')
    hs = []
    n = 40 if ctx.tier == 'quick' else 400
    for k in range(n):
        rng = ctx.rng
        cfg = conn_check.gen_cfg(rng)
        cfg['control'] = rng.random() < 0.4      # holder of a CONTROL connection (run() treats it differently)
        ctx.count('owner', 'control-connection' if cfg['control'] else 'pool')
        h = conn_impl.Harness(**cfg)
        acts = []
        rounds = rng.randint(1, 5)
        tok = 0
        for rd in range(rounds):
            # optional traffic before the round
            busy = False
            for _ in range(rng.randint(0, 2)):
                if h.pool_has_conn() and not h.conn.is_defunct:
                    tok += 1
                    acts.append({'a': 'query', 'r': tok, 'in_cb': [{'a': 'return'}]})
                    h.do(acts[-1])
                    if h.wire and rng.random() < 0.7:
                        acts.append({'a': 'respond', 'i': h.wire[0][0], 'd': 'DOk'})
                        h.do(acts[-1])
                        busy = True
            reply = rng.choices(['supported', 'error', 'silent'], [6, 1, 1])[0]
            c = h.conn
            pre = {'in_flight': c.in_flight, 'free': sorted(c.request_ids), 'dead': bool(c.is_defunct or c.is_closed), 'idle': bool(c.is_idle),
                   'nev': len(h.events), 'cap': c.in_flight >= c.__dict__['_mri_real'], 'has': h.pool_has_conn()}
            acts.append({'a': 'hb_round', 'reply': reply})
            if not pre['has']:
                acts.pop()
                break
            try:
                h.do(acts[-1])
            except Exception as e:
                h.problems.append('exception escaped: %r' % (e,))
            h.checkpoint()
            new = h.events[pre['nev']:]
            sent = [e for e in new if e[0] == 0 and e[2] >= 1000]
            notified = [e for e in new if e == [12]]
            ctx.count('round', ('dead' if pre['dead'] else 'busy' if not pre['idle'] else 'cap' if pre['cap'] else reply))
            case = {'cfg': cfg, 'actions': list(acts)}
            if pre['dead']:
                if not notified:
                    ctx.violation('dead-owner-not-notified', 'owner not told about a defunct/closed connection', case=case, theorem='C44_owner_notified')
            elif not pre['idle']:
                if sent:
                    ctx.violation('busy-got-heartbeat', 'heartbeat sent on a connection that received traffic', case=case, theorem='C44_busy_skipped')
                if not c.is_idle:
                    ctx.violation('busy-idle-flag-not-reset', 'idle flag not reset after the skipped round', case=case, theorem='C44_busy_skipped')
            elif pre['cap']:
                pass
            else:
                if not sent:
                    ctx.violation('idle-no-heartbeat', 'idle connection got no heartbeat', case=case, theorem='C44_idle_get_heartbeat')
                if reply == 'supported':
                    if c.in_flight != pre['in_flight'] or (sorted(c.request_ids) != pre['free'] and pre['free']) or c.is_defunct:
                        ctx.violation('capacity-changed', 'successful heartbeat changed capacity: in_flight %d -> %d, free %r -> %r, defunct=%s'
                                      % (pre['in_flight'], c.in_flight, pre['free'], sorted(c.request_ids), c.is_defunct), case=case,
                                      theorem='C44_capacity_preserved_instances')
                else:
                    if not c.is_defunct or not notified:
                        ctx.violation('failed-heartbeat-not-defunct' + ('.control-connection' if cfg['control'] else ''),
                                      'heartbeat reply=%s on a %s connection: defunct=%s owner notified=%s' % (reply, 'CONTROL' if cfg['control'] else 'pool', c.is_defunct, bool(notified)),
                                      case=case, theorem='C44_failed_defunct')
        hs.append(('hb', cfg, acts, h))
        ctx.case([cfg, acts], nontrivial=rounds >= 2, sample={'cfg': cfg, 'actions': acts[:8], 'model_ops': conn_corr.all_ops(h)[:16]})
        for p in h.problems:
            ctx.disagreement('harness-problem', p[:300], case={'cfg': cfg, 'actions': acts})
    ctx.exhaustive = False
    ctx.rule = '1-5 heartbeat rounds per connection with random traffic in between and replies supported/error/silent; non-trivial = at least 2 rounds'
    conn_check.compare_with_model(ctx, hs, 'C44')


def replay(ctx, rp):
    case = rp.get('case') or {}
    if not case.get('actions'):
        print('nothing to replay: %s' % rp.get('theorem'))
        return 1
    h = conn_corr.run_history(case['cfg'], case['actions'])
    for ops, sn in h.points[-8:]:
        print(ops, {k: v for k, v in sn.items() if k != 'events'})
    key = rp.get('key') or ''
    c = h.conn
    bad = (key.startswith('failed-heartbeat') and not c.is_defunct) or (key == 'capacity-changed') or (key.startswith('busy') or key.startswith('idle') or key.startswith('dead'))
    if key.startswith('failed-heartbeat'):
        print('after the failed heartbeat round: defunct=%s control=%s' % (c.is_defunct, c.is_control_connection))
    print(('VIOLATION property=C44 replay=%s' % ctx.replay_path) if bad else 'not reproduced')
    return 1 if bad else 0
