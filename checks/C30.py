"""C30 -- prepared-statement binding and routing keys are consistent.

(C) Model/Bind.v is hand-written from cassandra/query.py (from_message index derivation, BoundStatement.bind,
_append_unset_value, routing_key, _key_parts_packed); Props/C30.v proves the statement for every serializer.
Every run drives the real PreparedStatement/BoundStatement on generated metadata shapes x value lists/dicts x
protocol versions, compares values / error class / routing key with the model (vm_compute), and evaluates the
property statement itself on the implementation with an independent Python oracle.
"""
import json, os, struct
from vf import core
from vf import bind_impl as B

META = {
    'technique': 'Coq proof over a hand-written executable model of bind()/routing_key/from_message (abstract per-column '
                 'serializer) + differential execution against the real PreparedStatement/BoundStatement',
    'level_text': 'C30_pos_eq_named, C30_extra_names_ignored, C30_unset_v4_only, C30_pk_unset_rejected, C30_extra_rejected, '
                  'C30_values_serialized, C30_routing_key (= CompositeType encoding composite_spec of the serialized partition-key '
                  'values; never anything else), C30_from_message_indexes proved for all column lists, index lists, versions, value '
                  'types and serializers; model tied to cassandra/query.py by correspondence on every run.',
    'level_note': 'Trusted: Coq kernel; the transcription of query.py into Model/Bind.v (checked by correspondence only); '
                  'composite_spec transcribed from Cassandra CompositeType; serializers abstract (C01/C02). Not covered: a routing_key '
                  'passed explicitly to the constructor, re-binding one BoundStatement after its routing key was read (cached), '
                  'token computation (C08).',
    'design_ref': 'DESIGN.md section 4, C30',
}

PVS = [1, 2, 3, 4, 5, 6, 65, 66]


def gen_value(rng, t, big_ok=False):
    if t == 'int':
        r = rng.random()
        if r < 0.3:
            return ('int', rng.choice([0, 1, -1, 2**31 - 1, -2**31, 255, 256, -256, 65536]))
        return ('int', rng.randint(-2**31, 2**31 - 1))
    if t == 'text':
        n = rng.choice([0, 1, 1, 2, 3, 5])
        pool = [0, 65, 97, 127, 128, 233, 0x7ff, 0x800, 0x20ac, 0xd7ff, 0xe000, 0xffff, 0x10000, 0x1f600, 0x10ffff]
        return ('str', [rng.choice(pool) for _ in range(n)])
    if rng.random() < 0.93:
        return ('bytes', [rng.randrange(256) for _ in range(rng.choice([0, 1, 2, 3, 4, 16, 17]))])
    n = rng.choice([255, 256, 257, 300, 511, 512, 1000])       # second length byte; constant filler keeps the Gallina literal short
    return ('bytes', [rng.randrange(256)] * n)


def wrong_value(rng, t):
    if t == 'int':
        return rng.choice([('int', 2**31), ('int', -2**31 - 1), ('str', [49]), ('bytes', [1])])
    if t == 'text':
        return rng.choice([('int', 5), ('bytes', [65]), ('str', [0xd800])])
    return ('str', [65, 66])


def gen_input(rng, ids, types):
    n = len(ids)
    kind = rng.choice(['list', 'list', 'dict'])
    r = rng.random()
    if r < 0.55:
        m = n
    elif r < 0.85:
        m = rng.randint(0, n)
    else:
        m = n + rng.choice([1, 1, 2])
    vals = []
    for i in range(m):
        t = types[i] if i < n else rng.choice(B.TYPES)
        q = rng.random()
        if q < 0.08:
            vals.append(None)
        elif q < 0.16:
            vals.append(('unset',))
        elif q < 0.22:
            vals.append(wrong_value(rng, t))
        else:
            vals.append(gen_value(rng, t))
    if kind == 'list':
        inp = ('list', vals)
    else:
        pairs = []
        order = list(range(min(m, n)))
        rng.shuffle(order)
        present = [i for i in order if rng.random() < 0.85]
        seen = set()
        for i in present:
            if ids[i] in seen:
                continue
            seen.add(ids[i])
            pairs.append((ids[i], vals[i]))
        if rng.random() < 0.3:
            pairs.insert(rng.randint(0, len(pairs)), (rng.choice([50, 51]), rng.choice([None, ('int', 1), ('unset',)])))
        inp = ('dict', pairs)
    return inp


def gen_case(rng):
    n = rng.choice([0, 1, 1, 2, 2, 3, 3, 3, 4, 5])
    ids = rng.sample(range(1, 12), n)
    if n >= 2 and rng.random() < 0.06:
        ids[rng.randrange(1, n)] = ids[0]            # duplicate column name (same column bound twice)
    types = [rng.choice(B.TYPES) for _ in range(n)]
    types = [types[ids.index(x)] for x in ids]       # the same column has the same type (bytes(int) would allocate)
    mode = rng.choice(['server', 'server', 'table', 'table', 'none'])
    server_pk, table_pk = [], None
    if mode == 'server' and n:
        k = rng.choice([1, 1, 2, 2, 3])
        server_pk = rng.sample(range(n), min(k, n))
    elif mode == 'table':
        k = rng.choice([1, 1, 2, 2, 3])
        pool = list(dict.fromkeys(ids))
        if rng.random() < 0.15:
            pool = pool + [99]                       # a partition key column the statement does not bind
        table_pk = rng.sample(pool, min(k, len(pool)))
    pv = rng.choice(PVS)
    inp = gen_input(rng, ids, types)
    return {'names': ids, 'types': types, 'server_pk': server_pk, 'table_pk': table_pk, 'pv': pv, 'input': inp}


def boundary_cases(rng, thorough=False):
    """composite components around the unsigned-short limit; single huge component"""
    out = []
    # every tier: component lengths around the SIGNED and the unsigned 16-bit limits (the length prefix is an unsigned short);
    # constant filler, so the Gallina literal is a run-length `repeat`
    for ln in (32767, 32768, 40000, 65535, 65536):
        big = ('bytes', [rng.randrange(256)] * ln)
        out.append({'names': [1, 2], 'types': ['blob', 'int'], 'server_pk': [1, 0], 'table_pk': None, 'pv': rng.choice([3, 4]),
                    'input': ('list', [big, ('int', 7)])})
    out.append({'names': [3, 4], 'types': ['text', 'blob'], 'server_pk': [], 'table_pk': [3, 4], 'pv': 5,
                'input': ('dict', [(4, ('bytes', [9] * 40000)), (3, ('str', [97] * 33000))])})
    if True:
        out.append({'names': [1, 2], 'types': ['blob', 'int'], 'server_pk': [0], 'table_pk': None, 'pv': 3,
                    'input': ('dict', [(2, None), (1, ('bytes', [rng.randrange(256)] * 66000))])})
    out.append({'names': [1, 2, 3], 'types': ['int', 'int', 'int'], 'server_pk': [2], 'table_pk': None, 'pv': 3,
                'input': ('list', [('int', 1)])})
    out.append({'names': [1], 'types': ['int'], 'server_pk': [0], 'table_pk': None, 'pv': 4, 'input': ('list', []), 'none_input': True})
    return out


# ------------------------------------------------------------------ the statement itself, on the implementation
def spec_composite(parts):
    if len(parts) == 1:
        return list(parts[0])
    out = []
    for p in parts:
        out += [len(p) >> 8, len(p) & 0xff] + list(p) + [0]
    return out


def spec_serialize(t, v, pv):
    """the column's own serializer (C01/C02 are about its correctness); None if it raises"""
    try:
        return list(B._types()[t].serialize(B.pyval(v), pv))
    except Exception:
        return None


def as_list(case):
    """the ordered value list the input denotes: entries are ('missing',) | None | ('unset',) | value"""
    n = len(case['names'])
    inp = case['input']
    if inp[0] == 'list':
        return list(inp[1]) + [('missing',)] * max(0, n - len(inp[1]))
    d = dict(inp[1])
    return [d.get(nm, ('missing',)) for nm in case['names']]


def oracle(case, res):
    """-> list of (key, what, theorem, expected)"""
    out = []
    n = len(case['names'])
    pv = case['pv']
    inp = case['input']
    distinct = len(set(case['names'])) == n
    ok = res['bind'][0] == 'ok'
    vals = res['bind'][1] if ok else None
    want = as_list(case)
    # routing indexes from the message / table metadata
    exp_idx = None
    if n == 0:
        exp_idx = []
    elif case['server_pk']:
        exp_idx = list(case['server_pk'])
    elif case['table_pk'] is None:
        exp_idx = []
    elif distinct:
        exp_idx = [case['names'].index(x) for x in case['table_pk']] if all(x in case['names'] for x in case['table_pk']) else []
    if exp_idx is not None and res['idx'] != exp_idx:
        out.append(('from_message.indexes', 'routing_key_indexes %r, partition key columns are at %r' % (res['idx'], exp_idx),
                    'C30_from_message_indexes', exp_idx))
    idx = res['idx'] if exp_idx is None else exp_idx
    # extra positional values
    if inp[0] == 'list' and len(inp[1]) > n and ok:
        out.append(('bind.extra-accepted', '%d values accepted for %d markers' % (len(inp[1]), n), 'C30_extra_rejected', 'rejected'))
    if ok and not (inp[0] == 'list' and len(inp[1]) > n):
        if pv < 4:
            if 'unset' in vals:
                out.append(('bind.unset-below-v4', 'UNSET bound on protocol %d' % pv, 'C30_unset_v4_only', 'no UNSET'))
            if inp[0] == 'list' and len(vals) != len(inp[1]):
                out.append(('bind.length-below-v4', '%d values for %d given on protocol %d' % (len(vals), len(inp[1]), pv), 'C30_unset_v4_only', len(inp[1])))
            if any(w == ('missing',) for w in want) and inp[0] == 'dict':
                out.append(('bind.missing-name-accepted-below-v4', 'dict lacking a column accepted on protocol %d' % pv, 'C30_unset_v4_only', 'rejected'))
            if any(w == ('unset',) for w in want[:len(vals)]):
                out.append(('bind.unset-accepted-below-v4', 'UNSET_VALUE accepted on protocol %d' % pv, 'C30_unset_v4_only', 'rejected'))
        else:
            if len(vals) != n:
                out.append(('bind.length-v4', '%d values for %d markers on protocol %d' % (len(vals), n, pv), 'C30_unset_v4_only', n))
            for i, w in enumerate(want[:len(vals)]):
                if w in (('missing',), ('unset',)) and vals[i] != 'unset':
                    out.append(('bind.missing-not-unset', 'marker %d missing/UNSET but bound as %r' % (i, vals[i]), 'C30_unset_v4_only', 'unset'))
                    break
        # every supplied value is the column's serialization, None stays null
        for i, w in enumerate(want[:len(vals)]):
            if w is None and vals[i] is not None:
                out.append(('bind.null-not-null', 'marker %d: None bound as %r' % (i, vals[i]), 'C30_values_serialized', None))
                break
            if w is not None and w[0] in ('int', 'str', 'bytes'):
                e = spec_serialize(case['types'][i], w, pv)
                if e is None or vals[i] != e:
                    out.append(('bind.value-differs', 'marker %d: %r bound as %r, serializer gives %r' % (i, w, vals[i], e), 'C30_values_serialized', e))
                    break
            if w is not None and w[0] not in ('int', 'str', 'bytes', 'missing', 'unset'):
                pass
        # partition-key components may not be unset / missing
        for i in idx:
            if i < n and want[i] in (('missing',), ('unset',)) and (pv >= 4 or want[i] == ('unset',)):
                out.append(('bind.pk-unset-accepted', 'partition-key marker %d unset/missing but bind succeeded' % i, 'C30_pk_unset_rejected', 'rejected'))
                break
            if i < len(vals) and vals[i] == 'unset':
                out.append(('bind.pk-unset-accepted', 'partition-key marker %d bound as UNSET' % i, 'C30_pk_unset_rejected', 'rejected'))
                break
        # routing key
        rk = res['rk']
        parts = []
        for i in idx:
            w = want[i] if i < n else ('missing',)
            if w is None or w[0] not in ('int', 'str', 'bytes'):
                parts = None
                break
            parts.append(spec_serialize(case['types'][i], w, pv))
        if rk[0] == 'bytes':
            if not idx or parts is None or any(p is None for p in parts):
                out.append(('routing_key.unfounded', 'routing key %r although the partition key is not fully bound' % (rk[1][:40],), 'C30_routing_key', None))
            elif rk[1] != spec_composite(parts):
                out.append(('routing_key.wrong-encoding', 'routing key %r, Cassandra encodes the partition key as %r' % (rk[1][:40], spec_composite(parts)[:40]),
                            'C30_routing_key', spec_composite(parts)[:200]))
        elif idx and parts is not None and all(p is not None for p in parts) and (len(parts) == 1 or all(len(p) < 65536 for p in parts)):
            out.append(('routing_key.missing', 'partition key fully bound but routing_key is %r' % (rk,), 'C30_routing_key', spec_composite(parts)[:200]))
    elif not ok:
        # a fully valid, complete binding may not be rejected
        if (inp[0] == 'dict' or len(inp[1]) <= n) and all(w is not None and w != ('missing',) and w[0] in ('int', 'str', 'bytes')
                                                          and spec_serialize(case['types'][i], w, pv) is not None for i, w in enumerate(want)):
            out.append(('bind.valid-rejected', 'complete valid binding rejected: %s' % res['bind'][2], 'C30_pos_eq_named', 'accepted'))
    return out


def gen_history(rng):
    """one BoundStatement, 2-6 operations: bind / read routing_key, mostly valid bindings with fresh values each time"""
    c = gen_case(rng)
    while not c['names'] or not (c['server_pk'] or c['table_pk']):
        c = gen_case(rng)
    c.pop('input')
    ops = []
    for _ in range(rng.choice([2, 3, 4, 4, 5, 6])):
        if ops and ops[-1][0] == 'bind' and rng.random() < 0.75:
            ops.append(['read'])
        elif rng.random() < 0.8:
            if rng.random() < 0.7:          # a complete valid positional / named binding
                vals = [gen_value(rng, t) for t in c['types']]
                inp = ('list', vals) if rng.random() < 0.6 or len(set(c['names'])) != len(c['names']) else ('dict', list(zip(c['names'], vals)))
            else:
                inp = gen_input(rng, c['names'], c['types'])
            ops.append(['bind', inp])
        else:
            ops.append(['read'])
    c['ops'] = ops
    c['explicit'] = [rng.randrange(256) for _ in range(rng.choice([1, 4, 9]))] if rng.random() < 0.12 else None
    return c


def expected_key(case, inp, idx):
    """routing key the statement must report for a successful binding of inp: ('bytes', [...]) | ('none',) | None (no requirement)"""
    n = len(case['names'])
    want = as_list(dict(case, input=inp))
    if not idx:
        return ('none',)
    parts = []
    for i in idx:
        w = want[i] if i < n else ('missing',)
        if w is None:
            return ('none',) if len(idx) == 1 else None
        if w[0] not in ('int', 'str', 'bytes'):
            return None
        p = spec_serialize(case['types'][i], w, case['pv'])
        if p is None:
            return None
        parts.append(p)
    if len(parts) > 1 and any(len(p) >= 65536 for p in parts):
        return None
    return ('bytes', spec_composite(parts))


def normalise_history(case):
    c = dict(case)
    c['ops'] = [['bind', normalise({'input': op[1]})['input']] if op[0] == 'bind' else ['read'] for op in case['ops']]
    return c


def evaluate_history(case):
    case = normalise_history(case)
    res = B.run_history(case)
    probs = []
    idx = res['idx']
    earlier, seen_keys, last = [], [], None           # keys of earlier successful binds / reported by earlier reads; the binding in effect
    for op, ob in zip(case['ops'], res['obs']):
        if op[0] == 'bind':
            if last is not None and last != 'broken' and last[0] == 'bytes':
                earlier.append(last[1])
            last = expected_key(case, op[1], idx) if ob[1] is None else 'broken'    # a failed bind leaves the statement unbound
            if ob[1] is None and (last is None):
                last = 'broken'
        elif case.get('explicit') is None and last not in (None, 'broken'):
            rk = ob[1]
            if list(rk) != list(last):
                if rk[0] == 'bytes' and (rk[1] in earlier or rk[1] in seen_keys):
                    probs.append(('routing_key.stale-after-rebind', 'after re-binding, routing_key is still %r (the key of an earlier binding); '
                                  'the row now addressed has key %r' % (rk[1][:40], last), 'C30_rebind_routing_key', last))
                elif rk[0] == 'bytes':
                    probs.append(('routing_key.wrong-encoding.history', 'routing key %r, expected %r' % (rk[1][:40], last), 'C30_rebind_routing_key', last))
                elif last[0] == 'bytes':
                    probs.append(('routing_key.missing.history', 'partition key fully bound but routing_key is %r' % (rk,), 'C30_rebind_routing_key', last))
                break
        if op[0] == 'read' and ob[1][0] == 'bytes' and ob[1][1] not in seen_keys:
            seen_keys.append(ob[1][1])
    return res, probs


def named_twin(case):
    """the by-name form of a positional binding (when the statement's equality applies)"""
    n = len(case['names'])
    inp = case['input']
    if inp[0] != 'list' or len(inp[1]) > n or len(set(case['names'])) != n:
        return None
    if len(inp[1]) != n and case['pv'] < 4:
        return None
    c = dict(case)
    c['input'] = ('dict', [(nm, v) for nm, v in zip(case['names'], inp[1])])
    c.pop('none_input', None)
    return c


def normalise(case):
    """cases loaded from JSON (corpus, replays) carry lists where the generator makes tuples"""
    def tv(v):
        return None if v is None else tuple(v)
    c = dict(case)
    kind, body = case['input'][0], case['input'][1]
    c['input'] = (kind, [tv(v) for v in body]) if kind == 'list' else (kind, [(k, tv(v)) for k, v in body])
    return c


def evaluate(ctx, case, record=True):
    case = normalise(case)
    res = B.run_impl(case)
    probs = oracle(case, res)
    tw = named_twin(case)
    if tw is not None:
        r2 = B.run_impl(tw)
        a = res['bind'][:2]
        b = r2['bind'][:2]
        if a != b or res['rk'] != r2['rk']:
            probs.append(('bind.positional-vs-named', 'positional %r / %r but by name %r / %r' % (short(a), short(res['rk']), short(b), short(r2['rk'])),
                          'C30_pos_eq_named', short(a)))
    return res, probs


def short(x):
    s = repr(x)
    return s if len(s) < 300 else s[:300] + '...'


def small(case):
    c = json.loads(json.dumps(case))
    return c


def run(ctx):
    ok = ctx.prove('Props/C30.v')
    if ctx.tier == 'thorough' and ok:
        ctx.coqchk('Props/C30.v')
    ctx.trust('transcription of cassandra/query.py (from_message, bind, _append_unset_value, routing_key, _key_parts_packed) into Model/Bind.v, tied by correspondence',
              'composite_spec (Model/CompositeSpec.v): Cassandra CompositeType partition-key encoding, transcribed',
              'per-column serializers abstract in theorems (C01/C02); Int32/UTF8/Bytes modelled concretely only to run cases')
    ctx.assume('an explicit routing_key passed to BoundStatement() is returned as given (API behaviour, modelled, no requirement on its value)')
    rng = ctx.rng
    ncases = 1500 if ctx.tier == 'quick' else 12000
    cases, hists = [], []
    corpus = os.path.join(core.VERIF, 'corpus', 'C30')
    if os.path.isdir(corpus):
        for fn in sorted(os.listdir(corpus)):
            with open(os.path.join(corpus, fn)) as f:
                c = json.load(f)['case']
                (hists if 'ops' in c else cases).append(c)
    cases += boundary_cases(rng, ctx.tier == 'thorough')
    cases += [gen_case(rng) for _ in range(ncases)]
    ctx.rule = ('random bind metadata (0-5 columns of int/text/blob, occasionally a duplicated name; routing indexes from the server, from table '
                'metadata in table order, or absent) x protocol versions {1..6,65,66} x value lists/dicts with None/UNSET/wrong-typed/missing/extra '
                'entries + boundary cases (64 KiB components, short list on v3) + histories of 2-6 bind/read-routing_key operations on ONE BoundStatement (12% with an explicit constructor routing_key); non-trivial = distinct case with at least one column whose '
                'outcome is not a plain full valid positional binding, or with a routing key')
    ctx.exhaustive = False
    import time
    t1 = time.time()
    gall, meta = [], []
    for case in cases:
        res, probs = evaluate(ctx, case)
        inp = case['input']
        n = len(case['names'])
        plain = (inp[0] == 'list' and len(inp[1]) == n and res['bind'][0] == 'ok' and res['rk'] == ('none',))
        big = sum(len(v[1]) for v in (inp[1] if inp[0] == 'list' else [p[1] for p in inp[1]]) if v and len(v) > 1 and isinstance(v[1], list)) > 2000
        ctx.case(small(case) if not big else [case['names'], case['pv'], 'big'], nontrivial=not plain,
                 sample=None if big else {'case': case, 'impl': res})
        ctx.count('columns', n)
        ctx.count('input', inp[0])
        ctx.count('protocol', 'v>=4' if case['pv'] >= 4 else 'v<4')
        ctx.count('outcome', res['bind'][1] if res['bind'][0] == 'err' else 'ok')
        ctx.count('routing_key', 'n/a' if res['rk'] is None else res['rk'][0] + (str(len(res['idx'])) if res['rk'][0] == 'bytes' else ''))
        for key, what, thm, exp in probs:
            ctx.violation(key, what + '  [case %s]' % short(case), case=case, expected=exp, actual=res, theorem=thm)
        gall.append(B.g_case(case, res))
        meta.append((case, res))
    # histories on one BoundStatement: bind / read routing_key / bind again / read ...
    hists += [gen_history(rng) for _ in range(400 if ctx.tier == 'quick' else 4000)]
    hgall, hmeta = [], []
    for h in hists:
        res, probs = evaluate_history(h)
        nb = sum(1 for o in h['ops'] if o[0] == 'bind')
        reread = any(a[0] == 'read' for a in h['ops'][:-1]) and nb >= 2
        ctx.case(h, nontrivial=reread, sample=None if ctx.evaluations % 50 else {'history': h, 'observed': res['obs']})
        ctx.count('history_binds', nb)
        ctx.count('history_len', len(h['ops']))
        ctx.count('history_explicit_key', 'yes' if h.get('explicit') is not None else 'no')
        for key, what, thm, exp in probs:
            ctx.violation(key, what + '  [history %s]' % short(h), case=h, expected=exp, actual=res, theorem=thm, kind='history')
        hgall.append(B.g_hist_case(normalise_history(h), res))
        hmeta.append((h, res))
    t2 = time.time()
    try:
        hbad = ctx.coq_filter(['CompositeSpec', 'Bind', 'BindHistory'], '(fun b : bool => b)', hgall, shard=150)
        for i in hbad[:10]:
            h, res = hmeta[i]
            try:
                model = ctx.coq_eval(['CompositeSpec', 'Bind', 'BindHistory'], [B.g_hist(normalise_history(h))])[0]
            except Exception as e:
                model = 'n/a (%s)' % str(e)[-100:]
            ctx.disagreement('model-vs-impl.history', 'Model/BindHistory.v differs from query.py on history %s: impl %s model %s' % (short(h), short(res['obs']), short(model)),
                             case=h, actual=res, model=model)
    except RuntimeError as e:
        ctx.proof_broken.append(('correspondence:BindHistory', str(e)[-800:]))
    try:
        bad = ctx.coq_filter(['CompositeSpec', 'Bind'], '(fun b : bool => b)', gall, shard=250)
        for i in bad[:10]:
            case, res = meta[i]
            try:
                model = ctx.coq_eval(['CompositeSpec', 'Bind'], [B.g_run(case)])[0]
            except Exception as e:
                model = 'n/a (%s)' % str(e)[-100:]
            ctx.disagreement('model-vs-impl', 'Model/Bind.v differs from query.py at %s: impl %s model %s' % (short(case), short(res), short(model)),
                             case=case, actual=res, model=model)
    except RuntimeError as e:
        ctx.proof_broken.append(('correspondence:Bind', str(e)[-800:]))
    ctx.extra['timing_s'] = {'prove': round(t1 - ctx.t0, 1), 'drive_impl': round(t2 - t1, 1), 'model_eval': round(time.time() - t2, 1)}


def replay(ctx, rp):
    case = rp.get('case')
    if not case:
        print('nothing to replay: %s' % rp.get('theorem'))
        return 1
    if 'ops' in case:
        res, probs = evaluate_history(case)
    else:
        res, probs = evaluate(ctx, case)
    print('replay %s\n -> %s' % (short(case), short(res)))
    for key, what, thm, exp in probs:
        print('  %s: %s (%s)' % (key, what, thm))
    print(('VIOLATION property=C30 replay=%s' % ctx.replay_path) if probs else 'not reproduced')
    return 1 if probs else 0
