"""C32 -- concurrent execution returns one ordered result per statement.

Proof: Props/C32.v over Model/Concurrent.v (any number of statements, any concurrency, any behaviour vector, any
interleaving of lock regions).  Tie (C): the real execute_concurrent / execute_concurrent_with_args /
execute_concurrent_async on a fake session under a deterministic region scheduler (lib/vf/pgconc_concurrent.py),
compared with the model after EVERY region.  The statement itself is checked on the implementation by a Python oracle."""
import itertools, json, os
from vf import core
from vf import pgconc_concurrent as P

META = {
    'technique': 'Coq proof (invariants over every sequence of lock regions, induction over the nested synchronous completion chain) '
                 'on a hand-written model of _ConcurrentExecutor (List/Gen/Future) + region-by-region correspondence under a deterministic scheduler',
    'level_text': 'C32_concurrency_bound(_futures) (all variants) / C32_future_once / C32_first_failure_kept / C32_one_per_statement + '
                  'C32_expected_shape / C32_fail_fast (List and async variants) proved for every statement count, concurrency, behaviour vector '
                  '(sync raise, sync ok/err, later ok/err) and every interleaving of the executor\'s lock regions; generator variant: bound '
                  'theorem + correspondence + oracle only; model tied to cassandra/concurrent.py (after fix c169b3b) by differential '
                  'execution after every region.',
    'level_note': 'Trusted: Coq kernel, the deterministic scheduler (FakeCondition, one thread runs at a time, switches only at region '
                  'boundaries), fake session/futures. Not modelled: preemption inside a region the source protects by the Condition\'s RLock, '
                  'the unlocked list append in ListResults._put_result (GIL-atomic), Python recursion limit for long synchronous chains, '
                  'ResponseFuture internals (C14).',
    'design_ref': 'DESIGN.md section 4, C32',
}

VARIANTS = ('VList', 'VGen', 'VFuture')


def expected_of(behs):
    return [(i, b in P.OK) for i, b in enumerate(behs)]


def oracle(ctx, r, report=True):
    """The statement, on what the implementation did.  Returns list of (key, what, theorem)."""
    behs, conc, ff, variant = r.behs, r.conc, r.ff, r.variant
    exp = expected_of(behs)
    out = []
    # first failure the executor was told about (a synchronous raise whose _put_result was handed to session.submit
    # counts when that deferred call runs)
    first_fail = None
    deferred = set(ev[1] for ev in r.session.log if ev[0] == 'deliver') & set(ev[1] for ev in r.session.log if ev[0] == 'raise')
    for ev in r.session.log:
        if (ev[0] == 'raise' and ev[1] not in deferred) or (ev[0] == 'deliver' and not ev[2]):
            first_fail = ev[1]
            break
    tag = {'VList': 'list', 'VGen': 'gen', 'VFuture': 'async'}[variant]
    if r.deadlock:
        out.append((tag + '.caller-blocks-forever', 'caller waits on the condition, nothing can wake it', 'C32_one_per_statement'))
    if r.session.peak > conc:
        out.append((tag + '.in-flight-exceeds-concurrency', 'peak in-flight %d > concurrency %d' % (r.session.peak, conc), 'C32_concurrency_bound'))
    for t in r.trace:
        ids = [i for i, _ in t['results']] if t else []
        if len(ids) != len(set(ids)):
            out.append((tag + '.result-queued-twice', 'the executor queued two results for one statement: %r' % (t['results'],), 'C32_one_per_statement'))
            break
    for rows in r.paged_rows:
        if len(rows) != 3 or rows[1] != rows[0] + 1000 or rows[2] != rows[0] + 2000:
            out.append((tag + '.paged-result-damaged', 'paging through a returned ResultSet gave %r' % (rows,), 'C32_one_per_statement'))
    if len(set(r.session.calls)) != len(r.session.calls):
        out.append((tag + '.statement-executed-twice', 'execute_async calls %r' % (r.session.calls,), 'C32_one_per_statement'))
    for name, i in r.escaped:
        if name == 'InvalidStateError':
            out.append(('async.future-set-twice.in-callback', 'InvalidStateError raised in the completion thread of statement %d' % i, 'C32_future_once'))
        else:
            out.append((tag + '.callback-raises.' + name, '%s escaped the completion of statement %d' % (name, i), 'C32_one_per_statement'))
    mo = r.main_outcome
    if mo is not None and mo[0] == 'escaped':
        if mo[1] == 'InvalidStateError':
            out.append(('async.future-set-twice.escapes-to-caller', 'InvalidStateError escapes execute_concurrent_async', 'C32_future_once'))
        else:
            out.append((tag + '.caller-raises.' + mo[1], '%s escapes to the caller' % mo[1], 'C32_one_per_statement'))
    elif not r.deadlock:
        if variant in ('VList', 'VGen'):
            if ff and first_fail is not None:
                want = ('raise', first_fail) if variant == 'VList' else ('raise', min(i for i, ok in exp if not ok))
                if mo != want:
                    out.append((tag + '.fail-fast-wrong', 'expected %r, caller got %r' % (want, mo), 'C32_fail_fast'))
                if variant == 'VGen' and r.yielded != exp[:want[1]]:
                    out.append((tag + '.yielded-wrong', 'yielded %r before the failure, expected %r' % (r.yielded, exp[:want[1]]), 'C32_one_per_statement'))
            elif mo != ('return', exp):
                out.append((tag + '.results-not-one-per-statement', 'expected %r, caller got %r' % (exp, mo), 'C32_one_per_statement'))
        else:
            fs = r.fut_state()
            if fs[0] == 'FPending':
                out.append(('async.future-never-completes', 'everything finished, the future is still pending', 'C32_future_once'))
            elif ff and first_fail is not None:
                if fs != ('FExc', first_fail):
                    out.append(('async.fail-fast-wrong', 'future %r, expected exception of statement %d' % (fs, first_fail), 'C32_fail_fast'))
            elif fs != ('FResult', exp):
                out.append(('async.results-not-one-per-statement', 'future %r, expected result %r' % (fs, exp), 'C32_one_per_statement'))
    if not ff and sorted(r.session.calls) != list(range(len(behs))) and not r.deadlock and not (mo and mo[0] == 'escaped'):
        out.append((tag + '.statement-not-executed', 'execute_async calls %r for %d statements' % (r.session.calls, len(behs)), 'C32_one_per_statement'))
    if report:
        case = case_of(r)
        for key, what, thm in out:
            ctx.violation(key, '%s n=%d concurrency=%d fail_fast=%s behaviours=%r history=%s: %s' % (
                variant, len(behs), conc, ff, behs, ' '.join(P.g_op(o) for o in r.ops), what),
                case=case, expected='see theorem', actual={'caller': mo, 'future': r.fut_state() if variant == 'VFuture' else None,
                                                           'escaped': r.escaped, 'peak': r.session.peak}, theorem=thm, kind='interleaving')
    return out


def case_of(r):
    return {'behs': r.behs, 'conc': r.conc, 'ff': r.ff, 'variant': r.variant, 'maxrec': r.maxrec, 'with_args': r.with_args,
            'ops': [list(o) for o in r.ops]}


def scripted(ops):
    """chooser following a recorded history (ops that are not enabled are skipped), then first-enabled"""
    it = iter([tuple(o) for o in ops])

    def ch(en, r):
        for o in it:
            if o in en:
                return o
        return en[0]
    return ch


def random_chooser(rng, main_bias):
    def ch(en, r):
        if ('MainStep',) in en and rng.random() < main_bias:
            return ('MainStep',)
        return rng.choice(en)
    return ch


def all_histories(behs, conc, ff, variant, maxrec, cap):
    """stateless DFS over every history; yields Runs.  Stops after `cap` histories (returns False if capped)."""
    stack = [[]]
    count = 0
    while stack:
        prefix = stack.pop()
        branch = {}

        def ch(en, r, prefix=prefix, branch=branch):
            k = len(r.ops)
            if k < len(prefix):
                return prefix[k]
            branch[k] = list(en)
            return en[0]
        r = P.run_history(behs, conc, ff, variant, ch, maxrec)
        count += 1
        yield r
        for k in sorted(branch):
            for alt in branch[k][1:]:
                stack.append(list(r.ops[:k]) + [alt])
        if count >= cap:
            return


def configs(ctx):
    """(behs, conc, ff, variant, maxrec, with_args, mode) ; mode 'all' = every history, int = that many random histories"""
    rng = ctx.rng
    quick = ctx.tier == 'quick'
    out = []
    # exhaustive small scope
    nmax_all = 1 if quick else 2
    for n in range(0, nmax_all + 1):
        for behs in itertools.product(P.BEHS, repeat=n):
            for conc in range(1, max(n, 1) + 1):
                for ff in (False, True):
                    for v in VARIANTS:
                        out.append((list(behs), conc, ff, v, 100, False, 'all'))
    if quick:
        for behs in itertools.product(P.BEHS, repeat=2):
            for conc in (1, 2):
                for ff in (False, True):
                    for v in VARIANTS:
                        out.append((list(behs), conc, ff, v, 100, False, 2))
    else:
        # every behaviour vector for n = 3 (all configurations) and n = 4 (configurations round-robin), random histories
        for behs in itertools.product(P.BEHS, repeat=3):
            for conc in range(1, 4):
                for ff in (False, True):
                    for v in VARIANTS:
                        out.append((list(behs), conc, ff, v, 100, False, 1))
        k = 0
        for behs in itertools.product(P.BEHS, repeat=4):
            for conc in range(1, 5):
                k += 1
                out.append((list(behs), conc, k % 2 == 0, VARIANTS[k % 3], 100, False, 1))
    # results with several pages, read by the consumer while execution is still running (real ResponseFuture/ResultSet)
    pool = (P.PAGED, 'BLaterOk', 'BLaterErr', 'BSyncOk')
    out.append(([P.PAGED, 'BLaterOk', 'BLaterOk'], 1, False, 'VGen', 100, False, 'all'))
    out.append((['BLaterOk', P.PAGED, P.PAGED], 2, True, 'VGen', 100, False, 'all'))
    for behs in itertools.product(pool, repeat=3):
        if P.PAGED in behs:
            for conc in (1, 2):
                for v in VARIANTS:
                    out.append((list(behs), conc, v == 'VList', v, 100, False, 1 if quick else 3))
    for _ in range(120 if quick else 1200):
        n = rng.randint(3, 6)
        behs = [rng.choice(P.BEHS + ['BLaterOk', 'BLaterErr', P.PAGED, P.PAGED]) for _ in range(n)]
        out.append((behs, rng.randint(1, n), rng.random() < 0.5, rng.choice(VARIANTS), rng.choice((100, 100, 1, 2, 3)), rng.random() < 0.3,
                    2 if quick else 3))
    return out, nmax_all


def run(ctx):
    ok = ctx.prove('Props/C32.v')
    if ctx.tier == 'thorough' and ok:
        ctx.coqchk('Props/C32.v')
    ctx.trust('C32 deterministic scheduler + fake session/futures (lib/vf/pgconc_concurrent.py): one logical thread runs at a time, '
              'switches only at Condition region boundaries')
    # lock-region audit: the async variant's Future is touched only under the executor's condition (the model's step
    # granularity rests on it).  If it fails, two real threads under the line-granular scheduler look for the schedule.
    src = open(os.path.join(core.REPO, 'cassandra/concurrent.py')).read()
    probs = P.audit_future_lock(src)
    ctx.extra['lock_audit'] = probs or 'ok: every self.future access of ConcurrentExecutorFutureResults is inside `with self._condition`'
    ctx.trust('lock-region audit of ConcurrentExecutorFutureResults (lib/vf/pgconc_concurrent.py:audit_future_lock)')
    if probs:
        ctx.proof_broken.append(('atomicity-audit', '; '.join(probs)))
        found = P.detsched_search(900)
        if found:
            info, what = found
            ctx.violation('async.future-set-twice.unlocked-check-then-set',
                          'two real threads (caller in execute_concurrent_async, io thread delivering the only result), switched at '
                          'source-line granularity: caller runs to its wait, io thread %d lines, caller %d lines, io thread to the end, caller to '
                          'the end: %s' % (info['k2'], info['k3'], what),
                          case={'detsched': info['schedule'], 'k2': info['k2'], 'k3': info['k3']}, kind='interleaving',
                          expected='future completed exactly once', actual=what, theorem='C32_future_once')
    runs = []
    cdir = os.path.join(core.VERIF, 'corpus', 'C32')
    if os.path.isdir(cdir):
        for fn in sorted(os.listdir(cdir)):
            with open(os.path.join(cdir, fn)) as f:
                c = json.load(f)
            runs.append(P.run_history(c['behs'], c['conc'], c['ff'], c['variant'], scripted(c['ops']), c.get('maxrec', 100), c.get('with_args', False)))
            ctx.count('source', 'corpus')
    cfgs, nmax_all = configs(ctx)
    capped = 0
    for behs, conc, ff, v, maxrec, wa, mode in cfgs:
        if mode == 'all':
            k = 0
            for r in all_histories(behs, conc, ff, v, maxrec, 400):
                runs.append(r)
                k += 1
            if k >= 400:
                capped += 1
            ctx.count('source', 'exhaustive-histories', k)
        else:
            for _ in range(mode):
                runs.append(P.run_history(behs, conc, ff, v, random_chooser(ctx.rng, ctx.rng.choice((0.2, 0.5, 0.8))), maxrec, wa))
                ctx.count('source', 'random-history')
    ctx.exhaustive = capped == 0
    ctx.extra['history_cap_hit'] = capped
    ctx.rule = ('every behaviour vector over {sync raise, sync ok, sync err, later ok, later err} with n <= %d statements (quick: n = 2, thorough: n = 3, 4 under random histories) x concurrency 1..n x '
                'fail-fast on/off x {list, generator, async} x EVERY interleaving of lock regions (stateless DFS), plus random configurations '
                'with n <= 6 (incl. max_error_recursion 1..3 to reach the session.submit path, execute_concurrent_with_args, statements whose result has three pages -- real ResponseFuture/ResultSet -- read by the consumer of the generator while execution continues) under random '
                'interleavings; non-trivial = distinct (config, history) with at least one statement completing later' % nmax_all)
    cases, meta = [], []
    for r in runs:
        ctx.case([r.behs, r.conc, r.ff, r.variant, r.maxrec, [list(o) for o in r.ops]], nontrivial=any(b in P.LATER for b in r.behs),
                 sample={'behaviours': r.behs, 'concurrency': r.conc, 'fail_fast': r.ff, 'variant': r.variant,
                         'history': ' '.join(P.g_op(o) for o in r.ops), 'caller': r.main_outcome, 'peak_in_flight': r.session.peak})
        ctx.count('n', len(r.behs))
        ctx.count('variant', r.variant + ('/ff' if r.ff else ''))
        ctx.count('peak_in_flight', r.session.peak)
        ctx.count('history_len', min(len(r.ops), 20))
        for b in r.behs:
            ctx.count('behaviour', b)
        oracle(ctx, r)
        cases.append(P.g_case(r))
        meta.append(r)
    try:
        bad = ctx.coq_filter(['Concurrent'], '(fun b : bool => b)', cases, shard=250, prelude='Local Open Scope nat_scope.')
        for i in bad[:10]:
            r = meta[i]
            ctx.disagreement('model-vs-impl.' + r.variant, 'executor differs from Model/Concurrent.v: %s n=%d conc=%d ff=%s behs=%r history=%s' % (
                r.variant, len(r.behs), r.conc, r.ff, r.behs, ' '.join(P.g_op(o) for o in r.ops)), case=case_of(r), actual=r.trace[-6:])
    except RuntimeError as e:
        ctx.proof_broken.append(('correspondence:Concurrent', str(e)[-600:]))
    ctx.extra['peak_in_flight_max_seen'] = max([r.session.peak for r in runs] or [0])
    ctx.assume('each `with self._condition` region (incl. the nested synchronous completion chain) is one atomic step; completions may be '
               'delivered from any thread between any two regions',
               'execute_async either raises, returns a completed future, or returns a future completed later exactly once (C14)')


def replay(ctx, rp):
    c = rp.get('case') or {}
    if 'detsched' in c:
        for attempt in range(12):        # real threads: the wake-up of the waiting caller is timing dependent
            errs, trace = P.detsched_replay(c['detsched'])
            if 'InvalidStateError' in errs:
                print('detsched replay (attempt %d): caller/io errors %r; last lines %r' % (attempt + 1, errs, trace[-12:]))
                print('VIOLATION property=C32 replay=%s' % ctx.replay_path)
                return 1
        print('not reproduced')
        return 0
    if 'behs' not in c:
        print('nothing to replay: %s' % rp.get('theorem'))
        return 1
    r = P.run_history(c['behs'], c['conc'], c['ff'], c['variant'], scripted(c['ops']), c.get('maxrec', 100), c.get('with_args', False))
    print('replay %s n=%d concurrency=%d fail_fast=%s behaviours=%r' % (r.variant, len(r.behs), r.conc, r.ff, r.behs))
    for o, t in zip(r.ops, r.trace):
        print('  %-12s -> started=%d current=%d results=%r in_flight=%r future=%r pc=%r' % (
            P.g_op(o), t['started'], t['current'], t['results'], t['inflight'], t['fut'], t['pc']))
    print('  caller: %r   escaped: %r   peak in-flight: %d' % (r.main_outcome, r.escaped, r.session.peak))
    bad = oracle(ctx, r, report=False)
    for key, what, thm in bad:
        print('  %s: %s (%s)' % (key, what, thm))
    print(('VIOLATION property=C32 replay=%s' % ctx.replay_path) if bad else 'not reproduced')
    return 1 if bad else 0
