"""C01 -- every CQL value survives an encode/decode round trip.

Proof: Props/C01.v (induction over unbounded type trees) about the executable model Model/CqlCodec.v.
Tie (C): the model is run side by side with cassandra.cqltypes on generated nested types x values x protocol
versions (bytes AND decoded value compared), plus a malformed-bytes decode stream.  The property itself is checked
on the implementation by a Python oracle: decode(encode(x)) == norm(x).
"""
import json, os
from vf import core
from vf import codec_gen as G
from vf import codec_run as R
from vf import marshal_validation as MV

META = {
    'technique': 'Coq proof by structural induction over CQL type trees on an executable model of cqltypes '
                 'to_binary/from_binary + differential correspondence with the real cassandra.cqltypes',
    'level_text': 'C01_roundtrip (from_binary (to_binary v) = norm v for every well-formed type tree, every protocol version and every '
                  'value the encoder accepts, unbounded nesting and sizes), C01_null_elements, C01_null_fields, C01_empty_collections proved '
                  'about Model/CqlCodec.v; the model is compared with cassandra.cqltypes on generated types/values/bytes every run.',
    'level_note': 'Tie is correspondence (hand-written model), not translation. Modelled-not-verified: struct, str.encode/decode, '
                  'Decimal/datetime/UUID/inet conversions (the harness canonicalises them), util.sortedset ordering (C33). '
                  'Frozen/Reversed wrappers around text/ascii/blob and empty tuple values are outside the theorem (docs/C01.md).',
    'design_ref': 'DESIGN.md section 4, C01',
}


def oracle(ctx, c):
    """the statement on the implementation: whatever the driver encoded must decode to the normal form of the original"""
    R.decode_oracle(ctx, c, 'roundtrip', 'C01_roundtrip', 'decode(encode(x)) != x')


def gen(ctx):
    # (T) cassandra/marshal.py regenerated into coq/Gen/MarshalGen.v; MarshalBridge.v proves it equal to MarshalModel.v
    return MV.gen(ctx, parts=('marshal',))


def run(ctx):
    gen(ctx)
    ok = ctx.prove('Props/C01.v')
    if ctx.tier == 'thorough' and ok:
        ctx.coqchk('Props/C01.v')
    quick = ctx.tier == 'quick'
    cases = R.gen_cases(ctx, 1600 if quick else 20000, 150 if quick else 2000, 900 if quick else 10000, 4 if quick else 6)
    R.record(ctx, cases)
    ctx.rule = ('random type trees (depth <= %d) x protocol versions {1..6,0x41,0x42} x typed values from boundary pools with nulls at every '
                'level, fixed special shapes, corpus of past failures, out-of-range/shape-error stream, mutated-bytes decode stream; '
                'non-trivial = nested type or non-zero scalar; distinct by (stream, pv, type, value)' % (4 if quick else 6))
    ctx.exhaustive = False
    for c in cases:
        oracle(ctx, c)
    R.marshal_impl_oracle(ctx, ctx.rng, 40 if quick else 1000)
    try:
        MV.validate(ctx, parts=('marshal',))
    except Exception as e:      # the T-layer validation must not hide the verdict of this check
        ctx.proof_broken.append(('T-marshal validation', repr(e)[-400:]))
    try:
        exprs = R.model_exprs(cases)
        bad = ctx.coq_filter(R.MODEL_REQ, '(fun b : bool => b)', exprs, shard=200)
        for i in bad[:20]:
            c = cases[i]
            ctx.disagreement('model-vs-impl.' + c['stream'] + '.' + G.kind_of(c['t']),
                             'model differs from cassandra.cqltypes: %s' % json.dumps({k: c.get(k) for k in ('pv', 't', 'v', 'bs', 'enc', 'dec', 'enc_exc', 'dec_exc')})[:600],
                             case={k: c.get(k) for k in ('pv', 't', 'v', 'bs')}, actual={'enc': c.get('enc'), 'dec': c.get('dec')})
        ctx.extra['model_disagreements'] = len(bad)
    except RuntimeError as e:
        ctx.proof_broken.append(('correspondence:CqlCodec', str(e)[-800:]))
    ctx.trust('hand-written model Model/CqlCodec.v + MarshalModel.v + Utf8Model.v (tied by correspondence only)',
              'harness conversions model value <-> Python object (lib/vf/codec_gen.py): Decimal, datetime, util.Date/Time/Duration, UUID, inet_pton/ntop, struct float bits')
    ctx.assume('top-level null is the protocol layer\'s [value] = -1, not cqltypes (to_binary is applied to non-null values)',
               'sets are compared as sets (sortedset ordering is C33); binary32 NaNs modulo the quiet bit',
               'timestamps are datetimes with whole milliseconds')


def replay(ctx, rp):
    case = rp.get('case') or {}
    if 'v' not in case:
        print('nothing to replay against the driver: %s' % rp.get('theorem'))
        return 1
    c = R.run_case(case['pv'], case['t'], case['v'])
    print('replay pv=%s type=%s value=%s' % (case['pv'], json.dumps(case['t']), json.dumps(case['v'])[:300]))
    print('  encoded: %s   decoded: %s %s' % (bytes(c['enc']).hex() if c['enc'] is not None else c['enc_exc'], json.dumps(c['dec']), c['dec_exc'] or ''))
    before = len(ctx.violations)
    oracle(ctx, c)
    bad = len(ctx.violations) > before
    print(('VIOLATION property=C01 replay=%s' % ctx.replay_path) if bad else 'not reproduced')
    return 1 if bad else 0
