"""C09 -- multiplexed requests never receive another request's response.

Coq: Model/Conn.v (one op per lock region / unlocked statement group) + invariant proofs (Proofs/Conn_*.v) + Props/C09.v.
Tie (C): a REAL cassandra.connection.Connection without a socket, a REAL HostConnection (fake session/host), REAL
ResponseFuture._query / _on_timeout, driven by histories generated from the enabled operations; other actors' steps are
interleaved at the points where the source holds no lock; after EVERY model step the real object's request_ids,
_requests keys, orphaned ids, in_flight, flags, paging streams and callback events are compared with the model (inside
Coq).  The statement itself is checked on the implementation by a Python oracle.  Lock-region audit on every run.
"""
import itertools, json
from vf import core, conn_corr, conn_impl, conn_check

META = {
    'technique': 'Coq proof of a step invariant (id partition + in_flight accounting) over every op sequence of an executable model of one '
                 "connection's stream bookkeeping; lock-region audit of the source; step-by-step correspondence with the real Connection / "
                 'HostConnection / ResponseFuture fragments on generated and exhaustively enumerated interleavings',
    'level_text': 'C09_unique_ids, C09_no_id_lost, C09_in_flight_accounting, C09_bound, C09_assert_only_when_all_ids_in_use, C09_quiescent proved '
                  'for every op sequence of every length provided no response overtakes ResponseFuture._on_timeout between its unlocked pop '
                  'and its locked orphan region; without that proviso the statement is refuted (C09_full_refuted, open finding C09-1).',
    'level_note': 'Trusted: Coq kernel, the hand-written model (tied by correspondence at every step), the lock audit, the harness. '
                  'Two genuine defects found and fixed (unlocked get_request_id in set_keyspace_async; stream/in_flight leak on ConnectionBusy). '
                  'Routing is checked on the implementation by the oracle and follows in the model from uniqueness + one callback per registered id; '
                  'a separate Coq routing theorem is not stated.  GIL-level atomicity of dict.pop/deque.append is assumed.',
    'design_ref': 'DESIGN.md section 4 C09, Appendix A.1',
}


def oracles(h, cfg):
    mx = conn_check.max_id_of(cfg)
    return conn_corr.oracle_c09(h, mx) + conn_corr.oracle_quiescent(h)


def report(ctx, h, cfg, acts, label):
    found = oracles(h, cfg)
    for key, what, k in found:
        ctx.violation(key, '%s [%s] history=%s' % (what, label, json.dumps(acts)[:500]), case={'cfg': cfg, 'actions': acts},
                      expected='C09 statement', actual=h.points[k][1] if k < len(h.points) else None, kind='interleaving',
                      theorem='C09_unique_ids' if key.startswith('dup') else ('C09_quiescent' if key.startswith('not-q') else 'C09_bound'))
    for p in h.problems:
        ctx.disagreement('harness-problem', 'unexpected behaviour of the real code: %s' % p[:300], case={'cfg': cfg, 'actions': acts})
    return found


def chains(nreq):
    """all interleavings of nreq requests, each: query then one of {respond, timeout, timeout+late response}, optionally a
    connection failure at any position"""
    kinds = [('q', 'r'), ('q', 't'), ('q', 't', 'r')]
    for ks in itertools.product(kinds, repeat=nreq):
        def merges(rem):
            if all(len(x) == 0 for x in rem):
                yield []
                return
            for i, x in enumerate(rem):
                if x:
                    nxt = list(rem)
                    nxt[i] = x[1:]
                    for m in merges(tuple(nxt)):
                        yield [(i, x[0])] + m
        for m in merges(tuple(ks)):
            yield m


def seq_to_actions(seq, fail_at=None):
    acts, rid = [], {}
    for pos, (i, e) in enumerate(seq):
        if fail_at == pos:
            acts.append({'a': 'defunct'})
        if e == 'q':
            acts.append({'a': 'query', 'r': i + 1, 'in_cb': [{'a': 'return'}]})
        elif e == 'r':
            acts.append({'a': 'respond_tok', 'r': i + 1})
        else:
            acts.append({'a': 'timeout', 'r': i + 1, 'live': True})
    if fail_at is not None and fail_at >= len(seq):
        acts.append({'a': 'defunct'})
    return acts


def run(ctx):
    ok = ctx.prove('Props/C09.v')
    if ctx.tier == 'thorough' and ok:
        ctx.coqchk('Props/C09.v')
    auditp = conn_check.run_audit(ctx)
    ctx.trust('no-socket harness lib/vf/conn_impl.py (close() replicates the reactors\' common close(); hooks at unlocked points)',
              'Python oracle of the statement lib/vf/conn_corr.py:oracle_c09/oracle_quiescent')
    ctx.assume('process_msg is only called from the reactor\'s single event-loop thread (one message at a time)',
               'the server answers only requests that were sent, at most once per request (paging sessions excepted)',
               'callers hand each borrowed in_flight unit back at most once (C12/C14)',
               'dict.pop / deque.append / set.add are atomic (GIL)')
    hs = []
    # corpus first: pre-fix failing cases and the witness of the refuted full statement
    for fn, c in conn_check.load_corpus('C09'):
        h = conn_corr.run_history(c['cfg'], c['actions'])
        hs.append(('corpus:' + fn, c['cfg'], c['actions'], h))
        ctx.count('profile', 'corpus')
    if any('get_request_id' in p for p in auditp):
        ctx.count('directed', 'unlocked-get_request_id-probe')
    # the INITIAL state built by the real constructor (v3+ and v1/v2, several max_in_flight) must satisfy the model's `init`
    for icfg in conn_check.INIT_CFGS:
        probs, facts = conn_check.initial_state_problems(icfg)
        ctx.case(['init', icfg], nontrivial=True, sample={'constructor': icfg, 'state': facts})
        ctx.count('profile', 'initial-state')
        for key, what in probs:
            ctx.violation(key, '%s (Connection.__init__ with %r)' % (what, icfg), case={'init_cfg': icfg}, expected='request_ids == 0..highest_request_id <= max',
                          actual=facts, kind='input', theorem='C09_unique_ids / C09_bound (hypothesis: init n m t)')
    # one history past the constructor's pre-allocated ids on an unmodified default connection (grow path of get_request_id)
    for icfg in (conn_check.INIT_CFGS[0], conn_check.INIT_CFGS[5]) if ctx.tier == 'thorough' else (conn_check.INIT_CFGS[0],):
        if icfg.get('protocol_version', 4) < 3:
            continue      # the harness speaks v4 frames; v1/v2 connections cannot grow (all ids pre-allocated)
        h2, acts2 = conn_check.past_initial_fill(icfg)
        ctx.case(['past-fill', icfg], nontrivial=True, sample={'constructor': icfg, 'requests_in_flight': len(h2.tokens),
                                                              'highest_after': h2.conn.highest_request_id})
        ctx.count('profile', 'past-initial-fill')
        for key, what, k in oracles(h2, icfg):
            ctx.violation(key, '%s [%d requests simultaneously in flight on a default connection]' % (what, len(acts2) // 2),
                          case={'past_fill': icfg}, expected='C09 statement', actual={kk: (v if not isinstance(v, list) or len(v) < 12 else v[:6] + ['...'] + v[-6:])
                                                                                          for kk, v in h2.points[k][1].items() if kk != 'events'},
                          kind='history', theorem='C09_unique_ids')
        for pr in h2.problems:
            ctx.disagreement('harness-problem', pr[:300], case={'past_fill': icfg})
    n = 120 if ctx.tier == "quick" else 1500
    hs += conn_check.random_histories(ctx, n)
    exhaustive = []
    if ctx.tier == 'thorough':
        for nreq in (1, 2, 3):
            for seq in chains(nreq):
                fails = [None] + (list(range(len(seq) + 1)) if nreq <= 2 else [])
                for fa in fails:
                    acts = seq_to_actions(seq, fa)
                    cfg = dict(n_init=1, max_in_flight=3, thr=2)
                    h = conn_corr.run_history(cfg, acts)
                    exhaustive.append(('exhaustive', cfg, acts, h))
        ctx.count('profile', 'exhaustive', len(exhaustive))
        ctx.exhaustive = True
        hs += exhaustive
    else:
        ctx.exhaustive = False
    ctx.rule = ('histories generated by walking the operations enabled on the real object (1-6 requests; profiles plain/busy/fail/mixed/race), '
                'other actors interleaved at unlocked points; thorough adds ALL interleavings of <=3 requests x {respond, timeout, timeout+late '
                'response} (with a connection failure at every position for <=2 requests); non-trivial = history with >=2 requests or a timeout/failure; '
                'distinct = distinct action list')
    for name, cfg, acts, h in hs:
        nontriv = len(h.tokens) >= 2 or any(a['a'] in ('timeout', 'defunct', 'close') for a in acts)
        ctx.case([cfg, acts], nontrivial=nontriv,
                 sample={'profile': name, 'cfg': cfg, 'actions': acts[:6], 'model_ops': conn_corr.all_ops(h)[:14],
                         'final': {k: v for k, v in (h.points[-1][1].items() if h.points else []) if k != 'events'}})
        report(ctx, h, cfg, acts, name)
    conn_check.compare_with_model(ctx, hs, 'C09')


def replay(ctx, rp):
    case = rp.get('case') or {}
    if case.get('init_cfg'):
        probs, facts = conn_check.initial_state_problems(case['init_cfg'])
        print('constructor state', facts, probs)
        print(('VIOLATION property=C09 replay=%s' % ctx.replay_path) if probs else 'not reproduced')
        return 1 if probs else 0
    if case.get('past_fill'):
        h2, acts2 = conn_check.past_initial_fill(case['past_fill'])
        found = oracles(h2, case['past_fill'])
        print('oracle:', found)
        print(('VIOLATION property=C09 replay=%s' % ctx.replay_path) if found else 'not reproduced')
        return 1 if found else 0
    if not case.get('actions'):
        print('nothing to replay: %s' % rp.get('theorem'))
        return 1
    h = conn_corr.run_history(case['cfg'], case['actions'])
    found = oracles(h, case['cfg'])
    for ops, sn in h.points:
        print(ops, {k: v for k, v in sn.items() if k != 'events'})
    print('oracle:', found, 'problems:', h.problems)
    print(('VIOLATION property=C09 replay=%s' % ctx.replay_path) if found else 'not reproduced')
    return 1 if found else 0
