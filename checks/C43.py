"""C43 -- schema agreement is reported only when all live nodes agree.

Coq: Model/SchemaAgreement.v (hand-written model of _get_schema_mismatches, the wait loop with a virtual clock, and the
schema-change path of ResponseFuture), theorems in Props/C43.v for every script of polls.
(C) the REAL ControlConnection.wait_for_schema_agreement / _get_schema_mismatches / _refresh_schema,
refresh_schema_and_set_result and ResponseFuture._set_result run on a never-connected Cluster with a fake connection
returning scripted system.local / system.peers(_v2) snapshots, scripted host states and a virtual clock; every poll's
timeout argument, every sleep, every _get_schema_mismatches result, the verdict and is_schema_agreed are compared with the model.
"""
import ast, itertools, json, os
from vf import core
from vf import nodes_c43 as N

META = {
    'technique': 'Coq proof (induction over poll scripts) on a hand-written model of wait_for_schema_agreement / '
                 '_get_schema_mismatches / the schema-change path of ResponseFuture + per-step correspondence with the real methods '
                 'under a virtual clock',
    'level_text': 'C43_mismatch_spec, C43_verdict, C43_verdict_sound, C43_keeps_polling, C43_false_only_after_budget, '
                  'C43_terminates, C43_future_records, C43_future_never_overclaims, C43_future_at_delivery, C43_rows_counted_by_endpoint proved for every script of polls '
                  '(snapshots, host states, timeouts, durations) of any length; the model is run side by side with the real '
                  'methods on generated scripts and on the exhaustive 2-peer snapshot space.',
    'level_note': 'Tie is correspondence (C), not translation: assurance is the weaker of proof and differential run. '
                  'Reading (DESIGN 4.0): agreement = exactly one distinct non-empty version; max_schema_agreement_wait <= 0 is the '
                  'documented bypass and outside the statement; a Metadata.refresh that raises leaves is_schema_agreed False '
                  '(environment failure, excluded by hypothesis). Not modelled: real threads / the schema-agreement lock, '
                  'address translation, real clocks.',
    'design_ref': 'DESIGN.md section 4, C43',
}

def gen_hosts(rng, v1):
    hosts = {}
    for ep in (1, 2, 3):
        r = rng.random()
        if r < 0.55:
            hosts[str(ep)] = 'up'
        elif r < 0.75:
            hosts[str(ep)] = 'down'
        elif r < 0.85:
            hosts[str(ep)] = 'none'
    if not v1:
        # peers_v2 only: nodes on a non-default native port (several nodes behind one address, mixed-port clusters); the same
        # address may or may not also be known on the default port
        for k in ('2:9043', '3:9043'):
            r = rng.random()
            if r < 0.25:
                hosts[k] = rng.choice(['up', 'up', 'down', 'none'])
                if rng.random() < 0.5:
                    hosts.pop(k.split(':')[0], None)
    if v1 or rng.random() < 0.8:
        hosts['100'] = rng.choice(['up', 'up', 'down', 'none'])
    return hosts


def gen_snap(rng, agree_bias, hosts=None):
    """agree_bias: probability that every row carries version 1"""
    n = rng.choice([0, 1, 2, 2, 3, 3, 4, 5])
    same = rng.random() < agree_bias
    peers = []
    for _ in range(n):
        ep = rng.choice([1, 2, 3, 3, 4, 100] if rng.random() < 0.2 else [1, 2, 3])
        if hosts and rng.random() < 0.5:
            alt = [k for k in hosts if ':' in k and k.split(':')[0] == str(ep)]
            if alt:
                ep = alt[0]
        if same:
            v = 1 if rng.random() < 0.9 else None
        else:
            v = rng.choice([1, 1, 2, 3, None])
        peers.append([ep, v])
    r = rng.random()
    local = 'norow' if r < 0.07 else (None if r < 0.14 else (1 if same or rng.random() < 0.7 else 2))
    if not same and hosts and rng.random() < 0.75:
        # make the disagreement real: a counted peer reports a version the control node does not
        live = [e if ':' in e else int(e) for e, st in hosts.items() if st != 'down']
        if live and len(peers) < 5:
            peers.insert(rng.randrange(len(peers) + 1), [rng.choice(live), 3 if local == 2 else 2])
            if local in ('norow', None) and rng.random() < 0.7:
                local = 1
    return {'local': local, 'peers': peers}


def gen_poll(rng, v1, agree_bias):
    r = rng.random()
    hosts = gen_hosts(rng, v1)
    if r < 0.15:
        resp = 'timeout'
    elif r < 0.18:
        resp = rng.choice(['shutdown_cc', 'shutdown_raise'])
    else:
        resp = gen_snap(rng, agree_bias, hosts)
    return {'hosts': hosts, 'resp': resp, 'dur': rng.choice([0, 0, 1, 10, 50, 150, 199, 200, 450])}


def gen_case(rng, mode):
    v2 = rng.random() < 0.5
    budget = rng.choice([1, 199, 200, 201, 400, 500, 600, 999, 1000, 1000, 1500, 1500, 2000, 2000, 3000] if rng.random() < 0.93 else [0, -1, -500])
    q = rng.choice([1, 50, 100, 200, 250, 400, 1000, 2000, 5000])
    q = max(q, budget // 40)          # keeps all-timeout scripts below ~40 polls
    late = rng.random() < 0.5     # agreement tends to come late / never
    npolls = rng.choice([0, 1, 2, 3, 4, 5, 6])
    polls = [gen_poll(rng, not v2, 0.04 if late else 0.3) for _ in range(npolls)]
    tailkind = rng.random()
    tail = gen_poll(rng, not v2, 0.0 if tailkind < 0.6 else 0.9)
    if tail['resp'] in ('shutdown_cc', 'shutdown_raise') and rng.random() < 0.7:
        tail['resp'] = 'timeout'
    case = {'mode': mode, 'budget_ms': budget, 'qtimeout_ms': q, 'v2': v2, 'polls': polls, 'tail': tail,
            'cc_shutdown': rng.random() < 0.04}
    if rng.random() < 0.3:
        # two-waiter history: waiter A holds the schema-agreement lock across its own polls while this waiter is queued
        a_polls = [gen_poll(rng, not v2, 0.05) for _ in range(rng.choice([1, 2, 3, 4]))]
        a_tail = gen_poll(rng, not v2, rng.choice([0.0, 0.9]))
        for p in a_polls + [a_tail]:
            if p['resp'] in ('shutdown_cc', 'shutdown_raise'):
                p['resp'] = 'timeout'
        case['waiter_a'] = {'polls': a_polls, 'tail': a_tail}
    if mode == 'future':
        case['cluster_shutdown'] = rng.random() < 0.04
        case['meta_enabled'] = rng.random() < 0.7
        case['refresh_raises'] = rng.random() < 0.12
    else:
        case['via_wait_time'] = rng.random() < 0.5
        case['conn_from_cc'] = rng.random() < 0.3
        if 'waiter_a' not in case and rng.random() < 0.35:
            case['preloaded'] = {'hosts': gen_hosts(rng, not v2), 'snap': gen_snap(rng, 0.5)}
        if rng.random() < 0.2:
            case['tail'] = None         # finite script: the model must say `More` exactly where the real loop asks again
    return case


def lock_audit(src):
    """The model takes `elapsed = 0` when the waiter holds the schema-agreement lock: every read of the clock, every sleep and
    every query of wait_for_schema_agreement must lie inside `with self._schema_agreement_lock:` (time spent queued on the
    lock must not count against the waiter's budget)."""
    probs = []
    tree = ast.parse(src)
    fn = None
    for n in ast.walk(tree):
        if isinstance(n, ast.ClassDef) and n.name == 'ControlConnection':
            for m in n.body:
                if isinstance(m, ast.FunctionDef) and m.name == 'wait_for_schema_agreement':
                    fn = m
    if fn is None:
        return ['ControlConnection.wait_for_schema_agreement not found']

    def is_lock(e):
        return (isinstance(e, ast.Attribute) and e.attr == '_schema_agreement_lock' and isinstance(e.value, ast.Name) and e.value.id == 'self')
    withs = [n for n in ast.walk(fn) if isinstance(n, ast.With) and any(is_lock(i.context_expr) for i in n.items)]
    if len(withs) != 1:
        return ['expected exactly one `with self._schema_agreement_lock:` region, found %d' % len(withs)]
    inside = set(id(n) for n in ast.walk(withs[0]))

    def timed(call):
        f = call.func
        if isinstance(f, ast.Attribute) and f.attr in ('time', 'sleep') and isinstance(f.value, ast.Attribute) and f.value.attr == '_time':
            return 'self._time.%s()' % f.attr
        if isinstance(f, ast.Attribute) and f.attr in ('wait_for_responses', 'wait_for_response'):
            return 'connection.%s()' % f.attr
        if isinstance(f, ast.Attribute) and f.attr in ('time', 'sleep', 'monotonic') and isinstance(f.value, ast.Name) and f.value.id == 'time':
            return 'time.%s() (not the injectable self._time)' % f.attr
        return None
    n_clock = 0
    for n in ast.walk(fn):
        if isinstance(n, ast.Call):
            t = timed(n)
            if t is None:
                continue
            if t.startswith('time.'):
                probs.append('%s at line %d' % (t, n.lineno))
            elif id(n) not in inside:
                probs.append('%s at line %d is outside the schema-agreement lock region' % (t, n.lineno))
            elif t == 'self._time.time()':
                n_clock += 1
    for n in ast.walk(fn):
        if isinstance(n, ast.Assign) and any(isinstance(t, ast.Name) and t.id in ('start', 'elapsed') for t in n.targets) and id(n) not in inside:
            probs.append('`%s` assigned at line %d, outside the lock region' % (n.targets[0].id, n.lineno))
    if n_clock == 0:
        probs.append('no clock reading inside the lock region')
    return probs


def corpus_cases():
    d = os.path.join(core.VERIF, 'corpus', 'C43')
    out = []
    if os.path.isdir(d):
        for fn in sorted(os.listdir(d)):
            if fn.endswith('.json'):
                with open(os.path.join(d, fn)) as f:
                    out.append(json.load(f)['case'])
    return out


def eval_case(ctx, case):
    """run the real code on one case; returns (obs, gallina check, problems)"""
    if case['mode'] == 'future':
        obs = N.run_future(case)
        probs = N.check_future(case, obs)
        g = N.g_future_case(case, obs)
        outcome = obs['wait']
    else:
        obs = N.run_direct(case)
        probs = N.check_wait(case, obs['outcome'], obs['consumed'])
        g = N.g_direct_case(case, obs)
        outcome = obs['outcome']
    return obs, g, probs, outcome


def nontrivial(case, obs, outcome):
    """a case is non-trivial when at least one poll was examined and the budget is positive"""
    return case['budget_ms'] > 0 and obs['consumed'] >= 1


def report(ctx, case, obs, probs):
    for key, what in probs:
        thm = 'C43_future_records' if key.startswith('future.') else ('C43_keeps_polling' if 'early' in key else 'C43_verdict')
        ctx.violation(key, what, case=case, expected='statement of C43 (checks/C43.py: check_wait / check_future)',
                      actual={k: obs[k] for k in obs if k in ('outcome', 'wait', 'is_schema_agreed', 'agreed_raw', 'events', 'consumed')},
                      theorem=thm, kind='history')


def mismatch_space():
    """every snapshot over two peer rows: version in {null,1,2} x host state in {absent,up,down,none}, local in 4 forms"""
    peer_opts = [(v, st) for v in (None, 1, 2) for st in (None, 'up', 'down', 'none')]
    for local in ('norow', None, 1, 2):
        for (v1, s1), (v2, s2) in itertools.product(peer_opts, repeat=2):
            hosts = {}
            if s1:
                hosts['1'] = s1
            if s2:
                hosts['2'] = s2
            yield hosts, {'local': local, 'peers': [[1, v1], [2, v2]]}


def run(ctx):
    ok = ctx.prove('Props/C43.v')
    if ctx.tier == 'thorough' and ok:
        ctx.coqchk('Props/C43.v')
    ctx.trust('harness fakes (lib/vf/nodes_harness.py, nodes_c43.py): fake control connection, virtual clock as ControlConnection._time, '
              'synchronous session.submit, recording Metadata.refresh',
              'hand-written model Model/SchemaAgreement.v tied to the source by correspondence only')
    probs = lock_audit(open(os.path.join(core.REPO, 'cassandra/cluster.py')).read())
    ctx.extra['lock_audit'] = probs or 'ok: clock readings, sleeps and queries of wait_for_schema_agreement all inside `with self._schema_agreement_lock`'
    ctx.trust('lock-region audit of ControlConnection.wait_for_schema_agreement (checks/C43.py:lock_audit)')
    if probs:
        ctx.proof_broken.append(('atomicity-audit', '; '.join(probs)))
    ctx.assume('one poll = one loop iteration; host states are read once per poll (when the snapshot is examined)',
               'ControlConnection._timeout > 0; OperationTimedOut is raised after exactly the timeout passed to wait_for_responses',
               'a waiter\'s budget starts when it holds the schema-agreement lock (checked by the lock audit and by two-waiter '
               'histories with a scripted lock: the first waiter\'s whole wait runs while the second is queued)')
    ctx.rule = ('scripts of 0-6 polls + a repeated tail poll over endpoints {1,2,3,4,control}, versions {null,1,2,3}, host states '
                '{absent,up,down,None}, timeouts/shutdowns mixed in, budgets around the 200 ms sleep and qtimeout boundaries, peers v1/v2, '
                'direct waits (preloaded results, wait_time override, connection taken from the control connection) and the full '
                'ResponseFuture schema-change path (schema metadata on/off, refresh raising, shutdown flags); plus the exhaustive '
                'two-row snapshot space for _get_schema_mismatches. non-trivial = positive budget and at least one poll examined; '
                'distinct = canonical JSON of the case')
    cases, meta = [], []
    # ---- _get_schema_mismatches alone, exhaustive two-row space (both table versions)
    n_mm = 0
    mm = N.MismatchRunner()
    for v2 in (True, False):
        for hosts, snap in mismatch_space():
            res = mm(hosts, snap, v2)
            n_mm += 1
            want = N.single_version(hosts, snap)
            ctx.case(['mm', v2, hosts, snap], nontrivial=True,
                     sample={'hosts': hosts, 'snapshot': snap, 'mismatches': res} if n_mm % 211 == 0 else None)
            ctx.count('mismatch_space', 'agree' if want else 'disagree')
            if (res is None) != want:
                ctx.violation('mismatches.' + ('false-agreement' if res is None else 'missed-agreement'),
                              '_get_schema_mismatches returned %r for reported versions %r' % (res, sorted(N.reported_versions(hosts, snap))),
                              case={'mode': 'mismatch', 'hosts': hosts, 'snap': snap, 'v2': v2}, expected='None iff exactly one version',
                              actual=res, theorem='C43_mismatch_spec')
            cases.append(N.g_mismatch_case(hosts, snap, res))
            meta.append(('mismatch', {'hosts': hosts, 'snap': snap, 'v2': v2}, res))
    mm.close()
    ctx.exhaustive = False
    ctx.extra['exhaustive_part'] = 'two-row snapshot space of _get_schema_mismatches: %d cases, complete' % n_mm
    # ---- corpus + generated scripts
    todo = list(corpus_cases())
    n = 600 if ctx.tier == 'quick' else 5000
    for i in range(n):
        todo.append(gen_case(ctx.rng, 'future' if i % 2 == 0 else 'direct'))
    for case in todo:
        obs, g, probs, outcome = eval_case(ctx, case)
        ctx.case(case, nontrivial=nontrivial(case, obs, outcome),
                 sample={'case': case, 'observed': {k: obs[k] for k in obs if k != 'mismatches'}} if obs['consumed'] >= 2 else None)
        ctx.count('mode', case['mode'])
        ctx.count('polls_consumed', min(obs['consumed'], 12))
        ctx.count('outcome', (outcome or ['no-wait'])[0])
        ctx.count('peers_table', 'v2' if case['v2'] else 'v1')
        if case['mode'] == 'future':
            ctx.count('future', 'agreed' if obs['is_schema_agreed'] else 'not-agreed')
            ctx.count('future_env', 'meta=%s raises=%s' % (case['meta_enabled'], case['refresh_raises']))
        report(ctx, case, obs, probs)
        cases.append(g)
        meta.append((case['mode'], case, obs))
        ctx.count('waiters', 'two' if obs.get('waiter_a') else 'one')
        if obs.get('waiter_a'):
            ca, oa = N.waiter_a_case(case), obs['waiter_a']
            pa = N.check_wait(ca, oa['outcome'], oa['consumed'])
            for key, what in pa:
                ctx.violation(key + '.first-waiter', 'first of two waiters: ' + what, case=case, actual=oa, theorem='C43_verdict', kind='history')
            cases.append(N.g_direct_case(ca, oa))
            meta.append(('first-waiter', case, oa))
        # per-poll _get_schema_mismatches results seen inside the wait
        pre = case.get('preloaded') if case['mode'] == 'direct' else None
        seq = []
        if pre is not None and case['budget_ms'] > 0 and not case.get('cc_shutdown'):
            seq.append((pre['hosts'], pre['snap']))
        for k in range(obs['consumed']):
            p = N.poll_at(case, k)
            if isinstance(p['resp'], dict):
                seq.append((p['hosts'], p['resp']))
        if len(seq) == len(obs['mismatches']):
            for (hosts, snap), res in zip(seq, obs['mismatches']):
                cases.append(N.g_mismatch_case(hosts, snap, None if res is None else [(v, None) for v in res]))
                meta.append(('mismatch-in-wait', {'hosts': hosts, 'snap': snap}, res))
        else:
            ctx.disagreement('mismatch-calls', '_get_schema_mismatches was called %d times, script has %d snapshots examined'
                             % (len(obs['mismatches']), len(seq)), case=case, actual=obs['mismatches'])
    # identical model evaluations (mostly repeated snapshots inside waits) are sent to Coq once
    uniq, first = [], {}
    for i, g in enumerate(cases):
        if g not in first:
            first[g] = len(uniq)
            uniq.append(i)
    try:
        bad = [uniq[j] for j in ctx.coq_filter(['SchemaAgreement'], '(fun b : bool => b)', [cases[i] for i in uniq], shard=250)]
    except RuntimeError as e:
        ctx.proof_broken.append(('correspondence:SchemaAgreement', str(e)[-600:]))
        bad = []
    for i in bad[:10]:
        kind, case, obs = meta[i]
        ctx.disagreement('model-vs-impl.' + kind, 'model differs from the driver (%s): %s' % (kind, json.dumps(case, sort_keys=True)[:400]),
                         case=case, actual=obs if not isinstance(obs, dict) else {k: obs[k] for k in obs if k != 'mismatches'})
    ctx.extra['model_disagreements'] = len(bad)


def replay(ctx, rp):
    case = rp.get('case')
    if not case:
        print('nothing to replay: %s' % rp.get('theorem'))
        return 1
    if case.get('mode') == 'mismatch':
        res = N.run_mismatch(case['hosts'], case['snap'], case['v2'])
        bad = (res is None) != N.single_version(case['hosts'], case['snap'])
        print('replay _get_schema_mismatches -> %r' % (res,))
    else:
        if case['mode'] == 'future':
            obs = N.run_future(case)
            probs = N.check_future(case, obs)
        else:
            obs = N.run_direct(case)
            probs = N.check_wait(case, obs['outcome'], obs['consumed'])
        print('replay %s -> %s' % (case['mode'], json.dumps({k: obs[k] for k in obs if k != 'mismatches'}, default=str)))
        for key, what in probs:
            print('  %s: %s' % (key, what))
        bad = bool(probs)
    print(('VIOLATION property=C43 replay=%s' % ctx.replay_path) if bad else 'not reproduced')
    return 1 if bad else 0
