"""C28 -- type descriptors round-trip between Cassandra and CQL notation.

Props/C28.v proves, by induction on unbounded type trees, that the model of lookup_casstype (scanner + stack machine +
apply_parameters) maps Cassandra's descriptor of a type to a class with that type's CQL name and codec structure, that
cqltype_to_python / python_to_cqltype round-trip CQL names and that strip_frozen removes exactly the frozen markers.
(C) the hand-written model (coq/Model/TypeDesc.v) is run side by side with the real cassandra.cqltypes on generated trees
(exhaustive for depth <= 2 over a small alphabet, random up to depth 4), on a malformed-descriptor stream and on CQL strings;
the statement itself is evaluated on the implementation by a Python oracle written from Cassandra's formats.
"""
import copy, glob, itertools, json, os, re
from vf import core
from vf import typedesc_impl as T

META = {
    'technique': 'Coq proof (induction on unbounded type trees) about a hand-written executable model of cqltypes.lookup_casstype / '
                 'cql_parameterized_type / cqltype_to_python / python_to_cqltype / strip_frozen + correspondence with the real functions',
    'level_text': 'Proved for every well-formed type tree of any depth: C28_cass_parse_codec (Cassandra\'s descriptor of the type parses to a '
                  'class with the type\'s codec structure and the specified CQL name, vectors written with the marshal class name), '
                  'C28_cass_parse_partial (same CQL name, vector-free trees), C28_cass_parse_refuted (the full clause fails on vectors: open '
                  'finding C28-1), C28_cql_roundtrip (cqltype_to_python then python_to_cqltype on every printed CQL type string, any number of '
                  'double-quoted UDT names, is the identity up to the blank after commas), C28_strip_frozen_string / C28_strip_frozen '
                  '(exactly the frozen markers are removed). Model tied to cassandra/cqltypes.py by differential execution, incl. histories '
                  'of successive parses sharing the registry and the UDT cache.',
    'level_note': 'Trusted: Coq kernel, the transcription of Cassandra\'s AbstractType.toString / CQL3Type names (the frozen marker of '
                  'tuples/UDTs follows the driver; UDT names compared unquoted on the descriptor side), the harness; re.Scanner, '
                  'ast.literal_eval, repr(list) and the class registry are modelled by hand. The model parses each descriptor from the '
                  'registry as it is after import; histories without reset are compared step by step and checked by the oracle.',
    'design_ref': 'DESIGN.md section 4, C28',
}

PRELUDE = T.CHAR_PRELUDE + r'''
Definition chk_prints (c : cls) (pr : option (option str * option str)) : bool :=
  match pr with Some (cf, cs) => opt_str_eqb (drv_cass true c) cf && opt_str_eqb (drv_cass false c) cs | None => true end.
Definition chk_parse (s : str) (r : pres cls) (cql : option str) (pr : option (option str * option str)) : bool :=
  let p := cass_parse s in
  pres_eqb p r && match p with POk c => opt_str_eqb (drv_cql c) cql && chk_prints c pr | _ => true end.
Definition chk_tree (t : ty) (s cqln stripped : str) (r : pres cls) (cql : option str) (pr : option (option str * option str)) : bool :=
  str_eqb (spec_cass_print t) s && str_eqb (spec_cql_name t) cqln
  && str_eqb (cql_name_gen (lit "vector") comma_sp false t) stripped && chk_parse s r cql pr.
Definition chk_cql (s : str) (p : option (list pyt)) (back : option str) (stripped : option (list pyt)) (sf : option str) : bool :=
  match cqltype_to_python s with
  | None => true
  | Some l => opt_pyts_eqb (Some l) p && opt_str_eqb (Some (python_to_cqltype l)) back
              && opt_pyts_eqb (strip_frozen_from_python l) stripped && opt_str_eqb (strip_frozen s) sf
  end.
Definition chk_names (s : str) (r : list str) : bool :=
  match cql_types_from_string s with None => true | Some l => list_eqb str_eqb l r end.
Definition chk_all (b : bool) : bool := b.
'''

LEAVES = ['int', 'text', 'float']
KS_POOL = ['ks', 'ks1', 'K_2', 'system', '42', 'UTF8Type', 'ListType', 'a', '7e3']
NAME_POOL = ['abcd', 'address', 'My Type', 'a-b', 'T1', 'x', 'point2d', 'int', 'phone_no', 'ip4', 'hi', 'A.B:c', 'ppp', '0x1',
             'A b', 'C, d', 'x<y', 'p>q', 'frozen<z>', 'Q', 'a  b,<c>']
QUOTED_NAMES = ['A b', 'C, d', 'x<y', 'p>q', 'frozen<z>', 'My Type']
FIELD_POOL = ['a', 'b', 'street', 'zip_code', 'Zip Code', 'f1', 'abc', 'x-y', 'q', '1st']
DIM_POOL = ['1', '2', '3', '4', '16', '128', '1536', '0', '10']


def S(n):
    return ('simple', n)


def exhaustive_trees(tier):
    d0 = [S(n) for n in LEAVES]

    def level(prev, binary_left):
        out = []
        for a in prev:
            out += [('list', a), ('set', a), ('tuple', [a]), ('udt', 'ks', 'abcd', ['f1'], [a]), ('vector', a, '3'), ('reversed', a)]
            if a[0] in ('list', 'set', 'map'):
                out.append(('frozen', a))
        left = set(repr(x) for x in binary_left)
        for a in binary_left:
            for b in prev:
                out += [('map', a, b), ('tuple', [a, b]), ('udt', 'ks1', 'address', ['street', 'b'], [a, b])]
                if repr(b) not in left:
                    out += [('map', b, a), ('tuple', [b, a])]
        return out
    d1 = level(d0, d0)
    le1 = d0 + d1
    d2 = level(le1, le1 if tier == 'thorough' else d0)
    seen, out = set(), []
    for t in le1 + d2:
        k = repr(t)
        if k not in seen:
            seen.add(k)
            out.append(t)
    return out


def rand_tree(rng, d, top=True):
    if d == 0 or rng.random() < 0.15:
        return S(rng.choice([s[0] for s in T.SIMPLE]))
    k = rng.choice(['list', 'set', 'map', 'tuple', 'udt', 'udt', 'vector', 'vector', 'frozen', 'reversed'])
    sub = lambda: rand_tree(rng, d - 1, False)
    if k in ('list', 'set', 'reversed'):
        return (k, sub())
    if k == 'map':
        return ('map', sub(), sub())
    if k == 'tuple':
        return ('tuple', [sub() for _ in range(rng.randint(0, 3))])
    if k == 'udt':
        n = rng.randint(0, 3)
        return ('udt', rng.choice(KS_POOL), rng.choice(NAME_POOL), [rng.choice(FIELD_POOL) + (str(i) if i else '') for i in range(n)],
                [sub() for _ in range(n)])
    if k == 'vector':
        return ('vector', sub(), rng.choice(DIM_POOL))
    inner = rand_tree(rng, d - 1, False)
    tries = 0
    while inner[0] not in ('list', 'set', 'map') and tries < 20:
        inner = (rng.choice(['list', 'set']), rand_tree(rng, max(0, d - 2), False))
        tries += 1
    return ('frozen', inner)


def quoted_trees(tier):
    """CQL type strings with two or three double-quoted (case-sensitive) UDT names, with frozen<...> / brackets / commas between
    them and inside the quotes"""
    U = lambda n: ('udt', 'ks1', n, ['a'], [S('int')])
    out = []
    for a, b in itertools.permutations(QUOTED_NAMES, 2):
        out += [('tuple', [U(a), ('frozen', ('list', S('int'))), U(b)]), ('map', U(a), U(b)),
                ('map', U(a), ('frozen', ('set', U(b)))), ('list', ('tuple', [U(a), U(b), U(a)])),
                ('map', ('frozen', ('list', U(a))), ('vector', U(b), '2'))]
    return out if tier == 'thorough' else out[::4]


def cql_only_trees(rng, n):
    """CQL type strings outside the descriptor grammar of `wf`: frozen directly inside frozen (the driver prints
    frozen<frozen<tuple<..>>> for FrozenType(TupleType(..))), frozen around tuples / UDTs / simple types, at any depth"""
    F = lambda x: ('frozen', x)
    U = lambda n: ('udt', 'ks1', n, ['a'], [S('int')])
    L = ('list', S('int'))
    out = [F(F(L)), F(F(F(L))), F(S('int')), F(F(S('int'))), F(('tuple', [S('int')])), F(U('addr')), F(U('A b')), F(F(U('A b'))),
           ('map', F(F(L)), F(('tuple', [F(L), F(F(S('text')))]))), ('list', F(F(('set', F(F(S('uuid'))))))),
           ('tuple', [F(L), F(F(L)), F(U('x<y'))]), F(('vector', F(F(L)), '3')), ('map', F(U('addr')), F(F(('tuple', []))))]

    def rnd(d):
        if d == 0 or rng.random() < 0.2:
            return S(rng.choice(['int', 'text', 'uuid', 'double']))
        k = rng.choice(['frozen', 'frozen', 'frozen', 'list', 'set', 'map', 'tuple', 'udt', 'vector'])
        if k == 'frozen':
            return F(rnd(d - 1))
        if k in ('list', 'set'):
            return (k, rnd(d - 1))
        if k == 'map':
            return ('map', rnd(d - 1), rnd(d - 1))
        if k == 'tuple':
            return ('tuple', [rnd(d - 1) for _ in range(rng.randint(0, 3))])
        if k == 'udt':
            return U(rng.choice(['addr', 'A b', 'C, d', 'point2d']))
        return ('vector', rnd(d - 1), rng.choice(['2', '3']))
    for _ in range(n):
        out.append(rnd(rng.choice([2, 3, 4])))
    return out


def vary(rng, t):
    """a tree that differs from t in one detail (a leaf type, a vector dimension, a UDT name or its field names)"""
    k = t[0]
    if k == 'simple':
        return S(rng.choice([n for n in ('int', 'text', 'float', 'double', 'bigint', 'uuid') if n != t[1]]))
    if k in ('list', 'set', 'frozen', 'reversed'):
        return (k, vary(rng, t[1]))
    if k == 'map':
        return ('map', vary(rng, t[1]), t[2]) if rng.random() < 0.5 else ('map', t[1], vary(rng, t[2]))
    if k == 'vector':
        return ('vector', vary(rng, t[1]), t[2]) if rng.random() < 0.7 else ('vector', t[1], str(int(t[2]) + 1))
    if k == 'tuple':
        if not t[1]:
            return ('tuple', [S('int')])
        i = rng.randrange(len(t[1]))
        return ('tuple', [vary(rng, x) if j == i else x for j, x in enumerate(t[1])])
    if k == 'udt':
        r = rng.random()
        if r < 0.25:
            return ('udt', t[1], t[2] + '2', t[3], t[4])
        if r < 0.5 and t[3]:
            return ('udt', t[1], t[2], [f + '_' for f in t[3]], t[4])
        if t[4]:
            i = rng.randrange(len(t[4]))
            return ('udt', t[1], t[2], t[3], [vary(rng, x) if j == i else x for j, x in enumerate(t[4])])
        return ('udt', t[1], t[2], ['n'], [S('int')])
    return t


def histories(rng, n):
    """successive descriptor parses in ONE process without resetting the registry / UserType._cache: the same keyspace.name is
    defined again with different field types / names (type dropped and re-created, or several tables read in turn)"""
    V = lambda e, d='3': ('vector', S(e), d)
    U = lambda name, fn, ft: ('udt', 'ks1', name, list(fn), list(ft))
    P = lambda name, fn=('x', 'y'): U(name, fn, [S('double'), S('double')])
    out = [
        [U('emb', ['id', 'v'], [S('int'), V('float')]), U('emb', ['id', 'v'], [S('int'), V('double')])],
        [U('emb', ['id', 'v'], [S('int'), V('float')]), U('emb', ['id', 'v'], [S('int'), V('double')]), U('emb', ['id', 'v'], [S('int'), V('float')])],
        [U('shape', ['id', 'p'], [S('int'), P('point')]), U('shape', ['id', 'p'], [S('int'), P('label')])],
        [U('shape', ['id', 'p'], [S('int'), P('point')]), U('shape', ['id', 'p'], [S('int'), P('point', ('lat', 'lon'))])],
        [U('rec', ['a'], [('list', S('int'))]), U('rec', ['a'], [('list', S('text'))])],
        [U('rec', ['a'], [S('int')]), U('rec', ['b'], [S('int')]), U('rec', ['a', 'b'], [S('int'), S('int')])],
        [U('rec', ['a'], [V('float', '3')]), U('rec', ['a'], [V('float', '4')])],
        [('list', U('emb', ['v'], [('tuple', [V('float', '2')])])), ('map', S('int'), U('emb', ['v'], [('tuple', [V('double', '2')])]))],
        [U('o', ['f'], [('frozen', ('list', U('i', ['v'], [V('float')])))]), U('o', ['f'], [('frozen', ('list', U('i', ['v'], [V('bigint')])))])],
    ]
    for _ in range(n):
        nf = rng.randint(1, 3)
        base = U(rng.choice(['emb', 'rec', 'My Type']), ['f%d' % i for i in range(nf)],
                 [rand_tree(rng, rng.choice([1, 2, 2])) for _ in range(nf)])
        base = ('udt', 'ks1', base[2], base[3], [rename_ks(x) for x in base[4]])
        h = [base]
        for _ in range(rng.randint(1, 2)):
            h.append(vary(rng, h[-1]) if rng.random() < 0.8 else h[0])
        out.append(h)
    return out


def rename_ks(t):
    """histories keep keyspaces and type names apart (a type named like its keyspace is a different, documented hazard)"""
    k = t[0]
    if k == 'udt':
        return ('udt', 'ks2', t[2] if t[2] not in ('ks1', 'ks2') else 'n', t[3], [rename_ks(x) for x in t[4]])
    if k in ('list', 'set', 'frozen', 'reversed'):
        return (k, rename_ks(t[1]))
    if k == 'vector':
        return ('vector', rename_ks(t[1]), t[2])
    if k == 'map':
        return ('map', rename_ks(t[1]), rename_ks(t[2]))
    if k == 'tuple':
        return ('tuple', [rename_ks(x) for x in t[1]])
    return t


def malformed_descriptors(rng, trees, n):
    out = ['VectorType(Int32Type , 4=>)', 'ListType(VectorType(Int32Type , 4=>))', 'VectorType(Int32Type , 4:)', 'VectorType(FloatType, ListType(Int32Type))',
           'MapType(VectorType(FloatType,UserType(ks,61)),Int32Type)', 'SetType(VectorType(FloatType,FloatType)(Int32Type,2))',
           '', '(', ')', '()', 'Int32Type', 'Int32Type()', 'Int32Type(UTF8Type)', 'ListType', 'ListType(', 'ListType(Int32Type',
           'ListType(Int32Type))', 'ListType(3)', 'ListType()', 'MapType(Int32Type)', '3', '007', '1_000', '1__0', '_1', '1_',
           'VectorType(FloatType,3)', 'VectorType(FloatType)', 'VectorType(3,FloatType)', 'VectorType(FloatType,FloatType)',
           'VectorType(FloatType,3)(Int32Type,4)', 'VectorType(FloatType,1_0)', 'VectorType(FloatType , 03)',
           'UserType', 'UserType()', 'UserType(ks)', 'UserType(ks,61)', 'UserType(ks,6)', 'UserType(ks,zz)', 'UserType(ks,e9)',
           'UserType(ks,61,Int32Type)', 'UserType(ks,61,6:Int32Type)', 'UserType(ks,61,62:3)', 'ListType(UserType(ks,61,62:3))',
           'UserType(3,61)', 'UserType(03,61)', 'UserType(ks,3)', 'UserType(ks,33)', 'UserType(ks,0033)', 'UserType(ListType(Int32Type),61)',
           'UserType(ks,61)(ks2,62,63:Int32Type)', 'AsciiType~', 'Int32Type UTF8Type', 'a:b:Int32Type', 'a=>Int32Type', 'a=b', 'a=>b=>UTF8Type',
           ':Int32Type', 'Int32Type:', '=>', 'x=', 'unknown', 'org.apache.cassandra.db.marshal.', 'org.apache.cassandra.db.marshal.Foo(Int32Type)',
           'Foo(Bar(Int32Type),3)', 'TupleType()', 'CompositeType(Int32Type,UTF8Type)', 'DynamicCompositeType(a=>Int32Type,b=>UTF8Type)',
           'DynamicCompositeType(Int32Type)', 'DynamicCompositeType', 'DynamicCompositeType()', 'ColumnToCollectionType(61:ListType(Int32Type))',
           'ReversedType', 'ReversedType(Int32Type,Int32Type)', 'FrozenType(Int32Type)', 'FrozenType()', 'ListType(Int32Type)(UTF8Type)',
           'DateType', 'VarcharType', 'TimestampType', 'PointType', 'DateRangeType', 'CompositeType', 'TupleType', 'VectorType',
           'ListType\t(\nInt32Type\r)', 'ListType(Int32Type);', 'ListType<Int32Type>', 'ReversedType(ReversedType(Int32Type))',
           'MapType(Int32Type,VectorType(FloatType,2))', 'SetType(ReversedType(VectorType(UUIDType , 4)))']
    toks = ['(', ')', ',', ' ', 'Int32Type', 'UTF8Type', 'ListType', 'MapType', 'TupleType', 'UserType', 'VectorType', 'FrozenType', 'ReversedType',
            'CompositeType', 'DynamicCompositeType', '3', '61', '6162', 'ks', 'a:', 'b=>', 'Foo', T.P + 'SetType', T.P + 'Nope', '6a6b:', '!', '12ab']
    for _ in range(n):
        r = rng.random()
        if r < 0.5 and trees:
            s = T.spec_cass(rng.choice(trees))
            for _ in range(rng.randint(1, 2)):
                i = rng.randrange(len(s) + 1)
                m = rng.random()
                if m < 0.35 and s:
                    j = min(len(s), i + rng.choice([1, 1, 1, 9, 31]))
                    s = s[:i] + s[j:]
                elif m < 0.7:
                    s = s[:i] + rng.choice(['(', ')', ',', ' ', '3', ':', '=>', 'x', '(3)', ',7', '~', '0']) + s[i:]
                else:
                    s = s.replace(T.P, '', rng.randint(1, 3))
            out.append(s)
        else:
            out.append(''.join(rng.choice(toks) for _ in range(rng.randint(1, 9))))
    return out


def maybe_quote(name):
    return name if re.match(r'^[a-z][a-z0-9_]*$', name) else '"%s"' % name


def cql_form(t, **kw):
    """CQL text of a tree, UDT names quoted the way Cassandra prints them"""
    def q(x):
        if x[0] == 'udt':
            return ('udt', x[1], maybe_quote(x[2]), x[3], [q(y) for y in x[4]])
        if x[0] in ('list', 'set', 'frozen', 'reversed'):
            return (x[0], q(x[1]))
        if x[0] == 'vector':
            return ('vector', q(x[1]), x[2])
        if x[0] == 'map':
            return ('map', q(x[1]), q(x[2]))
        if x[0] == 'tuple':
            return ('tuple', [q(y) for y in x[1]])
        return x
    return T.spec_cql(q(t), **kw)


def rng_sep(i):
    return ', ' if i % 2 else ','


def nosp(s):
    return s.replace(' ', '') if isinstance(s, str) else s


def classify_name_mismatch(got, want):
    if isinstance(got, str):
        if got.replace(T.P + 'VectorType<', 'vector<') == want:
            return 'vector-java-class-name'
        g2 = got.replace(T.P + 'VectorType<', 'vector<')
        if T.P + 'ReversedType<' in g2:
            return 'reversed-java-class-name'
    return 'other'


def oracle_tree(ctx, C, fresh, t, reset=True, cass=True):
    """the statement, on the implementation.  Returns list of (key, what, expected, actual)."""
    bad = []
    desc = T.spec_cass(t)
    want = T.spec_cql(t)
    if reset:
        fresh.reset()
    if not cass:
        return bad + oracle_cql(C, t)
    try:
        c = C.lookup_casstype(desc)
    except Exception as e:
        bad.append(('cass_parse.raises.%s' % type(e).__name__, 'lookup_casstype(%r) raises %s: %s' % (desc, type(e).__name__, str(e)[:120]), want, repr(e)[:200]))
        c = None
    if c is not None:
        try:
            got = c.cql_parameterized_type()
        except Exception as e:
            got = e
        if got != want:
            bad.append(('cass_parse.cql_name.%s' % classify_name_mismatch(got, want),
                        'CQL name of lookup_casstype(%r) is %r, Cassandra\'s name is %r' % (desc, got, want), want, repr(got)[:300]))
        if not T.codec_matches(C, c, t):
            bad.append(('cass_parse.codec', 'class parsed from %r does not have the codec structure of the type (%r)' % (desc, T.obs(C, c)), repr(t), repr(T.obs(C, c))[:300]))
        elif reset and isinstance(c, type):
            # same value codec, behaviourally: like the directly built class of the type at every protocol version
            for op, pv, got, ref in T.codec_behaviour(C, c, t)[:1]:
                bad.append(('cass_parse.codec_behaviour.%s.%s' % (op, 'v1v2' if pv < 3 else 'v3plus'),
                            'class parsed from %r does not %s like the codec of the type under protocol v%d: %r, the type\'s own class gives %r'
                            % (desc, op, pv, got[:2], ref[:2]), repr(ref)[:300], repr(got)[:300]))
    bad += oracle_cql(C, t)
    if reset:
        fresh.reset()
    return bad


def oracle_cql(C, t):
    bad = []
    names_ok = all(not any(ch in n for ch in '"\'\\\n') for n in udt_names(t))
    if names_ok:
        for sep in (', ', ','):
            s = cql_form(t, sep=sep)
            try:
                back = C.python_to_cqltype(C.cqltype_to_python(s))
            except Exception as e:
                back = e
            if not isinstance(back, str) or nosp(back) != nosp(s):
                bad.append(('cql_roundtrip', 'python_to_cqltype(cqltype_to_python(%r)) = %r' % (s, back), s, repr(back)[:300]))
        s = cql_form(t)
        want_s = cql_form(t, fz=False)
        try:
            got_s = C.strip_frozen(s)
        except Exception as e:
            got_s = e
        if not isinstance(got_s, str) or nosp(got_s) != nosp(want_s):
            bad.append(('strip_frozen', 'strip_frozen(%r) = %r, expected %r' % (s, got_s, want_s), want_s, repr(got_s)[:300]))
    return bad


def udt_names(t):
    out = []
    if t[0] == 'udt':
        out.append(t[2])
        for x in t[4]:
            out += udt_names(x)
    elif t[0] in ('list', 'set', 'frozen', 'reversed', 'vector'):
        out += udt_names(t[1])
    elif t[0] == 'map':
        out += udt_names(t[1]) + udt_names(t[2])
    elif t[0] == 'tuple':
        for x in t[1]:
            out += udt_names(x)
    return out


def parse_case(C, fresh, s, with_prints=True, reset=True):
    """drive lookup_casstype and the printers of its result; returns the Gallina arguments `r cql prints`"""
    if reset:
        fresh.reset()
    r = T.call(C.lookup_casstype, s)
    if r[0] == 'ok' and isinstance(r[1], type):
        c = r[1]
        cql, cf, cs = T.printed(c.cql_parameterized_type), T.printed(c.cass_parameterized_type, full=True), T.printed(c.cass_parameterized_type)
    else:
        cql = cf = cs = None
    g = '%s %s %s' % (T.gpres(r, C), T.gopt(cql), '(Some (%s, %s))' % (T.gopt(cf), T.gopt(cs)) if with_prints else 'None')
    summary = {'descriptor': s[:300], 'result': r[0] if r[0] != 'ok' else T.obs(C, r[1]), 'cql': cql, 'cass_full': cf}
    if reset:
        fresh.reset()
    return g, r, summary


def cql_case(C, s):
    p = T.call(C.cqltype_to_python, s)
    if p[0] == 'ok':
        pl = p[1]
        back = T.printed(C.python_to_cqltype, pl)
        st = T.call(C._strip_frozen_from_python, copy.deepcopy(pl))
        sf = T.call(C.strip_frozen, s)
        g = 'chk_cql %s (Some %s) %s %s %s' % (T.gs(s), T.gpyts(pl), T.gopt(back),
                                                 '(Some %s)' % T.gpyts(st[1]) if st[0] == 'ok' else 'None',
                                                 T.gopt(sf[1] if sf[0] == 'ok' else None))
    else:
        pl = back = None
        g = 'chk_cql %s None None None None' % T.gs(s)
    names = T.call(C.cql_types_from_string, s)
    g2 = 'chk_names %s %s' % (T.gs(s), T.glist(T.gs(x) for x in (names[1] if names[0] == 'ok' else ['<raised>'])))
    return g, g2, {'cql': s[:200], 'python': pl, 'back': back}


def malformed_cql(rng, goods, n):
    out = ['', 'int', 'list<int>', 'map<text,int>', 'map<text , int>', 'list<>', 'list<int', 'list<int>>', '<int>', 'a b', 'a,,b', 'a,', ',a',
           'frozen', 'frozen<>', 'frozen<int>', 'list<frozen>', 'frozen<frozen<list<int>>>', 'map<frozen<list<int>>, frozen<set<text>>>',
           'tuple<int, frozen<tuple<text, frozen<list<int>>>>, frozen<map<int, int>>>', 'list<int>, set<int>', 'frozenx<int>', 'xfrozen<frozenlist>',
           'frozen_t<int>', 'vector<float, 3>', 'a.b', 'list<a-b>', 'frozen<frozen>', 'frozen<frozen<>>', 'x<y<z>,w>',
           '"A b"', 'list<"A b">', 'map<"A b", frozen<"C d">>', 'tuple<"A b", frozen<list<int>>, "C d">', 'map<"a","b">', '"a""b"',
           '"a', 'a"', 'list<"a>', 'list<"a">"', '""', 'x"y"', '"y"x', '"it\'s"', '"a\\b"', '"a\nb"', 'frozen<"frozen">', '"frozen"<int>',
           'map<"<", ">">', 'map<",", frozen<"frozen<">>', 'tuple<"a", "b", "c", frozen<"d">>']
    for _ in range(n):
        s = rng.choice(goods)
        i = rng.randrange(len(s) + 1)
        m = rng.random()
        if m < 0.4 and s:
            s = s[:i] + s[i + 1:]
        elif m < 0.8:
            s = s[:i] + rng.choice(['<', '>', ',', ' ', 'frozen<', 'x', '>>', ', ']) + s[i:]
        else:
            s = s.replace(' ', '')
        out.append(s)
    return out


def check_registry(ctx, C):
    """the model's registry table (Model/TypeDesc.v) must be the driver's registry right after import"""
    rows = T.registry_table(C)
    exprs = []
    for name, cassname, typename, arity, kind in rows:
        k = 'Some KUdt' if kind == 'udt' else 'Some KVector' if kind == 'vector' else \
            'Some (KDefault %s %s)' % (T.gs(typename), 'None' if arity == 'UNKNOWN' else '(Some %d%%nat)' % arity)
        exprs.append('(match assoc %s registry, %s with | Some (KDefault a b), Some (KDefault a\' b\') => str_eqb a a\' && '
                     'match b, b\' with Some x, Some y => Nat.eqb x y | None, None => true | _, _ => false end '
                     '| Some KUdt, Some KUdt => true | Some KVector, Some KVector => true | _, _ => false end) && str_eqb %s %s'
                     % (T.gs(name), k, T.gs(name), T.gs(cassname)))
    exprs.append('Nat.eqb (List.length registry) %d%%nat' % len(rows))
    return exprs, rows


def run(ctx):
    ok = ctx.prove('Props/C28.v')
    if ctx.tier == 'thorough' and ok:
        ctx.coqchk('Props/C28.v')
    import cassandra.cqltypes as C
    fresh = T.Fresh(C)
    ctx.trust('oracle: Cassandra AbstractType.toString / CQL3Type.toString formats transcribed in Model/TypeDesc.v (spec_cass_print, '
              'spec_cql_name) and, independently, in lib/vf/typedesc_impl.py; the two transcriptions are compared on every case',
              'hand-written models of re.Scanner, ast.literal_eval, repr(list), the class registry (correspondence only)')
    ctx.assume('every parse starts from the registry as it is after import (lookup_casstype registers every class it creates under its '
               'name in module-level dicts; the harness restores them before each case)',
               'frozen marker of tuple / UDT CQL names follows the driver (frozen<tuple<..>>, frozen<name>); not independently verified',
               'UDT keyspace / type / field names are ASCII; vector dimensions are canonical decimal numerals')
    reg_exprs, rows = check_registry(ctx, C)
    import time as _time
    _t0 = _time.time()
    phases = ctx.extra.setdefault('phase_seconds', {})

    trees = []
    # corpus first
    for p in sorted(glob.glob(os.path.join(core.VERIF, 'corpus', 'C28', '*.json'))):
        with open(p) as f:
            for item in json.load(f):
                trees.append(tuplify(item['tree']))
    ex = exhaustive_trees(ctx.tier)
    if ctx.tier == 'quick':
        # depth <= 1 completely, depth 2 sampled (the thorough tier enumerates depth <= 2 completely)
        small = [t for t in ex if T.depth(t) <= 1]
        rest = [t for t in ex if T.depth(t) > 1]
        ex = small + ctx.rng.sample(rest, min(len(rest), 450))
    trees += ex
    trees += quoted_trees(ctx.tier)
    nrand = 150 if ctx.tier == 'quick' else 1500
    for _ in range(nrand):
        trees.append(rand_tree(ctx.rng, ctx.rng.choice([2, 3, 3, 4, 4])))
    ctx.exhaustive = (ctx.tier == 'thorough')
    ctx.rule = ('type trees: corpus + every tree of depth <= 2 over leaves {int,text,float} x {list,set,map,tuple,udt,vector,frozen,reversed} '
                '(%s) + %d random trees of depth <= 4 over all 20 native types with UDTs (hex names incl. all-digit hex), '
                'vectors, wrappers; + malformed descriptors and CQL strings (model-vs-driver only). non-trivial = distinct tree of depth >= 1'
                % ('enumerated completely' if ctx.tier == 'thorough' else 'depth <= 1 completely, depth 2 sampled', nrand))
    cases, meta = [], []
    seen = set()
    for t in trees:
        key = repr(t)
        if key in seen:
            continue
        seen.add(key)
        bad = oracle_tree(ctx, C, fresh, t)
        d = T.depth(t)
        ctx.count('depth', d)
        for k in T.kinds(t):
            ctx.count('kinds', k)
        desc = T.spec_cass(t)
        g, r, summary = parse_case(C, fresh, desc, with_prints=(len(cases) % 4 == 0))
        ctx.case(key, nontrivial=d >= 1, sample={'tree': t, 'descriptor': desc, 'parsed': summary['result'], 'cql_name': summary['cql']} if d >= 2 else None)
        for (k, what, exp, act) in bad:
            ctx.violation(k, what, case={'tree': t}, expected=exp, actual=act,
                          theorem='C28_cass_parse_partial' if k.startswith('cass_parse') else 'C28_cql_roundtrip' if k == 'cql_roundtrip' else 'C28_strip_frozen')
        cases.append('chk_tree %s %s %s %s %s' % (T.gty(t), T.gs(desc), T.gs(T.spec_cql(t)), T.gs(T.spec_cql(t, fz=False)), g))
        meta.append(('tree', t, summary))
    # histories: successive parses sharing the registry and the UDT cache; every parse must satisfy the statement on its own
    for h in histories(ctx.rng, 25 if ctx.tier == 'quick' else 150):
        fresh.reset()
        for i, t in enumerate(h):
            bad = oracle_tree(ctx, C, fresh, t, reset=False)
            desc = T.spec_cass(t)
            g, r, summary = parse_case(C, fresh, desc, with_prints=False, reset=False)
            ctx.count('stream', 'history_step')
            ctx.count('history_len', len(h)) if i == 0 else None
            ctx.case(['history', repr(h[:i + 1])], nontrivial=i >= 1,
                     sample={'history': h, 'step': i, 'parsed': summary['result']} if i == 1 and len(ctx.samples) < 4 else None)
            for (k, what, exp, act) in bad:
                ctx.violation('history.' + k, 'parse %d of a history sharing the UDT cache: %s' % (i + 1, what), case={'history': h, 'step': i},
                              expected=exp, actual=act, kind='history', theorem='C28_cass_parse_partial')
            cases.append('chk_tree %s %s %s %s %s' % (T.gty(t), T.gs(desc), T.gs(T.spec_cql(t)), T.gs(T.spec_cql(t, fz=False)), g))
            meta.append(('history', h[:i + 1], summary))
    fresh.reset()
    # CQL-only trees: nested frozen wrappers (outside the descriptor grammar): clauses 2 and 3 on the implementation + model
    conly = cql_only_trees(ctx.rng, 60 if ctx.tier == 'quick' else 400)
    for t in conly:
        if repr(t) in seen:
            continue
        seen.add(repr(t))
        ctx.count('stream', 'cql_only_tree')
        ctx.case(['cql-tree', repr(t)], nontrivial=True)
        for (k, what, exp, act) in oracle_tree(ctx, C, fresh, t, cass=False):
            ctx.violation(k, what, case={'tree': t, 'cql_only': True}, expected=exp, actual=act,
                          theorem='C28_cql_roundtrip' if k == 'cql_roundtrip' else 'C28_strip_frozen_string')
    # protocol version handed on by the wrapper classes (model: wrapper_ser_pv / wrapper_des_pv)
    fresh.reset()
    for (wname, pv, ser, des, size_del) in T.wrapper_routes(C):
        ctx.count('stream', 'wrapper_route')
        cases.append('(N.eqb (wrapper_ser_pv %s %d%%N) %d%%N && N.eqb (wrapper_des_pv %s %d%%N) %d%%N && Bool.eqb (wrapper_size_delegates %s) %s)'
                     % (T.gs(wname), pv, ser if isinstance(ser, int) else 999, T.gs(wname), pv, des if isinstance(des, int) else 999,
                        T.gs(wname), 'true' if size_del else 'false'))
        meta.append(('wrapper', [wname, pv], {'serialize_passes': ser, 'deserialize_passes': des, 'serial_size_delegated': size_del}))
    fresh.reset()
    # CQL strings of the trees (plain words and double-quoted names) + malformed ones
    goods = []
    for t in (trees[:60] + trees[-230:] if ctx.tier == 'quick' else trees[:1500] + trees[-1700:]):
        if all(re.match(r'^[A-Za-z0-9_]+$', n) and n != 'frozen' for n in udt_names(t)):
            goods.append(T.spec_cql(t))
            if len(goods) % 3 == 0:
                goods.append(T.spec_cql(t, sep=','))
        elif all(not any(ch in n for ch in '"\'\\\n') for n in udt_names(t)):
            goods.append(cql_form(t, sep=rng_sep(len(goods))))
    goods += [cql_form(t, sep=rng_sep(i)) for i, t in enumerate(conly[:(80 if ctx.tier == 'quick' else 400)])]
    cqls = list(dict.fromkeys(goods + malformed_cql(ctx.rng, goods or ['int'], 120 if ctx.tier == 'quick' else 600)))
    for s in cqls:
        g, g2, summary = cql_case(C, s)
        ctx.count('stream', 'cql_string')
        ctx.case(['cql', s], nontrivial='<' in s)
        cases.append('(%s && %s)' % (g, g2))
        meta.append(('cql', s, summary))
    # malformed descriptors
    for s in list(dict.fromkeys(malformed_descriptors(ctx.rng, trees, 150 if ctx.tier == 'quick' else 1500))):
        if not T.ascii_only(s):
            continue
        g, r, summary = parse_case(C, fresh, s)
        ctx.count('stream', 'malformed_descriptor')
        ctx.count('malformed_outcome', r[0] if r[0] != 'ok' else 'ok')
        ctx.case(['desc', s], nontrivial=True)
        cases.append('chk_parse %s %s' % (T.gs(s), g))
        meta.append(('desc', s, summary))
    for e in reg_exprs:
        cases.append('(%s)' % e)
        meta.append(('registry', None, {'rows': len(rows)}))
    phases['drive_implementation_and_oracle'] = round(_time.time() - _t0, 1)
    _t1 = _time.time()
    try:
        bad = ctx.coq_filter(['TypeDesc'], 'chk_all', cases, prelude=PRELUDE, shard=450, timeout=3000)
        for i in bad[:12]:
            kind, x, summary = meta[i]
            model = None
            if kind in ('tree', 'desc', 'history'):
                s = T.spec_cass(x) if kind == 'tree' else T.spec_cass(x[-1]) if kind == 'history' else x
                try:
                    model = ctx.coq_eval(['TypeDesc'], ['cass_parse %s' % T.gs(s),
                                                        'match cass_parse %s with POk c => (option_map show (drv_cql c), option_map show (drv_cass true c)) | _ => (None, None) end' % T.gs(s)], prelude=T.CHAR_PRELUDE)
                except RuntimeError as e:
                    model = str(e)[-300:]
            ctx.disagreement('model-vs-impl.' + kind, 'model differs from cassandra.cqltypes on %s %r: driver %r' % (kind, x, summary),
                             case={kind: x}, actual=summary, model=model)
    except RuntimeError as e:
        ctx.proof_broken.append(('correspondence:TypeDesc', str(e)[-800:]))
    phases['model_evaluation_coq'] = round(_time.time() - _t1, 1)
    phases['model_cases'] = len(cases)
    fresh.reset()


def tuplify(x):
    if isinstance(x, list) and x and isinstance(x[0], str) and x[0] in ('simple', 'list', 'set', 'map', 'tuple', 'udt', 'vector', 'frozen', 'reversed'):
        k = x[0]
        if k == 'simple':
            return ('simple', x[1])
        if k in ('list', 'set', 'frozen', 'reversed'):
            return (k, tuplify(x[1]))
        if k == 'map':
            return ('map', tuplify(x[1]), tuplify(x[2]))
        if k == 'tuple':
            return ('tuple', [tuplify(y) for y in x[1]])
        if k == 'udt':
            return ('udt', x[1], x[2], list(x[3]), [tuplify(y) for y in x[4]])
        if k == 'vector':
            return ('vector', tuplify(x[1]), x[2])
    return x


def replay(ctx, rp):
    import cassandra.cqltypes as C
    fresh = T.Fresh(C)
    case = rp.get('case') or {}
    if 'tree' in case:
        t = tuplify(case['tree'])
        bad = oracle_tree(ctx, C, fresh, t, cass=not case.get('cql_only'))
        print('replay tree=%r\n  descriptor=%s' % (t, T.spec_cass(t)))
        for k, what, exp, act in bad:
            print('  %s: %s' % (k, what))
        hit = [b for b in bad if b[0] == rp.get('key')] or bad
        print(('VIOLATION property=C28 replay=%s' % ctx.replay_path) if hit else 'not reproduced')
        return 1 if hit else 0
    if 'history' in case:
        h = [tuplify(x) for x in case['history']]
        fresh.reset()
        hit = []
        for i, t in enumerate(h):
            bad = oracle_tree(ctx, C, fresh, t, reset=False)
            print('parse %d: %s' % (i + 1, T.spec_cass(t)))
            for k, what, exp, act in bad:
                print('  %s: %s' % (k, what))
            hit += [b for b in bad if 'history.' + b[0] == rp.get('key')]
        fresh.reset()
        print(('VIOLATION property=C28 replay=%s' % ctx.replay_path) if hit else 'not reproduced')
        return 1 if hit else 0
    for k in ('desc', 'cql'):
        if k in case:
            s = case[k]
            if k == 'desc':
                g, r, summary = parse_case(C, fresh, s)
            else:
                g, g2, summary = cql_case(C, s)
            print('replay %s=%r -> driver: %r' % (k, s, summary))
            print('model-vs-driver disagreement (no property failure exhibited); model said: %r' % (rp.get('model'),))
            return 1
    print('nothing to replay: %s' % rp.get('theorem'))
    return 1
