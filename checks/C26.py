"""C26 -- replica sets match Cassandra's replica placement.

Proof: coq/Props/C26.v (driver-shaped model coq/Model/Ring.v against the Cassandra-shaped spec coq/Model/PlacementSpec.v).
Tie (C): the real Metadata.rebuild_token_map + TokenMap.get_replicas / Metadata.get_replicas run on enumerated and
generated rings; every observed replica list is compared (1) with the property's oracle in Python (violations),
(2) inside coqc with the Coq model (exact list) and with the Coq spec (no repetition + same set)
(thorough tier: of the 13090 seven-token rings every 8th goes through coqc, all go through the Python oracle).
"""
import json, os
from vf import core
from vf import ring_harness as rh

META = {
    'technique': 'Coq proof (simulation between the driver-shaped placement model and Cassandra\'s calculateNaturalEndpoints) '
                 '+ exhaustive small-scope and sampled correspondence with the real Metadata/TokenMap',
    'level_text': 'C26_simple, C26_nts, C26_bisect proved for every ring (any tokens per host, any dc/rack layout) and every RF over the '
                  'hand-written model of make_token_replica_map / get_replicas; the model is run against the real Metadata on every '
                  'ring of the small scope (exhaustive) and on sampled rings of the stated bound.',
    'level_note': 'Trusted: Coq kernel, the transcription of Cassandra\'s placement (PlacementSpec.v, from memory), the harness, '
                  'bisect.bisect_left (modelled as the textbook loop). Transient replication: the driver places full replicas only '
                  '(rf = all - transient); the spec is instantiated with that number. Hosts without dc/rack are outside the model.',
    'design_ref': 'DESIGN.md section 4, C26',
}

MODEL_DD = 'true'  # Ring.v: true = repaired code (skipped hosts remembered once); false = the code before the fix
CORPUS = os.path.join(core.VERIF, 'corpus', 'C26')


def nontrivial(layout, ring, strat):
    """a case exercises the placement when at least two distinct hosts must be chosen among more than the RF asks for,
    or (NTS) a dc with >= 2 hosts gets rf >= 2"""
    hosts = set(h for _, h in ring)
    if strat[0] == 'simple':
        return rh.full_replicas(strat[1]) >= 2 and len(hosts) >= 2
    for d, v in strat[1].items():
        n = len([h for h in hosts if layout[h][0] == int(d)])
        if n >= 2 and rh.full_replicas(v) >= 2:
            return True
    return False


class Collector(object):
    def __init__(self, ctx):
        self.ctx = ctx
        self.cases = []
        self.meta = []
        self.key_cases = []
        self.key_meta = []
        self.nviol = 0

    def observe(self, layout, ring, strat, t, got, via='token'):
        j = rh.judge(layout, ring, strat, t, got)
        if j is not None:
            self.nviol += 1
            self.ctx.violation(j[0], j[1], case={'layout': layout, 'ring': sorted(ring), 'strategy': strat, 'token': t, 'via': via},
                               expected={'set': sorted(rh.spec_replicas(layout, ring, strat, t)), 'no_repetition': True},
                               actual=got, theorem='C26_simple' if strat[0] == 'simple' else 'C26_nts')
        return j

    def run_ring(self, layout, ring, strats, queries, partitioner='murmur3', dict_order=None, sample=False, source='enum', in_coq=True):
        ctx = self.ctx
        impl = rh.Impl(layout, ring, partitioner, dict_order)
        per = []
        for s in strats:
            ks, sobj = impl.new_keyspace(s)
            self.check_parse(impl, sobj, s)
            obs = []
            for t in queries:
                got = impl.replicas(ks, t)
                self.observe(layout, ring, s, t, got)
                obs.append((t, got))
            per.append((s, obs))
            nt = nontrivial(layout, ring, s)
            ctx.case([layout, sorted(ring), s], nontrivial=nt,
                     sample=({'layout': layout, 'ring': sorted(ring), 'strategy': s, 'observed': obs[:4]} if (sample or (nt and len(ctx.samples) < 3)) else None))
            ctx.count('strategy', s[0])
        ctx.count('ring_tokens', len(ring))
        ctx.count('hosts', len(set(h for _, h in ring)))
        ctx.count('source', source)
        if in_coq:
            self.cases.append(rh.g_case(layout, ring, per))
            self.meta.append({'layout': layout, 'ring': sorted(ring), 'partitioner': partitioner, 'per': per})
        else:
            ctx.count('source', source + ':python-oracle-only')
        return impl

    def check_parse(self, impl, sobj, strat):
        got = impl.parsed_rf(sobj, strat)
        if strat[0] == 'simple':
            want = rh.full_replicas(strat[1])
        else:
            want = dict((d, rh.full_replicas(v)) for d, v in strat[1].items())
        if got != want:
            self.ctx.violation('ReplicationFactor.parse', 'replication settings %r parsed as %r, expected full replicas %r' % (strat, got, want),
                               case={'strategy': strat}, expected=want, actual=got, theorem='C26_nts')


def enum_queries(tokens):
    tokens = sorted(tokens)
    q = list(tokens) + [tokens[0] - 3, tokens[-1] + 3]
    if len(tokens) > 1:
        q.append(tokens[len(tokens) // 2] - 3)
    return q


def enumerate_scope(col, max_len, max_hosts, max_per_host, ndcs, nracks, source, coq_len=99, coq_every=8):
    """rings longer than coq_len are all judged by the Python oracle; every coq_every-th of them also goes through coqc"""
    lay_cache = {}
    n = 0
    for L in range(1, max_len + 1):
        for seq in rh.rgs(L, max_hosts, max_per_host):
            H = max(seq) + 1
            if H not in lay_cache:
                lay_cache[H] = rh.layouts(H, ndcs, nracks)
            ring = [[(k - L // 2) * 10, h] for k, h in enumerate(seq)]
            q = enum_queries([t for t, _ in ring])
            for layout in lay_cache[H]:
                n += 1
                col.run_ring(layout, ring, rh.strategies(layout, seq, ndcs), q, source=source, in_coq=(L <= coq_len or n % coq_every == 0))


TOKEN_POOL = [-2 ** 63, -2 ** 63 + 1, -1, 0, 1, 2 ** 63 - 2, 2 ** 63 - 1]


def random_ring(rng, max_hosts=6, max_racks=3, max_dcs=2, max_tok=4, partitioner='murmur3'):
    H = rng.randint(1, max_hosts)
    ndcs = rng.randint(1, max_dcs)
    layout = [[rng.randrange(ndcs), rng.randrange(rng.randint(1, max_racks))] for _ in range(H)]
    owners = []
    style = rng.random()
    for h in range(H):
        owners += [h] * rng.randint(1, max_tok)
    if style < 0.4:
        rng.shuffle(owners)
    elif style < 0.8:
        # clustered: a host's tokens tend to be adjacent (vnode-less rings after moves, or unlucky vnodes)
        blocks = []
        for h in range(H):
            n = owners.count(h)
            k = rng.randint(1, n)
            blocks.append([h] * k)
            if n - k:
                blocks.append([h] * (n - k))
        rng.shuffle(blocks)
        owners = [h for b in blocks for h in b]
    else:
        rng.shuffle(owners)
        owners.sort(key=lambda h: (layout[h][1], rng.random()))   # rack by rack
    toks = set()
    lo, hi = (-2 ** 63, 2 ** 63 - 1) if partitioner != 'random' else (0, 2 ** 127)
    while len(toks) < len(owners):
        r = rng.random()
        if r < 0.15 and partitioner != 'random':
            toks.add(rng.choice(TOKEN_POOL))
        elif r < 0.5:
            toks.add(rng.randint(-50, 50) if partitioner != 'random' else rng.randint(0, 100))
        else:
            toks.add(rng.randint(lo, hi))
    toks = sorted(toks)
    ring = [[t, h] for t, h in zip(toks, owners)]
    return layout, ring, ndcs


def rf_string(rng, hi):
    n = rng.choice([0, 1, 1, 2, 2, 3, 3, 4, 5, hi, hi + 1])
    if n >= 2 and rng.random() < 0.15:
        return '%d/%d' % (n, rng.randint(1, n - 1))
    return str(n)


def random_strategies(rng, layout, ring, ndcs, k):
    H = len(set(h for _, h in ring))
    out = []
    for _ in range(k):
        if rng.random() < 0.25:
            out.append(['simple', rf_string(rng, H)])
        else:
            cfg = {}
            for d in range(ndcs + 1):        # dc `ndcs` never owns a token
                if rng.random() < (0.85 if d < ndcs else 0.3):
                    cfg[str(d)] = rf_string(rng, H)
            out.append(['nts', cfg])
    return out


def random_queries(rng, ring, lo, hi):
    toks = [t for t, _ in ring]
    q = list(toks)
    for t in toks:
        if rng.random() < 0.5:
            q.append(max(lo, t - 1))
        if rng.random() < 0.5:
            q.append(min(hi, t + 1))
    q += [lo, hi, rng.randint(lo, hi)]
    return q


def run_random(col, n, **kw):
    rng = col.ctx.rng
    for _ in range(n):
        part = rng.choice(['murmur3'] * 6 + ['random', 'bytes'])
        layout, ring, ndcs = random_ring(rng, partitioner=part, **kw)
        lo, hi = (-2 ** 63, 2 ** 63 - 1) if part != 'random' else (0, 2 ** 127)
        order = sorted(set(h for _, h in ring))
        rng.shuffle(order)
        strats = random_strategies(rng, layout, ring, ndcs, 4)
        impl = col.run_ring(layout, ring, strats, random_queries(rng, ring, lo, hi), partitioner=part, dict_order=order, source='random')
        col.ctx.count('partitioner', part)
        if part == 'murmur3' and rng.random() < 0.3:
            keys = [bytes(rng.randrange(256) for _ in range(rng.randint(0, 20))) for _k in range(3)] + [rng.choice(rh.BOUNDARY_KEYS)]
            run_by_key(col, layout, ring, strats[0], keys, impl=impl)


MAXL, MINL = 2 ** 63 - 1, -2 ** 63


def run_by_key(col, layout, ring, strat, keys, impl=None):
    """the public entry point Metadata.get_replicas(keyspace, key) under Murmur3Partitioner: the key's token is computed by the
    harness's own transcription of Cassandra's partitioner (hash + MIN_VALUE -> MAX_VALUE), never read from the driver"""
    ctx = col.ctx
    impl = impl or rh.Impl(layout, ring)
    ks, _ = impl.new_keyspace(strat)
    obs = []
    for key in keys:
        h = rh.partitioner_hash(key)
        tok = rh.partitioner_token(key)
        got = impl.replicas_for_key(ks, key)
        j = rh.judge(layout, ring, strat, tok, got)
        ctx.count('by_key', 'hash=MIN_VALUE' if h == MINL else 'hash=MAX_VALUE' if h == MAXL else 'other')
        if j is not None:
            key_ = j[0]
            if h == MINL and rh.judge(layout, ring, strat, MINL, got) is None:
                key_ = 'Murmur3Token.hash_fn.min-long-not-normalised'
            ctx.violation(key_, 'Metadata.get_replicas(ks, %s): partitioner hash %d, token %d: %s' % (key.hex(), h, tok, j[1]),
                          case={'layout': layout, 'ring': sorted(ring), 'strategy': strat, 'key_hex': key.hex()},
                          expected={'set': sorted(rh.spec_replicas(layout, ring, strat, tok)), 'no_repetition': True}, actual=got, theorem='C26_key')
        obs.append((h, got))
    ctx.case(['by_key', layout, sorted(ring), strat, [k.hex() for k in keys]], nontrivial=nontrivial(layout, ring, strat))
    col.key_cases.append('(%s, %s, %s, %s)' % (rh.g_layout(layout), rh.g_ring(ring), rh.g_strategy(strat), rh.g_obs(obs)))
    col.key_meta.append({'layout': layout, 'ring': sorted(ring), 'strategy': strat, 'keys': [k.hex() for k in keys]})


def run_boundary_keys(col):
    """rings where some node owns the legal token Long.MAX_VALUE and its replicas differ from those of the lowest token"""
    rng = col.ctx.rng
    keys = list(rh.BOUNDARY_KEYS) + [b'', b'abc']
    for layout, ring in (([[0, 0], [0, 1], [0, 0]], [[-100, 0], [0, 1], [MAXL, 2]]),
                         ([[0, 0], [1, 0], [0, 1], [1, 1]], [[MINL, 0], [-5, 1], [7, 2], [MAXL - 1, 1], [MAXL, 3]]),
                         ([[0, 0], [0, 0]], [[MINL + 1, 0], [MAXL, 1]])):
        for strat in (['simple', '1'], ['simple', '2'], ['nts', {'0': '1', '1': '1'}], ['nts', {'0': '2'}]):
            run_by_key(col, layout, ring, strat, keys)
    for _ in range(20):
        layout, ring, ndcs = random_ring(rng, max_hosts=5, max_tok=3)
        if not any(t == MAXL for t, _ in ring):
            ring = sorted(ring)[:-1] + [[MAXL, sorted(ring)[-1][1]]] if len(ring) > 1 else [[MAXL, ring[0][1]]]
        run_by_key(col, layout, ring, random_strategies(rng, layout, ring, ndcs, 1)[0], keys)


RACES = [([[0, 0], [0, 1], [0, 0]], [[-10, 0], [0, 1], [10, 2]], ['simple', '1'], ['simple', '3']),
         ([[0, 0], [0, 1], [0, 0]], [[-10, 0], [0, 1], [10, 2]], ['simple', '3'], ['simple', '1']),
         ([[0, 0], [1, 0], [0, 1], [1, 0]], [[-10, 0], [0, 1], [10, 2], [20, 3]], ['nts', {'0': '1'}], ['nts', {'0': '2', '1': '2'}]),
         ([[0, 0], [1, 0], [0, 1], [1, 0]], [[-10, 0], [0, 1], [10, 2], [20, 3]], ['nts', {'0': '2', '1': '1'}], ['simple', '2'])]


def judge_race(ctx, layout, ring, old, new, queries):
    obs, errs, contended = rh.race_alter_during_first_build(layout, ring, old, new, queries)
    ctx.count('race', 'event thread blocked on _rebuild_lock' if contended else 'event thread did not wait for the lock')
    bad = None
    for t, got in obs:
        j = rh.judge(layout, ring, new, t, got)
        if j is not None:
            bad = (t, got, j)
            break
    if bad or errs:
        t, got, j = bad or (None, None, ('error', '; '.join(errs)))
        stale = bad is not None and rh.judge(layout, ring, old, t, got) is None
        ctx.violation('TokenMap.rebuild_keyspace.race.stale-replica-map' if stale else 'TokenMap.rebuild_keyspace.race.' + j[0],
                      'first lookup parked inside make_token_replica_map (settings %r read) while Metadata._update_keyspace delivers %r: '
                      'afterwards token %r is served %r%s; %s' % (old, new, t, got, ' = the replicas of the OLD settings' if stale else '', j[1]),
                      case={'layout': layout, 'ring': sorted(ring), 'race': {'old': old, 'new': new}, 'queries': queries}, kind='interleaving',
                      expected='replicas of the new settings once both threads are done', actual=obs, theorem='C26_cache_current')
    return obs


def run_races(col):
    ctx = col.ctx
    src = open(os.path.join(core.REPO, 'cassandra/metadata.py')).read()
    probs = rh.audit_rebuild_lock(src)
    ctx.extra['lock_audit'] = probs or 'ok: TokenMap.rebuild_keyspace tests, reads and publishes only inside `with self._rebuild_lock`'
    ctx.trust('lock-region audit of TokenMap.rebuild_keyspace (lib/vf/ring_harness.py:audit_rebuild_lock): the atomic steps of Model/RingCache.v')
    if probs:
        ctx.proof_broken.append(('atomicity-audit:TokenMap.rebuild_keyspace', '; '.join(probs)))
    for layout, ring, old, new in RACES:
        q = [t for t, _ in ring] + [ring[-1][0] + 1]
        obs = judge_race(ctx, layout, ring, old, new, q)
        ctx.case(['race', layout, ring, old, new], nontrivial=True)
        col.cases.append(rh.g_case(layout, ring, [(new, obs)]))
        col.meta.append({'layout': layout, 'ring': sorted(ring), 'per': [(new, obs)], 'race': [old, new]})


def random_history(rng, layout, ring, ndcs):
    strats = random_strategies(rng, layout, ring, ndcs, 6)
    strats += [['unknown', 'org.apache.cassandra.locator.EverywhereStrategy'], ['local'], ['unknown', 'com.example.CustomStrategy']][:rng.randint(1, 3)]
    rng.shuffle(strats)
    hist = [['update_keyspace', strats[0]], ['query']]
    for _ in range(rng.randint(2, 7)):
        r = rng.random()
        if r < 0.40:
            hist.append(['update_keyspace', rng.choice(strats)])       # ALTER (or CREATE after a drop) schema event
        elif r < 0.50:
            hist.append(['rebuild_all', rng.choice(strats)])
        elif r < 0.58:
            hist.append(['assign_and_notify', rng.choice(strats)])
        elif r < 0.66:
            hist.append(['drop_keyspace'])
        elif r < 0.78:
            ring2 = [list(e) for e in ring]
            if len(ring2) > 1 and rng.random() < 0.5:
                ring2.pop(rng.randrange(len(ring2)))
            else:
                ring2[rng.randrange(len(ring2))][1] = rng.randrange(len(layout))
            hist.append(['rebuild_ring', ring2])
        elif r < 0.86:
            hist.append(['rebuild_keyspace'])
        elif r < 0.93:
            hist.append(['remove_keyspace'])
        else:
            hist.append(['query'])
    return hist


def judge_history(col, layout, ring, history, queries, record=True):
    """after EVERY step the replicas must be those of the CURRENT ring and the CURRENT replication settings"""
    ctx = col.ctx
    seen_strats = []
    nbad = 0
    for i, op, cur_ring, cur, obs in rh.play_history(layout, ring, history, queries):
        if not rh.placed(cur):
            # keyspace dropped / not yet created / LocalStrategy / a strategy class unknown to the driver: the statement says
            # nothing (the driver answers [] and may cache an empty map -- which must not survive a later ALTER)
            ctx.count('history_step', op[0] + (':no-keyspace' if cur is None else ':' + cur[0]) + ('' if all(not g for _, g in obs) else ':nonempty'))
            continue
        for t, got in obs:
            j = rh.judge(layout, cur_ring, cur, t, got)
            if j is None:
                continue
            nbad += 1
            key, what = j
            stale = [s for s in seen_strats if s != cur and rh.judge(layout, cur_ring, s, t, got) is None]
            if stale:
                key = 'Metadata.keyspace-change.stale-replica-map'
                what = ('after step %d %r the replicas for token %d are %r = those of the OLD settings %r, current settings %r give %r'
                        % (i, op[0], t, got, stale[-1], cur, sorted(rh.spec_replicas(layout, cur_ring, cur, t))))
            ctx.violation(key, what, case={'layout': layout, 'ring': sorted(ring), 'history': history[:i + 1], 'queries': queries},
                          kind='history', expected={'set': sorted(rh.spec_replicas(layout, cur_ring, cur, t)), 'no_repetition': True},
                          actual=got, theorem='C26_replicas')
            break
        if cur not in seen_strats:
            seen_strats.append(cur)
        if record:
            ctx.case(['history', i, op, layout, sorted(cur_ring), cur], nontrivial=nontrivial(layout, cur_ring, cur) and i > 0)
            ctx.count('history_step', op[0])
            col.cases.append(rh.g_case(layout, cur_ring, [(cur, obs)]))
            col.meta.append({'layout': layout, 'ring': sorted(cur_ring), 'per': [(cur, obs)], 'history': history[:i + 1]})
    return nbad


def run_histories(col, n):
    """schema / topology events through the driver's real paths (Metadata._update_keyspace, _drop_keyspace, _rebuild_all,
    rebuild_token_map, TokenMap.rebuild_keyspace / remove_keyspace) interleaved with lookups"""
    rng = col.ctx.rng
    # directed: map built by a routed query, then ALTER through _update_keyspace, then another lookup
    lay0, ring0 = [[0, 0], [0, 1], [0, 0]], [[-10, 0], [0, 1], [10, 2]]
    for a, b in ((['simple', '1'], ['simple', '3']), (['nts', {'0': '1'}], ['nts', {'0': '2'}]), (['simple', '2'], ['nts', {'0': '3'}])):
        judge_history(col, lay0, ring0, [['update_keyspace', a], ['query'], ['update_keyspace', b], ['query']], [-10, 0, 10, 11])
        # empty replica map cached for settings without a placement, then ALTER to a real strategy -- and the reverse, and back
        for u in (['unknown', 'org.apache.cassandra.locator.EverywhereStrategy'], ['local']):
            judge_history(col, lay0, ring0, [['update_keyspace', u], ['query'], ['update_keyspace', b], ['query'],
                                             ['update_keyspace', u], ['query'], ['update_keyspace', a], ['query']], [-10, 0, 10, 11])
            judge_history(col, lay0, ring0, [['update_keyspace', u], ['query'], ['rebuild_all', a], ['query'], ['rebuild_keyspace']], [-10, 11])
    for _ in range(n):
        layout, ring, ndcs = random_ring(rng, max_hosts=5, max_tok=3)
        q = random_queries(rng, ring, -2 ** 63, 2 ** 63 - 1)[:6]
        judge_history(col, layout, ring, random_history(rng, layout, ring, ndcs), q)


def load_corpus():
    out = []
    if os.path.isdir(CORPUS):
        for fn in sorted(os.listdir(CORPUS)):
            if fn.endswith('.json'):
                with open(os.path.join(CORPUS, fn)) as f:
                    out.append((fn, json.load(f)))
    return out


def run(ctx):
    ok = ctx.prove('Props/C26.v')
    if ctx.tier == 'thorough' and ok:
        ctx.coqchk('Props/C26.v')
    col = Collector(ctx)
    # corpus first: past failures (the witness of C26_nts_unfixed_refuted among them)
    for fn, c in load_corpus():
        col.run_ring(c['layout'], c['ring'], [c['strategy']], c.get('tokens') or enum_queries([t for t, _ in c['ring']]), sample=True, source='corpus')
    if ctx.tier == 'quick':
        enumerate_scope(col, max_len=5, max_hosts=4, max_per_host=3, ndcs=2, nracks=2, source='enum<=5tok,4h,2r,2dc')
        run_random(col, 250)
        run_histories(col, 80)
        run_boundary_keys(col)
        run_races(col)
        scope = 'every ring of <= 5 tokens over <= 4 hosts (<= 3 tokens each) x <= 2 racks x <= 2 DCs'
    else:
        enumerate_scope(col, max_len=7, max_hosts=4, max_per_host=3, ndcs=2, nracks=2, source='enum<=7tok,4h,2r,2dc', coq_len=6)
        enumerate_scope(col, max_len=6, max_hosts=6, max_per_host=1, ndcs=1, nracks=3, source='enum<=6h,1tok,3r,1dc')
        enumerate_scope(col, max_len=6, max_hosts=3, max_per_host=4, ndcs=1, nracks=3, source='enum<=6tok,3h,4tok,3r,1dc')
        run_random(col, 3000)
        run_histories(col, 600)
        run_boundary_keys(col)
        run_races(col)
        scope = ('every ring of <= 7 tokens over <= 4 hosts (<= 3 tokens each) x <= 2 racks x <= 2 DCs; every ring of <= 6 single-token hosts x <= 3 racks; '
                 'every ring of <= 6 tokens over <= 3 hosts (<= 4 tokens each) x <= 3 racks')
    ctx.exhaustive = True
    ctx.rule = ('exhaustive: ' + scope + ', up to renaming of hosts/dcs/racks, with every SimpleStrategy RF 0..H+1 and every NTS RF vector '
                '0..nodes(dc)+1 (dc absent from the ring and dc absent from the settings included), queried at every ring token, between tokens '
                'and past both ends; plus sampled rings of the stated bound (<= 6 hosts x <= 3 racks x <= 2 DCs x <= 4 tokens, clustered / shuffled / '
                'rack-sorted owners, boundary tokens, three partitioners, N/T transient settings) and alter/rebuild histories. '
                'A case = (ring, layout, strategy); non-trivial = some dc with >= 2 hosts gets RF >= 2 (Simple: >= 2 hosts, RF >= 2); distinct by canonical JSON.')
    ctx.assume('every host in the ring has a datacenter and a rack (the driver skips hosts without them when counting racks/hosts)',
               'tokens in the ring are pairwise distinct',
               'replication factor used for placement = full replicas (all - transient), as the driver documents; Cassandra additionally places the transient replicas',
               'Cassandra\'s placement = the 2.x/3.x calculateNaturalEndpoints formulation transcribed in PlacementSpec.v')
    ctx.trust('PlacementSpec.v and lib/vf/ring_harness.py:spec_nts/spec_simple: transcriptions of Cassandra\'s placement from memory (no Cassandra source offline)',
              'bisect.bisect_left modelled as the textbook binary search (Ring.v:bisect_loop)')
    # model and Coq spec evaluated inside coqc on the recorded observations
    shard = min(64, max(8, (len(col.cases) + 31) // 32))
    bad = []
    for attempt in (1, 2):
        try:
            bad = ctx.coq_filter(['RingBase', 'Ring', 'PlacementSpec'], '(chk_both %s)' % MODEL_DD, col.cases, shard=shard,
                                 timeout=1200 * attempt, prelude=rh.PRELUDE)
            break
        except RuntimeError as e:
            # a shard killed by `timeout` on an overloaded machine prints nothing: retry once with smaller shards before giving up
            if attempt == 2 or str(e).strip().count('\n') > 1:
                ctx.proof_broken.append(('correspondence:Ring', str(e)[-800:]))
                break
            shard = max(4, shard // 2)
    for i in bad[:3]:
        m = col.meta[i]
        try:
            res = ctx.coq_eval(['RingBase', 'Ring', 'PlacementSpec'], ['chk_model %s %s' % (MODEL_DD, col.cases[i]), 'chk_spec %s' % col.cases[i]], prelude=rh.PRELUDE)
        except RuntimeError as e:
            res = ['?', '?']
        if res[0] != 'true':
            detail = first_model_difference(ctx, m)
            ctx.disagreement('model-vs-impl', 'Ring.v model differs from the driver on layout=%r ring=%r: %s' % (m['layout'], m['ring'], detail),
                             case={'layout': m['layout'], 'ring': m['ring']}, actual=detail)
        if res[1] != 'true':
            ctx.disagreement('coqspec-vs-impl', 'PlacementSpec.v disagrees with the driver (set/no-repetition) on layout=%r ring=%r' % (m['layout'], m['ring']),
                             case={'layout': m['layout'], 'ring': m['ring']}, actual=[(s, o) for s, o in m['per']][:3])
    try:
        kbad = ctx.coq_filter(['RingBase', 'Ring', 'PlacementSpec'], 'chk_key', col.key_cases, shard=max(8, (len(col.key_cases) + 7) // 8), prelude=rh.PRELUDE)
    except RuntimeError as e:
        ctx.proof_broken.append(('correspondence:Ring.by-key', str(e)[-800:]))
        kbad = []
    for i in kbad[:3]:
        m = col.key_meta[i]
        ctx.disagreement('model-or-coqspec-vs-impl.by-key', 'Metadata.get_replicas(ks, key) differs from Ring.v/PlacementSpec.v (key -> token -> replicas) on %r' % (m,),
                         case=m, actual=m)
    ctx.extra['coq_key_cases'] = len(col.key_cases)
    ctx.extra['coq_cases'] = len(col.cases)
    ctx.extra['observations'] = sum(len(o) for m in col.meta for _, o in m['per'])


def first_model_difference(ctx, m):
    """one coqc run: the model's answer for every observation of the case; returns the first one that differs"""
    exprs, keys = [], []
    for s, obs in m['per']:
        for t, got in obs:
            exprs.append('get_replicas (replica_map %s %s (fst %s) %s) (map fst %s) %s' % (
                MODEL_DD, rh.g_layout(m['layout']), rh.g_strategy(s), rh.g_ring(m['ring']), rh.g_ring(m['ring']), rh.z(t)))
            keys.append((s, t, got))
    try:
        res = ctx.coq_eval(['RingBase', 'Ring', 'PlacementSpec'], exprs[:200])
    except RuntimeError:
        return 'model evaluation failed'
    for (s, t, got), r in zip(keys, res):
        model = [int(x) for x in r.strip('[] \n').replace('\n', ' ').split(';') if x.strip()]
        if model != got:
            return {'strategy': s, 'token': t, 'impl': got, 'model': model}
    return None


def replay(ctx, rp):
    case = rp.get('case') or {}
    if 'race' in case:
        before = len(ctx.violations)
        obs = judge_race(ctx, case['layout'], [list(e) for e in case['ring']], case['race']['old'], case['race']['new'], case['queries'])
        print('replay race old=%r new=%r -> served %r' % (case['race']['old'], case['race']['new'], obs))
        bad = len(ctx.violations) > before
        print(('VIOLATION property=C26 replay=%s' % ctx.replay_path) if bad else 'not reproduced')
        return 1 if bad else 0
    if 'key_hex' in case:
        ring = [list(e) for e in case['ring']]
        impl = rh.Impl(case['layout'], ring)
        ks, _ = impl.new_keyspace(case['strategy'])
        key = bytes.fromhex(case['key_hex'])
        got = impl.replicas_for_key(ks, key)
        tok = rh.partitioner_token(key)
        j = rh.judge(case['layout'], ring, case['strategy'], tok, got)
        print('replay key=%s partitioner token=%d driver=%r cassandra=%r %s' % (case['key_hex'], tok, got, rh.spec_replicas(case['layout'], ring, case['strategy'], tok), ('-> ' + j[0]) if j else 'ok'))
        print(('VIOLATION property=C26 replay=%s' % ctx.replay_path) if j else 'not reproduced')
        return 1 if j else 0
    if 'history' in case:
        bad = False
        seen = []
        for i, op, cur_ring, cur, obs in rh.play_history(case['layout'], [list(e) for e in case['ring']], case['history'], case['queries']):
            for t, got in obs:
                if not rh.placed(cur):
                    continue
                j = rh.judge(case['layout'], cur_ring, cur, t, got)
                print('replay step %d %r settings=%r token=%r driver=%r cassandra=%r %s' % (
                    i, op[0], cur, t, got, rh.spec_replicas(case['layout'], cur_ring, cur, t), ('-> ' + j[0]) if j else 'ok'))
                bad = bad or j is not None
        print(('VIOLATION property=C26 replay=%s' % ctx.replay_path) if bad else 'not reproduced')
        return 1 if bad else 0
    if 'ring' in case and 'strategy' in case and 'layout' in case:
        ring = [list(e) for e in case['ring']]
        impl = rh.Impl(case['layout'], ring)
        ks, sobj = impl.new_keyspace(case['strategy'])
        toks = [case['token']] if 'token' in case else enum_queries([t for t, _ in ring])
        bad = False
        for t in toks:
            got = impl.replicas(ks, t)
            want = rh.spec_replicas(case['layout'], ring, case['strategy'], t)
            j = rh.judge(case['layout'], ring, case['strategy'], t, got)
            print('replay token=%r driver=%r cassandra=%r %s' % (t, got, want, ('-> ' + j[0]) if j else 'ok'))
            bad = bad or j is not None
        print(('VIOLATION property=C26 replay=%s' % ctx.replay_path) if bad else 'not reproduced')
        return 1 if bad else 0
    if 'strategy' in case:
        impl = rh.Impl([[0, 0]], [[0, 0]])
        ks, sobj = impl.new_keyspace(case['strategy'])
        got = impl.parsed_rf(sobj, case['strategy'])
        print('replay parse %r -> %r' % (case['strategy'], got))
        bad = got != rp.get('expected')
        print(('VIOLATION property=C26 replay=%s' % ctx.replay_path) if bad else 'not reproduced')
        return 1 if bad else 0
    print('nothing to replay: %s' % rp.get('theorem'))
    return 1
