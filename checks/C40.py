"""C40 -- GraphSON values survive serialization and deserialization.

Coq: Model/GraphSON.v (dispatch, envelopes, containers, Int32/Int64, Duration decomposition, base64; Python's own leaf
formatters as Section variables with assumed round-trip laws), Props/C40.v (C40_roundtrip for GraphSON 1/2/3 by induction
on the value tree; base64 and duration round trips; refutations of the pre-repair code).
(C) the real GraphSON1/2/3 serializers, json.dumps/json.loads and the real readers are driven on generated values; the
JSON they produce and the value that comes back are compared with the model (instantiated in Model/GraphSONRun.v) inside
Coq; the property itself (deserialised == original) is evaluated on the implementation.
"""
import json, os
from vf import core
from vf.impl import import_cluster
from vf import gson_harness as H

META = {
    'technique': 'Coq proof (structural induction over the value tree, Z arithmetic for durations, concrete base64) on a hand-written '
                 'model of graphson.py + differential execution against the real serializers/readers through json.dumps/loads',
    'level_text': 'C40_roundtrip_23 / C40_roundtrip_1 (deserialize (serialize v) = the equal value, GraphSON 1/2/3, every supported value '
                  'tree of any depth), C40_duration_roundtrip (every timedelta, negative and sub-second included), C40_base64_roundtrip '
                  '(every byte string), C40_geometry_roundtrip (Point/LineString/Polygon with any number of interior rings), C40_dispatch; pre-repair duration/dispatch code refuted by computed witnesses; C40_full_statement (sets of '
                  'blobs) refuted (open finding C40-3), C40_roundtrip_23 is the partial theorem excluding exactly unhashable members/keys.',
    'level_note': 'Partial: str(Decimal)/Decimal(), str(UUID)/UUID(), isoformat/strftime/strptime, geomet wkt.loads and repr(float) through JSON are '
                  'Section variables with ASSUMED round-trip laws (exercised, not proved). Hand-written model tied by correspondence only. '
                  'Aware datetimes are covered as instants (they come back as the naive UTC reading). Not covered: aware times, IP address objects (come back as str), UDTs/namedtuples (need cluster metadata), '
                  'Vertex/Edge/Path result types, NaN. Open: blobs inside g:Set / as g:Map keys (bytearray unhashable).',
    'design_ref': 'DESIGN.md section 4, C40',
}

US = 10 ** 6
MAX_TD = 999999999 * 86400 * US


def gen_timedelta(rng):
    r = rng.random()
    if r < 0.25:
        us = rng.choice([0, 1, 99, 100, 101, 500000, 999999, US, 59 * US + 999999, 60 * US, 3600 * US, 86400 * US - 1, 86400 * US,
                         3 * 86400 * US + 7 * US + 120])
    elif r < 0.45:
        us = -rng.choice([1, 99, 500000, 999999, US, 1500000, 60 * US, 86400 * US, 86400 * US + 1, rng.randrange(1, 10 ** 13)])
    elif r < 0.6:
        us = rng.randrange(0, 60) * 60 * US + rng.randrange(1, 100)                 # whole minutes + 1..99 us
    elif r < 0.75:
        us = rng.choice([1, -1]) * (rng.randrange(2 ** 35, 2 ** 46) * US + rng.choice([999999, 999998, 500000, 1, 0]))
    else:
        us = rng.randrange(0, 10 ** rng.randrange(1, 17))
    return ['timedelta', max(-MAX_TD, min(MAX_TD, us))]


def gen_scalar(rng, ver, hashable=False):
    kinds = ['str', 'bool', 'int', 'float', 'blob', 'decimal', 'date', 'time', 'datetime', 'timedelta', 'timedelta', 'uuid', 'geom']
    if ver == 3:
        kinds.append('duration')
    if hashable:
        kinds = [k for k in kinds if k not in ('blob', 'duration', 'geom')]
    k = rng.choice(kinds)
    if k == 'str':
        return ['str', [rng.choice([rng.randrange(32, 127), rng.randrange(0, 0xD800), rng.randrange(0xE000, 0x110000), 34, 92, 0])
                        for _ in range(rng.choice([0, 1, 3, 8]))]]
    if k == 'bool':
        return ['bool', rng.random() < 0.5]
    if k == 'int':
        return ['int', rng.choice([0, 1, -1, 2 ** 31 - 1, 2 ** 31, 2 ** 32 - 1, 2 ** 32, -2 ** 31, -2 ** 31 - 1, 2 ** 63, -2 ** 63 - 1, 10 ** 30,
                                   rng.randrange(-2 ** 40, 2 ** 40)])]
    if k == 'float':
        return ['float', float(rng.choice([0.0, 1.5, -2.75, 0.1, 1e-6, 1e300, 5e-324, 3.4028234663852886e38, rng.uniform(-1e6, 1e6),
                                           rng.uniform(-1, 1) * 10 ** rng.randrange(-30, 30)])).hex()]
    if k == 'blob':
        return [rng.choice(['bytes', 'bytearray', 'memoryview']), bytes(rng.randrange(256) for _ in range(rng.choice([0, 1, 2, 3, 4, 5, 9]))).hex()]
    if k == 'decimal':
        # coefficients beyond the default context precision (28 digits): any arithmetic on the way (normalize, +0, quantize) rounds them
        coeff = rng.choice([0, 1, 110, 12345, rng.randrange(10 ** 12), 10 ** 29 - 1, 2 ** 128, 10 ** 28 + 1,
                            314159265358979323846264338327950288419716939937510, rng.randrange(10 ** 28, 10 ** rng.randrange(29, 61))])
        return ['decimal', '%s%dE%d' % (rng.choice(['', '-']), coeff, rng.randrange(-60, 21))]
    if k == 'date':
        return ['date', rng.choice([1, 3652059, 719163, rng.randrange(1, 3652060)])]
    if k == 'time':
        return ['time', rng.choice([0, 86399999999, 1, 1000000, rng.randrange(0, 86400 * US)])]
    if k == 'datetime':
        w = rng.randrange(0, 3652059 * 86400 * US)
        if rng.random() < 0.35:
            # timezone-aware: fixed offsets (minutes) and a harness DST zone; kept a few days away from year 1 / 9999
            w = rng.randrange(400 * 86400 * US, 3651000 * 86400 * US)
            return ['adatetime', rng.choice([w, w - w % US]), rng.choice([0, 60, 120, -300, 330, 345, -720, 840, 'dst', 'west'])]
        return ['datetime', rng.choice([w, w - w % US, 0, 719162 * 86400 * US, w - w % 1000])]
    if k == 'timedelta':
        return gen_timedelta(rng)
    if k == 'uuid':
        return ['uuid', rng.choice([0, 2 ** 128 - 1, rng.getrandbits(128)])]
    if k == 'geom':
        pt = lambda: [float(rng.randrange(-100, 100)), rng.randrange(-1000, 1000) / 8.0]
        g = rng.choice(['point', 'linestring', 'polygon', 'polygon'])
        if g == 'point':
            return ['point'] + pt()
        if g == 'linestring':
            return ['linestring', [pt() for _ in range(rng.choice([0, 2, 3, 4]))]]

        def ring():
            a = pt()
            return [a, pt(), pt(), a]
        if rng.random() < 0.1:
            return ['polygon', [], []]                                   # POLYGON EMPTY
        return ['polygon', ring(), [ring() for _ in range(rng.choice([0, 1, 1, 2, 3]))]]   # 0, exactly 1, or more holes
    if k == 'duration':
        return ['duration', rng.randrange(-100, 100), rng.randrange(-1000, 1000), rng.choice([0, 1, -1, rng.randrange(-10 ** 15, 10 ** 15)])]
    raise ValueError(k)


def gen_value(rng, ver, depth, hashable=False):
    if ver == 1 or depth <= 0 or rng.random() < 0.4:
        return gen_scalar(rng, ver, hashable)
    if ver == 2:
        return ['dict', [[['str', [rng.randrange(97, 123) for _ in range(rng.randint(1, 4))] + [48 + i]], gen_value(rng, 2, depth - 1)]
                         for i in range(rng.choice([0, 1, 2, 3]))]]
    k = rng.choice(['tuple'] if hashable else ['list', 'set', 'tuple', 'dict', 'list'])
    n = rng.choice([0, 1, 2, 3])
    if k == 'list':
        return ['list', [gen_value(rng, 3, depth - 1) for _ in range(n)]]
    if k == 'tuple':
        return ['tuple', [gen_value(rng, 3, depth - 1, hashable) for _ in range(n)]]
    if k == 'set':
        return ['set', [gen_value(rng, 3, depth - 1, True) for _ in range(n)]]
    return ['dict', [[gen_value(rng, 3, depth - 1, True), gen_value(rng, 3, depth - 1)] for _ in range(n)]]


def leaves(vs):
    if vs[0] in ('list', 'set', 'tuple'):
        for x in vs[1]:
            for y in leaves(x):
                yield y
    elif vs[0] == 'dict':
        for k, v in vs[1]:
            for y in leaves(k):
                yield y
            for y in leaves(v):
                yield y
    else:
        yield vs


def td_class(us):
    if us < 0:
        return 'negative'
    if 0 < us % (60 * US) < 100:
        return 'sub-100us'
    if us >= 2 ** 35 * US:
        return 'long'
    return 'plain'


def classify(vs, rt):
    """violation key: call site + failure class, fine enough that a different failure gets a different key"""
    how = 'rejected' if (rt['back_exc'] or rt['ser_exc']) else 'wrong-value'
    for lf in leaves(vs):
        if lf[0] == 'timedelta' and td_class(lf[1]) != 'plain':
            return 'DurationTypeIO.%s.%s' % (td_class(lf[1]), how)
        if lf[0] == 'subdatetime':
            return 'get_serializer.datetime-subclass.%s' % how
        if lf[0] == 'adatetime':
            return 'InstantTypeIO.aware-datetime.%s' % how
        if lf[0] == 'polygon':
            return 'PolygonTypeIO.%d-interior-rings.%s' % (len(lf[2]) if len(lf) > 2 else 0, how)
    if rt['back_exc'] == 'TypeError' and vs[0] == 'set' and any(x[0] in ('bytes', 'bytearray', 'memoryview') for x in leaves(vs)):
        return 'SetTypeIO.blob-member.unhashable'
    if rt['back_exc'] == 'TypeError' and vs[0] == 'dict' and any(x[0] in ('bytes', 'bytearray', 'memoryview') for kv in vs[1] for x in leaves(kv[0])):
        return 'MapTypeIO.blob-key.unhashable'
    return '%s.%s.%s' % (vs[0], how, rt['back_exc'] or rt['ser_exc'] or 'unequal')


def same(a, b):
    """Python equality of the round-tripped value, applied recursively so that the container kinds must agree too"""
    if isinstance(a, (list, tuple)) and not hasattr(a, '_fields'):
        return type(a) is type(b) and len(a) == len(b) and all(same(x, y) for x, y in zip(a, b))
    if isinstance(a, dict):
        return isinstance(b, dict) and len(a) == len(b) and all(k in b and same(a[k], b[k]) for k in a)
    if isinstance(a, (set, frozenset)):
        return isinstance(b, (set, frozenset)) and a == b
    if isinstance(a, (bytes, bytearray, memoryview)):
        return isinstance(b, (bytes, bytearray, memoryview)) and bytes(a) == bytes(b)
    return a == b


def expect(v):
    """the value an equal round trip must give: an aware datetime denotes an instant, read back as its naive UTC reading"""
    import datetime as dtm
    if isinstance(v, dtm.datetime) and v.tzinfo is not None:
        return H.utc_reading(v)
    if isinstance(v, list):
        return [expect(x) for x in v]
    if isinstance(v, tuple):
        return tuple(expect(x) for x in v)
    if isinstance(v, (set, frozenset)):
        return set(expect(x) for x in v)
    if isinstance(v, dict):
        return dict((expect(k), expect(x)) for k, x in v.items())
    return v


def load_corpus():
    d = os.path.join(core.VERIF, 'corpus', 'C40')
    out = []
    if os.path.isdir(d):
        for fn in sorted(os.listdir(d)):
            if fn.endswith('.json'):
                with open(os.path.join(d, fn)) as f:
                    out.append(json.load(f))
    return out


def coq_case(ver, v, rt):
    try:
        gv = H.gal_g(v)
        is_td = type(v).__name__ == 'timedelta'
        is_geo = type(v).__name__ in ('Point', 'LineString', 'Polygon')
        ej = None if rt['ser_exc'] else H.gal_j(rt['ser'], duration=(ver == 1 and is_td), wkt=(ver == 1 and is_geo))
        eb = None if (rt['ser_exc'] or rt['back_exc']) else H.gal_g(rt['back'])
    except H.Unprintable:
        return None
    V = 'V%d' % ver
    tio = H.opt(H.TIO[rt['tio']]) if rt['tio'] else 'None'
    if ver == 1:
        parts = ['opt_eqb tio_eqb (r_serializer_of V1 %s) %s' % (gv, tio),
                 'opt_eqb rj_eqb (r_ser1 %s) %s' % (gv, H.opt(ej))]
        if ej is not None:
            parts.append('opt_eqb rg_eqb (r_deser1 (r_serializer_of V1 %s) %s) %s' % (gv, ej, H.opt(eb)))
    else:
        parts = ['opt_eqb rj_eqb (r_ser23 %s %s) %s' % (V, gv, H.opt(ej))]
        if ej is not None:
            parts.append('opt_eqb rg_eqb (r_deser23 %s %s) %s' % (V, ej, H.opt(eb)))
    return ' && '.join('(%s)' % p for p in parts)


def registry_cases():
    from cassandra.datastax.graph import graphson as G
    out = []
    for ver, cls in ((1, G.GraphSON1Serializer), (2, G.GraphSON2Serializer), (3, G.GraphSON3Serializer)):
        items = []
        for k, t in cls._serializers.items():
            items.append('(%s, %s)' % (H.PYCLS.get(k.__name__, 'KWrapper'), H.TIO[t.__name__]))
        out.append('list_eqb (fun a b => pycls_eqb (fst a) (fst b) && tio_eqb (snd a) (snd b)) (registry V%d) [%s]' % (ver, '; '.join(items)))
    out.append('(MAX_INT32 =? %s) && (MIN_INT32 =? %s)' % (H.z(G.MAX_INT32), H.z(G.MIN_INT32)))
    return out


def run(ctx):
    import_cluster()
    ok = ctx.prove('Props/C40.v')
    if ctx.tier == 'thorough' and ok:
        ctx.coqchk('Props/C40.v')
    ctx.trust('hand-written model coq/Model/GraphSON.v of cassandra/datastax/graph/graphson.py (tie: correspondence only)',
              'ASSUMED leaf laws (Section hypotheses of Props/C40.v): Decimal(str(d)) = d, UUID(str(u)) = u, strptime inverts '
              'isoformat/strftime for the driver\'s format strings, from_wkt(str(g)) = g; json.loads(json.dumps(x)) = x incl. repr(float)',
              'harness lib/vf/gson_harness.py (spec builders, Gallina printers of Python values and of the produced GraphSON); '
              'coq/Model/GraphSONRun.v instantiates every Python-formatted leaf by the text Python printed for it',
              'Duration text is modelled as its tokens (sign, days, hours, minutes, seconds value, exponent-notation flag), regex acceptance on tokens')
    ctx.assume('equal value = Python == with the container kind preserved; bytes/bytearray/memoryview compare by content',
               'naive datetimes/times only; IP address objects, UDTs, graph element types, NaN are outside the statement\'s list')
    ctx.rule = ('corpus first; per GraphSON version 1/2/3 generated value trees (depth<=2 for v3 containers, v2 dicts with str keys, v1 scalars) '
                'from boundary pools + random, timedeltas incl. negative / 1..99 us / > 2^35 s; a datetime-subclass stream; non-trivial = '
                'distinct (version, value) that is a container, a timedelta, a blob or a temporal value')
    cases, meta = [], []

    def one(ver, vs, tag):
        v = H.build(vs)
        rt = H.roundtrip(ver, v)
        okv = rt['ser_exc'] is None and rt['back_exc'] is None and same(expect(v), rt['back'])
        ctx.case([ver, vs], nontrivial=vs[0] in ('list', 'set', 'tuple', 'dict', 'timedelta', 'bytes', 'bytearray', 'memoryview', 'date',
                                                 'time', 'datetime', 'subdatetime', 'adatetime', 'duration', 'polygon', 'linestring'),
                 sample={'version': ver, 'value': vs, 'graphson': json.dumps(rt['ser'])[:160], 'back': repr(rt['back'])[:120]})
        ctx.count('version', ver)
        ctx.count('kind', vs[0])
        ctx.count('stream', tag)
        for lf in leaves(vs):
            if lf[0] == 'timedelta':
                ctx.count('timedelta', td_class(lf[1]))
        if not okv:
            ctx.violation(classify(vs, rt), 'GraphSON%d round trip of %r: serialized %s, came back %s' % (
                ver, v, json.dumps(rt['ser'])[:200] if rt['ser_exc'] is None else 'raised ' + rt['ser_exc'],
                repr(rt['back'])[:200] if rt['back_exc'] is None else 'raised ' + str(rt['back_exc'])),
                case={'version': ver, 'val': vs}, expected=repr(v)[:300],
                actual=repr(rt['back'])[:300] if not (rt['back_exc'] or rt['ser_exc']) else (rt['back_exc'] or rt['ser_exc']),
                theorem='C40_roundtrip_%s' % ('1' if ver == 1 else '23'))
        c = coq_case(ver, v, rt)
        if c is not None:
            cases.append(c)
            meta.append((ver, vs, json.dumps(rt['ser'])[:200], repr(rt['back'])[:200], rt['back_exc'] or rt['ser_exc']))

    for rp in load_corpus():
        one(rp['version'], rp['val'], 'corpus')
    rng = ctx.rng
    n = 300 if ctx.tier == 'quick' else 3000
    for ver in (1, 2, 3):
        for i in range(n):
            one(ver, gen_value(rng, ver, 2), 'generated')
        for i in range(n // 20):
            w = rng.randrange(0, 3652059 * 86400 * US)
            one(ver, ['subdatetime', rng.choice([w, w - w % US])], 'datetime-subclass')
    for i in range(n // 10):
        one(3, ['set', [['bytes', bytes(rng.randrange(256) for _ in range(rng.randint(0, 4))).hex()]]], 'set-of-blobs')
        one(3, ['dict', [[['bytes', bytes(rng.randrange(256) for _ in range(rng.randint(0, 4))).hex()], ['int', i]]]], 'blob-key')
    for c in registry_cases():
        cases.append(c)
        meta.append((0, 'registry', c[:200], '', None))
    try:
        try:
            bad = ctx.coq_filter(['DyFloat', 'GraphSON', 'GraphSONRun'], '(fun b : bool => b)', cases, shard=150)
        except RuntimeError as e:
            if 'Error' in str(e):
                raise
            bad = ctx.coq_filter(['DyFloat', 'GraphSON', 'GraphSONRun'], '(fun b : bool => b)', cases, shard=150)
        for i in bad[:10]:
            ver, vs, ser, back, exc = meta[i]
            ctx.disagreement('model-vs-impl.v%s.%s' % (ver, vs[0] if isinstance(vs, list) else vs),
                             'model differs from the real GraphSON%s classes at value=%s (impl: %s -> %s%s)'
                             % (ver, json.dumps(vs)[:300], ser, back, ' raised ' + str(exc) if exc else ''),
                             case={'version': ver, 'val': vs}, actual=back)
    except RuntimeError as e:
        ctx.proof_broken.append(('correspondence:GraphSON', str(e)[-800:]))


def replay(ctx, rp):
    import shutil
    shutil.rmtree(ctx.scratch, ignore_errors=True)       # replay needs no scratch space
    import_cluster()
    case = rp.get('case') or {}
    if not case.get('val'):
        print('nothing to replay: %s' % rp.get('theorem'))
        return 1
    v = H.build(case['val'])
    rt = H.roundtrip(case['version'], v)
    okv = rt['ser_exc'] is None and rt['back_exc'] is None and same(expect(v), rt['back'])
    print('replay GraphSON%d value=%r -> %s -> %s' % (case['version'], v,
          json.dumps(rt['ser']) if rt['ser_exc'] is None else 'raised ' + rt['ser_exc'],
          repr(rt['back']) if rt['back_exc'] is None else 'raised ' + str(rt['back_exc'])))
    print(('VIOLATION property=C40 replay=%s' % ctx.replay_path) if not okv else 'not reproduced')
    return 0 if okv else 1
