"""C36 -- cqlengine column values are stored as the core driver would store them.

Coq: Model/Columns.v (to_database of every column class; denote / prepared_value into a canonical CQL value syntax;
bit-exact float model DyFloat.v), Props/C36.v (C36_same_value for all columns x valid values by nested induction,
C36_datetime_exact_ms for every wall clock and every offset function, refutations of the pre-repair DateTime code).
(C) the real columns are driven on generated (column, value) pairs: to_database output, cqltypes serialisation of the
output and of the original value (decoded by a struct-level decoder) are compared with the model inside Coq; the
property itself is evaluated on the implementation by a Python oracle (exact integer instant for datetimes).
"""
import datetime as dtm
import json, os, struct
from vf import core
from vf.impl import import_cluster
from vf import cols_harness as H

META = {
    'technique': 'Coq proof (nested structural induction over column types; Z arithmetic) on a hand-written model of '
                 'cqlengine/columns.py + differential execution against the real column classes and cassandra.cqltypes',
    'level_text': 'C36_same_value (every column class incl. nested List/Set/Map/Tuple/UDT x every valid value: to_database output '
                  'denotes the CQL value cqltypes serialisation encodes for the original value), C36_datetime_exact_ms (every '
                  'wall clock, every utcoffset function incl. DST: stored ms = floor of the exact instant, exact on whole ms, truncation toward zero below), '
                  'C36_datetime_naive_is_utc; C36_resend (same object sent n times); the CQL literal actually sent (Encoder, Duration/Time __str__) is part of '
                  'C36_same_value; pre-repair float/epoch-offset code refuted; C36_full_statement (core float path everywhere) refuted = open C36-5.',
    'level_note': 'Hand-written model tied by correspondence only (tie C). Trusted: Coq kernel, harness (spec builders, struct-level '
                  'decoder, tz rule zones), Python datetime/timedelta arithmetic (wall-clock microseconds are harness inputs), '
                  'the CQL literal path (Encoder + server parsing) is represented by `denote`, tied to cqltypes.serialize of the '
                  'to_database output. Not covered: float->Decimal and int->Date coercions (conventions differ by design), '
                  'None inside list/set/map, sub-millisecond datetimes vs the core float path (only the enclosing-millisecond bracket is demanded).',
    'design_ref': 'DESIGN.md section 4, C36',
}

I_POOL = [0, 1, -1, 2, 7, 127, 128, -128, -129, 255, 256, 32767, 32768, -32768, -32769, 2 ** 31 - 1, 2 ** 31, -2 ** 31,
          -2 ** 31 - 1, 2 ** 32, 2 ** 53 + 1, 2 ** 63 - 1, 2 ** 63, -2 ** 63, -2 ** 63 - 1, 2 ** 64, 10 ** 30, -10 ** 30]
RANGE = {'Integer': (-2 ** 31, 2 ** 31), 'TinyInt': (-128, 128), 'SmallInt': (-2 ** 15, 2 ** 15), 'BigInt': (-2 ** 63, 2 ** 63),
         'Counter': (-2 ** 63, 2 ** 63), 'VarInt': (-10 ** 40, 10 ** 40)}
MIN_WALL = H.wall_us(dtm.datetime(1, 1, 1))
MAX_WALL = H.wall_us(dtm.datetime(9999, 12, 31, 23, 59, 59, 999999))
DAY = 86400 * 10 ** 6
HASHABLE = [s for s in H.SCALARS if s != 'Duration']     # util.Duration defines __eq__ without __hash__


def gen_col(rng, depth, hashable=False):
    if depth <= 0 or rng.random() < 0.45:
        return [rng.choice(HASHABLE if hashable else H.SCALARS)]
    kinds = ['Tuple'] if hashable else ['List', 'Set', 'Map', 'Tuple', 'UDT', 'List', 'Map']
    k = rng.choice(kinds)
    if k == 'List':
        return ['List', gen_col(rng, depth - 1)]
    if k == 'Set':
        return ['Set', gen_col(rng, depth - 1, True)]
    if k == 'Map':
        return ['Map', gen_col(rng, depth - 1, True), gen_col(rng, depth - 1)]
    n = rng.randint(1, 3)
    return [k] + [gen_col(rng, depth - 1, hashable) for _ in range(n)]


def gen_wall(rng, lo=MIN_WALL, hi=MAX_WALL):
    r = rng.random()
    if r < 0.25:
        w = rng.randrange(lo, hi + 1)
    elif r < 0.45:
        w = rng.randrange(-3 * 10 ** 9, 3 * 10 ** 9)                # around the epoch, both signs
    elif r < 0.6:
        y = rng.choice([1, 2, 1582, 1900, 1969, 1970, 2000, 2038, 2262, 5000, 9998, 9999])
        w = H.wall_us(dtm.datetime(y, rng.randint(1, 12), rng.randint(1, 28), rng.randint(0, 23), rng.randint(0, 59), rng.randint(0, 59)))
        w += rng.choice([0, 1000, 999000, 1, 999999, 500, 123456])
    elif r < 0.8:
        # whole seconds plus the milliseconds whose float product falls just below an integer
        w = rng.randrange(-10 ** 9, 4 * 10 ** 9) * 10 ** 6 + rng.choice([1000, 9000, 19000, 37000, 129000, 257000, 513000, 999000])
    else:
        # DST switch days of the harness zones
        day = rng.randrange(-700000, 2900000)
        day -= day % 365
        w = (day + rng.choice([59, 60, 79, 80, 299, 300, 309, 310])) * DAY + rng.randrange(0, DAY)
    return min(max(w, lo), hi)


def gen_datetime(rng, aligned):
    tz = rng.choice([None, None, 'dst', 'west', 'fixed'])
    lo, hi = (MIN_WALL, MAX_WALL) if tz is None else (MIN_WALL + 2 * DAY, MAX_WALL - 2 * DAY)
    w = gen_wall(rng, lo, hi)
    if aligned:
        w -= w % 1000
    return ['datetime', w, tz]


EXACT_MS = 2 ** 44 - 4 * 86400 * 1000      # |instant| below 2^44 ms: the core float expression truncates the true value


def gen_datetime_exact_range(rng):
    """any microsecond (sub-millisecond digits included), instant within 2^44 ms of the epoch, half of them before 1970"""
    tz = rng.choice([None, None, 'dst', 'west', 'fixed'])
    r = rng.random()
    if r < 0.35:
        w = -rng.randrange(1, 10 ** rng.randrange(1, 17))                        # just before / long before the epoch
    elif r < 0.5:
        w = -rng.randrange(0, 10 ** 7) * 10 ** 6 - rng.choice([1, 999, 1000, 1001, 500500, 999999, 999001])
    elif r < 0.7:
        w = rng.randrange(-EXACT_MS * 1000, EXACT_MS * 1000)
    else:
        w = rng.randrange(0, 4 * 10 ** 9) * 10 ** 6 + rng.choice([1, 999, 1001, 999999, 123456, 500])
    w = max(-EXACT_MS * 1000, min(EXACT_MS * 1000, w))
    return ['datetime', w, tz]


def trunc_ms(us):
    return us // 1000 if us >= 0 else -(-us // 1000)


def gen_float(rng, single, key):
    r = rng.random()
    if not key and r < 0.08:
        return ['float', rng.choice(['nan', 'inf', '-inf', '-0x0.0p+0'])]
    if not key and r < 0.2:
        return ['int', rng.choice([0, 1, -1, 2 ** 24 + 1, 2 ** 53 + 1, -2 ** 60 - 1, 16777217, 10 ** 20])]
    if r < 0.5:
        x = rng.choice([0.0, 0.1, 1.5, -2.75, 1e-3, 3.4028234663852886e38, -3.4028234663852886e38, 1e-45, 7e-46, 1.17549435e-38,
                        16777217.0, 0.30000000000000004, 1e30, 5e-324 if not single else 1e-40])
    elif r < 0.75:
        x = struct.unpack('>f', struct.pack('>I', rng.getrandbits(32)))[0]
        if x != x or x in (float('inf'), float('-inf')):
            x = 1.0
    else:
        x = struct.unpack('>d', struct.pack('>Q', rng.getrandbits(64)))[0]
        if x != x or x in (float('inf'), float('-inf')):
            x = 2.0
        if single and abs(x) >= 3.4028235677973366e38:
            x = x / 1e300 if abs(x) < 1e300 else 1.0
            if abs(x) >= 3.4028235677973366e38:
                x = 3.0
    return ['float', float(x).hex()]


def gen_val(rng, spec, key=False):
    """a VALID value for the column (by construction), as a JSON-able value spec"""
    k = spec[0]
    if k in RANGE:
        lo, hi = RANGE[k]
        pool = [v for v in I_POOL if lo <= v < hi]
        return ['int', rng.choice(pool) if rng.random() < 0.5 else rng.randrange(lo, hi)]
    if k in ('Text', 'Ascii'):
        n = rng.choice([0, 1, 2, 5, 12])
        if k == 'Ascii':
            return ['str', [rng.randrange(0, 128) for _ in range(n)]]
        return ['str', [rng.choice([rng.randrange(32, 127), rng.randrange(0, 0xD800), rng.randrange(0xE000, 0x110000), 0x7f, 0x80, 0x7ff,
                                    0x800, 0xffff, 0x10000, 0x10ffff, 0]) for _ in range(n)]]
    if k == 'Blob':
        b = bytes(rng.randrange(256) for _ in range(rng.choice([0, 1, 3, 8])))
        return ['bytes' if key or rng.random() < 0.5 else 'bytearray', b.hex()]
    if k == 'Boolean':
        return ['bool', rng.random() < 0.5]
    if k in ('Float', 'Double'):
        return gen_float(rng, k == 'Float', key)
    if k == 'Decimal':
        long_coeff = rng.choice([10 ** 28 + 1, 10 ** 29 - 1, 2 ** 128, 31415926535897932384626433832795028841971693993751,
                                 rng.randrange(10 ** 28, 10 ** rng.randrange(29, 61))])
        r = rng.random()
        if not key and r < 0.2:
            return ['int', rng.choice(I_POOL + [long_coeff, -long_coeff])]
        if not key and r < 0.3:
            return ['numstr', '%s%d' % (rng.choice(['', '-']), long_coeff) if rng.random() < 0.5 else
                    '%s%d.%d' % (rng.choice(['', '-']), rng.randrange(0, 10 ** 20), rng.randrange(0, 10 ** 15))]
        digits = str(rng.choice([0, 1, 10, 110, 12345, 10 ** 25 + 7, rng.randrange(0, 10 ** 12), long_coeff, long_coeff]))
        return ['decimal', '%s%sE%d' % (rng.choice(['', '-']), digits, rng.randrange(-30, 31))]
    if k in ('UUID', 'TimeUUID'):
        return ['uuid', rng.choice([0, 2 ** 128 - 1, rng.getrandbits(128)])]
    if k == 'Inet':
        if rng.random() < 0.5:
            return ['inet', '.'.join(str(rng.randrange(256)) for _ in range(4))]
        return ['inet', ':'.join('%x' % rng.randrange(1, 65536) for _ in range(8))]
    if k == 'Date':
        r = rng.random()
        if key or r < 0.4:
            return ['date', rng.choice([0, -1, 1, -719162, 2932896, rng.randrange(-719162, 2932897)])]
        if r < 0.7:
            return gen_datetime(rng, False)
        return ['udate', rng.choice([0, -2 ** 31, 2 ** 31 - 1, -1, rng.randrange(-2 ** 31, 2 ** 31)])]
    if k == 'Time':
        if key or rng.random() < 0.5:
            return ['time', rng.choice([0, DAY - 1, 1, 999999, rng.randrange(0, DAY)])]
        return ['utime', rng.choice([0, 1, 86399999999999, rng.randrange(0, 86400 * 10 ** 9)])]
    if k == 'DateTime':
        if not key and rng.random() < 0.1:
            return ['date', rng.choice([0, -1, -719162, 2932896, rng.randrange(-719162, 2932897)])]
        if key or rng.random() < 0.5:
            d = gen_datetime(rng, True)
            if key:
                d[2] = None
            return d
        return gen_datetime_exact_range(rng)
    if k == 'Duration':
        # components of one sign (Cassandra rejects mixed signs); every subset of the components may be zero
        sg = rng.choice([1, 1, -1, -1, -1])
        mo = rng.choice([0, 0, 1, 2 ** 31 - 1, rng.randrange(0, 1000)])
        d = rng.choice([0, 1, 3, 7, rng.randrange(0, 10 ** 5)])
        ns = rng.choice([0, 0, 1, 2 ** 63 - 1, rng.randrange(0, 10 ** 15)])
        return ['duration', sg * mo, sg * d, sg * ns]
    if k == 'List':
        return [rng.choice(['list', 'list', 'tuple']), [gen_val(rng, spec[1]) for _ in range(rng.choice([0, 1, 2, 4]))]]
    if k == 'Set':
        return ['set', [gen_val(rng, spec[1], True) for _ in range(rng.choice([0, 1, 2, 4]))]]
    if k == 'Map':
        pairs, seen = [], set()
        for _ in range(rng.choice([0, 1, 2, 3])):
            kk = gen_val(rng, spec[1], True)
            if json.dumps(kk) in seen:
                continue
            seen.add(json.dumps(kk))
            pairs.append([kk, gen_val(rng, spec[2])])
        return ['dict', pairs]
    if k == 'Tuple':
        n = len(spec) - 1 if rng.random() < 0.8 else rng.randint(0, len(spec) - 1)
        out = []
        for s in spec[1:1 + n]:
            out.append(['none'] if rng.random() < 0.15 else gen_val(rng, s, key))
        return ['tuple', out]
    if k == 'UDT':
        return ['udt', [['none'] if rng.random() < 0.2 else gen_val(rng, s) for s in spec[1:]]]
    raise ValueError(spec)


MALFORMED = [
    (['Integer'], ['str', [97]]), (['BigInt'], ['none']), (['Blob'], ['str', [97]]), (['Blob'], ['int', 5]),
    (['DateTime'], ['int', 1000]), (['DateTime'], ['str', [50, 48]]), (['DateTime'], ['none']), (['UUID'], ['int', 5]),
    (['UUID'], ['str', [122]]), (['Time'], ['float', '0x1.8p+1']), (['Time'], ['int', 86400 * 10 ** 9]), (['Date'], ['float', '0x1.8p+1']),
    (['Decimal'], ['str', [120]]), (['Float'], ['str', [120]]), (['VarInt'], ['bytes', '00']),
    (['List', ['Blob']], ['list', [['str', [97]]]]), (['Map', ['Text'], ['DateTime']], ['dict', [[['str', [97]], ['int', 5]]]]),
    (['Set', ['UUID']], ['set', [['int', 5]]]), (['Integer'], ['bool', True]), (['Double'], ['bool', True]), (['Date'], ['int', 5]),
    (['Time'], ['int', 5]), (['Boolean'], ['none']), (['List', ['Integer']], ['none']), (['UDT', ['Integer'], ['List', ['Text']]], ['none']),
]


def top_name(spec):
    return spec[0]


def has_datetime_col(spec):
    return spec[0] == 'DateTime' or any(has_datetime_col(s) for s in spec[1:] if isinstance(s, list))


def exact_ms(dt):
    """the exact instant of a datetime in integer microseconds: naive = UTC, aware = wall clock - utcoffset(value)"""
    us = H.wall_us(dt)
    if dt.tzinfo is not None:
        off = dt.tzinfo.utcoffset(dt)
        us -= (off.days * 86400 + off.seconds) * 10 ** 6 + off.microseconds
    return us


def snapshot(v, colspec):
    try:
        return H.gal_py(v, colspec)
    except H.Unprintable:
        return None


def evaluate(colspec, valspec):
    """Drive the REAL column, step by step: core encoding of the pristine value, first to_database, state of the argument
    afterwards, the literal the Encoder renders, a second to_database of the SAME object."""
    col = H.build_col(colspec)
    v = H.build_val(valspec, col)
    t = col.cql_type
    out = {'col': col, 'v': v, 'x': None, 'x_exc': None, 'den': None, 'prep': None, 'fails': [], 'lit': None, 'lit_gal': None,
           'lit_val': None, 'lit_exc': None, 'x2_den': None, 'x2_exc': None}
    try:
        out['prep'] = H.decode(t, t.serialize(v, 4))
    except Exception as e:
        out['prep_exc'] = type(e).__name__
    out['v_before'] = snapshot(v, colspec)
    try:
        out['x'] = col.to_database(v)
    except Exception as e:
        out['x_exc'] = type(e).__name__
    out['v_after'] = snapshot(v, colspec)
    if out['x_exc'] is None:
        try:
            out['den'] = H.decode(t, t.serialize(out['x'], 4))
        except Exception as e:
            out['den_exc'] = type(e).__name__
        try:
            out['lit'] = H.make_encoder(col).cql_encode_all_types(out['x'])
            out['lit_gal'], out['lit_val'] = H.read_literal(out['lit'], t)
        except Exception as e:
            out['lit_exc'] = '%s: %s' % (type(e).__name__, str(e)[:120])
        try:
            x2 = col.to_database(v)                     # the same object sent again
            out['x2_den'] = H.decode(t, t.serialize(x2, 4))
        except Exception as e:
            out['x2_exc'] = type(e).__name__
    return out


def oracle(colspec, valspec, ev, valid=True):
    """the property on the implementation, for a value that is valid by construction"""
    fails = []
    name = top_name(colspec)
    if not valid:
        return fails
    if ev['x_exc'] is not None:
        fails.append(('%s.to_database.raises.%s' % (name, ev['x_exc']),
                      '%s.to_database raised %s on a valid value' % (name, ev['x_exc']), 'a database value', ev['x_exc']))
        return fails
    if name == 'DateTime' and valspec[0] == 'datetime':
        us = exact_ms(ev['v'])
        want = trunc_ms(us)                       # sub-millisecond digits dropped toward zero, as the core path does
        got = ev['x']
        kind = 'aware' if valspec[2] else 'naive'
        if not (isinstance(got, int) and got == want):
            why = 'not-exact-ms' if us % 1000 == 0 else 'sub-ms-not-truncated-toward-zero'
            fails.append(('DateTime.to_database.%s.%s' % (kind, why),
                          'DateTime.to_database(%r) = %r, exact instant is %d us: the core driver sends %d ms' % (ev['v'], got, us, want),
                          want, got))
            return fails
    if ev['prep'] is None or ev['den'] is None:
        fails.append(('%s.unencodable.%s' % (name, ev.get('den_exc') or ev.get('prep_exc')),
                      '%s: cqltypes cannot encode %s' % (name, 'the to_database output' if ev['den'] is None else 'the original value'),
                      'encodable', ev.get('den_exc') or ev.get('prep_exc')))
        return fails
    if ev['v_before'] is not None and ev['v_after'] != ev['v_before']:
        fails.append(('%s.to_database.writes-its-argument' % name,
                      '%s.to_database changed the object it was given: %s -> %s' % (name, ev['v_before'][:200], (ev['v_after'] or '?')[:200]),
                      ev['v_before'][:300], (ev['v_after'] or '?')[:300]))
    if ev['x2_exc'] is not None or H.canon(ev['x2_den']) != H.canon(ev['prep']):
        fails.append(('%s.to_database.second-send-differs' % name,
                      '%s: sending the same object a second time gives %r, the core driver encodes %r' % (name, ev['x2_exc'] or ev['x2_den'], ev['prep']),
                      repr(ev['prep']), repr(ev['x2_exc'] or ev['x2_den'])))
    if ev['lit_val'] is None:
        fails.append(('%s.literal.unreadable' % name, '%s: the CQL literal %r cannot be read as %s (%s)' % (
            name, (ev['lit'] or '')[:200], ev['col'].db_type, ev['lit_exc']), 'a literal of type ' + ev['col'].db_type, ev['lit_exc']))
    elif H.canon(ev['lit_val']) != H.canon(ev['prep']):
        fails.append(('%s.literal.value-differs' % name,
                      '%s: the CQL literal sent, %s, denotes %r; the core driver encodes %r' % (name, ev['lit'][:200], ev['lit_val'], ev['prep']),
                      repr(ev['prep']), repr(ev['lit_val'])))
    if H.canon(ev['den']) != H.canon(ev['prep']):
        fails.append(('%s.value-differs%s' % (name, '.datetime' if has_datetime_col(colspec) else ''),
                      '%s: to_database output denotes %r, the core driver encodes %r' % (name, ev['den'], ev['prep']),
                      repr(ev['prep']), repr(ev['den'])))
    return fails


def submilli_oracle(valspec, ev):
    """any datetime, any microsecond: the stored value is the exact instant with the sub-millisecond digits dropped
    (floor or ceiling millisecond accepted: the statement fixes only whole-millisecond instants; C36_datetime_exact_ms)"""
    if ev['x_exc'] is not None:
        return [('DateTime.to_database.raises.%s' % ev['x_exc'], 'DateTime.to_database raised %s' % ev['x_exc'], 'int', ev['x_exc'])]
    us = exact_ms(ev['v'])
    got = ev['x']
    kind = 'aware' if valspec[2] else 'naive'
    if not (isinstance(got, int) and got in (us // 1000, -(-us // 1000))):
        return [('DateTime.to_database.%s.not-exact-ms' % kind,
                 'DateTime.to_database(%r) = %r, exact instant is %d us' % (ev['v'], got, us), us // 1000, got)]
    core = ev['prep'][1] if ev['prep'] else None
    if core != got:
        # cqlengine sends the exact truncation; the core float expression differs
        where = 'far-from-epoch' if abs(got) >= 2 ** 44 else 'near-epoch'
        return [('DateType.serialize.float-path.%s' % where,
                 'cqlengine sends %r for %r (exact instant %d us), the core driver\'s DateType.serialize sends %r' % (got, ev['v'], us, core),
                 got, core)]
    return []


def coq_case(colspec, valspec, ev, valid):
    """Gallina boolean: the model agrees with every recorded observable of the implementation at this case"""
    try:
        gv = ev['v_before']                         # the argument as it was BEFORE the call
        if gv is None:
            return None
        gx = None if ev['x_exc'] is not None else H.gal_py(ev['x'], colspec)
    except H.Unprintable:
        return None
    gc = H.gal_col(colspec)
    parts = []
    if valid:
        parts.append('valid %s %s' % (gc, gv))
        parts.append('opt_eqb pyval_eqb (to_database %s %s) %s' % (gc, gv, H.opt(gx)))
        if ev['prep'] is not None:
            parts.append('opt_eqb value_eqb (prepared_value (cql_type %s) %s) (Some %s)' % (gc, gv, H.gal_value(ev['prep'])))
        if gx is not None and ev['den'] is not None:
            parts.append('opt_eqb value_eqb (denote (cql_type %s) %s) (Some %s)' % (gc, gx, H.gal_value(ev['den'])))
        if gx is not None and ev['lit_gal'] is not None:
            parts.append('opt_eqb lit_eqb (encode_literal %s) (Some %s)' % (gx, ev['lit_gal']))
            parts.append('opt_eqb value_eqb (lit_value (cql_type %s) %s) (Some %s)' % (gc, ev['lit_gal'], H.gal_value(ev['lit_val'])))
        if ev['v_after'] is not None:
            parts.append('pyval_eqb (arg_after %s %s) %s' % (gc, gv, ev['v_after']))
    else:
        # malformed / out-of-domain stream: whenever the model claims a result it must be the implementation's
        parts.append('negb (valid %s %s)' % (gc, gv))
        parts.append('match to_database %s %s with Some x_ => %s | None => true end'
                     % (gc, gv, 'false' if gx is None else 'pyval_eqb x_ %s' % gx))
    return ' && '.join('(%s)' % p for p in parts)


def load_corpus():
    d = os.path.join(core.VERIF, 'corpus', 'C36')
    out = []
    if os.path.isdir(d):
        for fn in sorted(os.listdir(d)):
            if fn.endswith('.json'):
                with open(os.path.join(d, fn)) as f:
                    out.append(json.load(f))
    return out


def run(ctx):
    import_cluster()
    ok = ctx.prove('Props/C36.v')
    if ctx.tier == 'thorough' and ok:
        ctx.coqchk('Props/C36.v')
    ctx.trust('hand-written model coq/Model/Columns.v of cassandra/cqlengine/columns.py (tie: correspondence only)',
              'harness lib/vf/cols_harness.py: spec builders, struct-level decoder of cqltypes output, RuleZone tzinfo subclasses',
              'Python datetime/timedelta arithmetic (wall-clock microseconds of a datetime are computed by the harness with integer arithmetic)',
              '`denote` stands for CQL literal rendering + server parsing of the to_database output; tied to cqltypes.serialize of that output')
    ctx.assume('valid values: the natural Python types of each CQL type (DESIGN 4.0 reading); float->Decimal and int->Date coercions excluded',
               'datetimes are compared with the core encoding on whole-millisecond instants everywhere and on every datetime within 2^44 ms of the epoch '
               '(where the core float expression truncates the true value toward zero); beyond that a sub-millisecond datetime must store the floor or ceiling millisecond',
               'tzinfo.utcoffset returns an offset (never None) and is a function of the wall clock')
    ctx.rule = ('corpus first; then per random column spec (depth<=2, all 20 scalar classes + List/Set/Map/Tuple/UDT) valid values from '
                'boundary pools + random (decimals/ints/numeric strings up to 60 digits, also under a lowered decimal context precision); datetimes over '
                'years 1..9999, naive and in 3 harness zones (two with DST), sub-millisecond and pre-1970 values within 2^44 ms compared with the core encoding; separate malformed '
                'stream; non-trivial = distinct (column, value) whose to_database output differs from the input object or is a container')
    cases, meta = [], []

    def one(colspec, valspec, valid, tag):
        ev = evaluate(colspec, valspec)
        fails = oracle(colspec, valspec, ev, valid) if valid else []
        if tag == 'submilli':
            fails = submilli_oracle(valspec, ev)
        nontriv = len(colspec) > 1 or colspec[0] in ('DateTime', 'Date', 'Time', 'Blob', 'Float', 'Decimal')
        ctx.case([colspec, valspec], nontrivial=nontriv and valid,
                 sample={'col': colspec, 'value': valspec, 'to_database': repr(ev['x'])[:120], 'core': repr(ev['prep'])[:120]})
        ctx.count('column', colspec[0])
        ctx.count('stream', tag)
        for key, what, exp, act in fails:
            ctx.violation(key, what, case={'col': colspec, 'val': valspec}, expected=exp, actual=act,
                          theorem='C36_datetime_exact_ms' if 'not-exact-ms' in key else 'C36_same_value')
        if tag == 'submilli' and ev['prep'] and ev['v_before']:
            # the bit-exact model of the core float expression, on every datetime
            w, tzn = valspec[1], valspec[2]
            cases.append('(core_datetime_ms_float %s %s =? %s)' % (H.z(w), '(Some zone_%s)' % tzn if tzn else 'None', H.z(ev['prep'][1])))
            meta.append((colspec, valspec, 'core ' + repr(ev['prep']), None))
        if tag != 'submilli':
            c = coq_case(colspec, valspec, ev, valid)
            if c is not None:
                cases.append(c)
                meta.append((colspec, valspec, repr(ev['x'])[:200], ev['x_exc']))
        return fails

    for rp in load_corpus():
        one(rp['col'], rp['val'], rp.get('valid', True), rp.get('tag', 'corpus'))
    n = 700 if ctx.tier == 'quick' else 5000
    rng = ctx.rng
    for i in range(n):
        r = rng.random()
        if r < 0.3:
            colspec = [rng.choice(H.SCALARS)]
        elif r < 0.45:
            colspec = ['DateTime']
        else:
            colspec = gen_col(rng, 2)
        one(colspec, gen_val(rng, colspec), True, 'valid')
    for i in range(n // 3):
        one(['DateTime'], gen_datetime(rng, False), False, 'submilli')
    # an application may lower the decimal context precision: conversion must not depend on it
    import decimal
    saved_prec = decimal.getcontext().prec
    decimal.getcontext().prec = 5
    try:
        for i in range(n // 15):
            colspec = rng.choice([['Decimal'], ['List', ['Decimal']], ['Map', ['Text'], ['Decimal']], ['Tuple', ['Decimal'], ['Integer']]])
            one(colspec, gen_val(rng, colspec), True, 'low-decimal-precision')
    finally:
        decimal.getcontext().prec = saved_prec
    for colspec, valspec in MALFORMED:
        one(colspec, valspec, False, 'malformed')
    for i in range(n // 10):
        # wrong-typed values for random scalar columns
        colspec = [rng.choice(H.SCALARS)]
        other = [rng.choice(H.SCALARS)]
        if other[0] == colspec[0] or 'Inet' in (other[0], colspec[0]):       # an address is a plain str to any other column
            continue
        valspec = gen_val(rng, other)
        ev = evaluate(colspec, valspec)
        ctx.case([colspec, valspec], nontrivial=False)
        ctx.count('stream', 'wrong-type')
        ctx.count('wrong-type-outcome', 'raises' if ev['x_exc'] else 'accepted')
        c = None
        try:
            gv = H.gal_py(ev['v'], other)
            gx = None if ev['x_exc'] else H.gal_py(ev['x'], colspec)
            c = '(match to_database %s %s with Some x_ => %s | None => true end)' % (
                H.gal_col(colspec), gv, 'false' if gx is None else 'pyval_eqb x_ %s' % gx)
        except H.Unprintable:
            pass
        if c:
            cases.append(c)
            meta.append((colspec, valspec, repr(ev['x'])[:200], ev['x_exc']))
    ctx.extra['t_python_s'] = round(__import__('time').time() - ctx.t0, 1)
    try:
        try:
            bad = ctx.coq_filter(['DyFloat', 'Columns'], '(fun b : bool => b)', cases, shard=150)
        except RuntimeError as e:
            if 'Error' in str(e):
                raise
            # a coqc process died without a Coq error (machine overload): one retry, then report
            bad = ctx.coq_filter(['DyFloat', 'Columns'], '(fun b : bool => b)', cases, shard=150)
        for i in bad[:10]:
            colspec, valspec, x, exc = meta[i]
            ctx.disagreement('model-vs-impl.%s' % colspec[0],
                             'model differs from the real column at col=%s value=%s (impl to_database -> %s%s)'
                             % (json.dumps(colspec), json.dumps(valspec)[:300], x, ' raised ' + exc if exc else ''),
                             case={'col': colspec, 'val': valspec}, actual=x)
    except RuntimeError as e:
        ctx.proof_broken.append(('correspondence:Columns', str(e)[-800:]))


def replay(ctx, rp):
    import shutil
    shutil.rmtree(ctx.scratch, ignore_errors=True)       # replay needs no scratch space
    import_cluster()
    case = rp.get('case') or {}
    if not case.get('col'):
        print('nothing to replay: %s' % rp.get('theorem'))
        return 1
    ev = evaluate(case['col'], case['val'])
    fails = oracle(case['col'], case['val'], ev, True)
    if case['col'] == ['DateTime'] and case['val'][0] == 'datetime':
        fails = fails or submilli_oracle(case['val'], ev)
    print('replay col=%s value=%r -> to_database %r%s; core encodes %r' % (
        json.dumps(case['col']), ev['v'], ev['x'], (' raised ' + ev['x_exc']) if ev['x_exc'] else '', ev['prep']))
    for f in fails:
        print('  ' + f[1])
    print(('VIOLATION property=C36 replay=%s' % ctx.replay_path) if fails else 'not reproduced')
    return 1 if fails else 0
