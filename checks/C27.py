"""C27 -- CQL identifiers and literals produced by the driver read back unchanged.

(T) reserved words, the character classes / end anchor of valid_cql3_word_re (and whether is_valid_name uses match or
    fullmatch) and the escaping inside `USE "..."` are regenerated from the source into coq/Gen/CqlKeywords.v; the
    theorems of coq/Props/C27.v are proved over those constants for ALL code-point lists.
(C) escape_name / is_valid_name / maybe_escape_name / protect_name(s) / protect_value / cql_quote and the USE statement
    of Connection.set_keyspace_blocking/async are run side by side with coq/Model/CqlLex.v; the Coq lexer is compared
    with the independent Python lexer (lib/vf/lex_oracle.py) which is the executable statement applied to the driver.
"""
import enum, itertools, json, os, threading
from vf import core, lex_gen, lex_export
from vf import lex_oracle as LO

META = {
    'technique': 'Coq proof (induction over code-point lists) about a CQL3 lexer and a mirror of the driver escaping functions; '
                 'constants regenerated from source; exhaustive small-scope + random correspondence',
    'level_text': 'C27_quoted / C27_unquoted_ok / C27_protect_name(s) / C27_string / C27_protect_value / C27_use_keyspace / C27_name_list / '
                  'C27_edge_export / C27_index_options proved for '
                  'every list of code points; reserved words, regex classes/anchor and USE escaping regenerated from the working tree; '
                  'model and lexer tied to the real functions exhaustively over strings <= 3 (quick) / 4 (thorough) chars of an '
                  'adversarial alphabet plus keyword and random streams; every schema-export producer of cassandra/metadata.py driven slot by '
                  'slot with a hostile pool (differential token-stream oracle, AST audit of the producers).',
    'level_note': 'Trusted: Coq kernel; transcription of Cassandra Lexer.g (IDENT, QUOTED_NAME, STRING_LITERAL, INTEGER) -- the empty '
                  'quoted name is accepted (permissive reading); reserved = the driver table (DESIGN 4.0); lex_gen regex/AST reader; '
                  'str.lower modelled exactly on ASCII only (argued equivalent for is_valid_name in docs/C27.md).',
    'design_ref': 'DESIGN.md section 4, C27',
}

ALPHABET = ['a', 'A', '0', '_', '"', "'", '\n', ' ', 'é', '\U0001d11e']
# characters Python's str/re treat specially: non-ASCII decimal digits (\\d, isdigit), letters whose lower()/casefold()/re.I
# images are ASCII (KELVIN SIGN, dotless i, long s, I with dot), a combining mark
ALPHABET2 = ['a', 'k', '0', '_', '\u0663', '\uff11', '\u096a', '\u0131', '\u017f', '\u212a', '\u0130', '\u0301']
WIDE = ALPHABET2 + ALPHABET + ['z', 'Z', '9', 'k', 'K', 'İ', '\r', '\t', '\x00', '\ud800', '\U0010ffff', '$', ';', '-', '\\', '%', '\x0b', '\x1c', '\x85', ' ']


def gen(ctx):
    ctx.generate('CqlKeywords.v', lambda: lex_gen.emit(core.REPO))


class Str1(str):
    pass


class Str2(Str1):
    """two levels below str"""


class Mix(object):
    pass


class Str3(Mix, Str2):
    pass


def str_enum_member(text):
    return enum.StrEnum('E', {'M': text}).M if text else None


class StubConn(object):
    """Connection.set_keyspace_* run unmodified on an object that records the query instead of sending it."""

    def __init__(self):
        from cassandra.connection import Connection
        self.keyspace = None
        self.lock = threading.RLock()
        self.in_flight = 0
        self.max_request_id = 100
        self.endpoint = 'stub'
        self.sent = []
        self._C = Connection

    def _result(self):
        from cassandra.protocol import ResultMessage
        return ResultMessage.__new__(ResultMessage)

    def wait_for_response(self, msg, *a, **kw):
        self.sent.append(msg.query)
        return self._result()

    def get_request_id(self):
        return 1

    def send_msg(self, msg, request_id, cb, *a, **kw):
        self.sent.append(msg.query)
        cb(self._result())

    def defunct(self, exc):
        return exc

    def blocking(self, ks):
        self.keyspace = None
        self.sent = []
        self._C.set_keyspace_blocking(self, ks)
        return self.sent[0] if self.sent else None

    def asynchronous(self, ks):
        self.keyspace = None
        self.in_flight = 0      # set_keyspace_async increments it unconditionally (and would spin at max_request_id)
        self.sent = []
        self._C.set_keyspace_async(self, ks, lambda conn, err: None)
        return self.sent[0] if self.sent else None


def impl_outputs(n, conn):
    from cassandra import metadata as MD
    from cassandra import encoder as EN
    out = {
        'escape_name': MD.escape_name(n),
        'maybe_escape_name': MD.maybe_escape_name(n),
        'is_valid_name': bool(MD.is_valid_name(n)),
        'protect_name': MD.protect_name(n),
        'protect_names': MD.protect_names([n, n]),
        'cql_quote': EN.cql_quote(n),
        'protect_value': MD.protect_value(n),
    }
    # string literals quoted through the Encoder, as schema export does for custom-index options
    # (IndexMetadata.as_cql_query: cql_encode_all_types(options, as_text_type=True)); values may be instances of str subclasses
    e = MD._encoder if hasattr(MD, '_encoder') else EN.Encoder()
    out['encoder_str'] = [e.cql_encode_all_types(n), e.cql_encode_all_types(Str1(n)), e.cql_encode_all_types(Str2(n)),
                          e.cql_encode_all_types(Str3(n), as_text_type=True)]
    m = str_enum_member(n)
    if m is not None and m == n:
        out['encoder_str'].append(e.cql_encode_all_types(m))
    if n:
        out['use_blocking'] = conn.blocking(n)
        out['use_async'] = conn.asynchronous(n)
    return out


def judge(n, out, reserved):
    """The statement of C27 applied to the implementation's outputs for the name/text n.
    Returns list of (key, what, fn, actual)."""
    bad = []
    want = (n, '')
    e = out['escape_name']
    if LO.lex_ident(e, reserved) != want:
        bad.append(('escape_name.not-read-back', 'escape_name(%r) = %r lexes as %r' % (n, e, LO.lex_ident(e, reserved)), 'escape_name', e))
    for fn in ('maybe_escape_name', 'protect_name'):
        m = out[fn]
        got = LO.lex_ident(m, reserved)
        if got != want:
            if m == n:
                w, rest = LO.lex_word(n)
                if w in reserved and rest == '':
                    cls = 'unquoted.reserved'
                elif n.endswith('\n') and LO.lex_ident(n[:-1], reserved) == (n[:-1], ''):
                    cls = 'unquoted.trailing-newline'
                else:
                    cls = 'unquoted.not-read-back'
            else:
                cls = 'quoted.not-read-back'
            bad.append(('%s.%s' % (fn, cls), '%s(%r) = %r, which CQL reads as %r' % (fn, n, m, got), fn, m))
    if out['is_valid_name'] != (out['maybe_escape_name'] == n):
        bad.append(('is_valid_name.inconsistent', 'is_valid_name(%r)=%r but maybe_escape_name gives %r' % (n, out['is_valid_name'], out['maybe_escape_name']),
                    'is_valid_name', out['is_valid_name']))
    if [LO.lex_ident(x, reserved) for x in out['protect_names']] != [want, want]:
        bad.append(('protect_names.not-read-back', 'protect_names([%r]*2) = %r' % (n, out['protect_names']), 'protect_names', out['protect_names']))
    for fn in ('cql_quote', 'protect_value'):
        q = out[fn]
        if LO.lex_string(q) != want:
            bad.append(('%s.not-read-back' % fn, '%s(%r) = %r lexes as %r' % (fn, n, q, LO.lex_string(q)), fn, q))
    for i, q in enumerate(out.get('encoder_str', [])):
        if LO.lex_string(q) != want:
            cls = ['str', 'str.subclass', 'str.subclass-indirect', 'str.subclass-indirect-mixin', 'str.StrEnum'][i]
            bad.append(('Encoder.%s.not-read-back' % cls, 'Encoder.cql_encode_all_types(<%s> %r) = %r lexes as %r' % (cls, n, q, LO.lex_string(q)),
                        'encoder_str', q))
    for fn in ('use_blocking', 'use_async'):
        if fn in out:
            u = out[fn]
            got = None if u is None else LO.lex_use(u, reserved)
            if got != n:
                cls = 'unescaped-quote' if '"' in n else 'not-read-back'
                bad.append(('set_keyspace_%s.use.%s' % (fn[4:], cls),
                            'Connection.set_keyspace_%s(%r) sends %r, which names keyspace %r' % (fn[4:], n, u, got), fn, u))
    return bad


CHK_PRELUDE = LO.LEX_PRELUDE + '''
(* one case: the model's driver mirror against the implementation's outputs, and the Coq lexer against the Python lexer *)
Definition chk (n e m : str) (v : bool) (q pv : str) (li ls lm lq : option (str * str))
               (u : option (str * str * option str)) : bool :=
  str_eqb (escape_name n) e && str_eqb (maybe_escape_name n) m && Bool.eqb (is_valid_name n) v &&
  str_eqb (protect_name n) m && str_eqb (cql_quote n) q && str_eqb (protect_value (PVStr n)) pv &&
  opt_pair_eqb (lex_ident n) li && opt_pair_eqb (lex_string n) ls &&
  opt_pair_eqb (lex_ident m) lm && opt_pair_eqb (lex_string q) lq &&
  match u with
  | None => true
  | Some (ub, ua, lu) => str_eqb (use_keyspace n) ub && str_eqb (use_keyspace n) ua && opt_str_eqb (lex_use ub) lu
  end.
'''


def coq_case(n, out, reserved):
    u = 'None'
    if out.get('use_blocking') is not None and out.get('use_async') is not None:
        r = LO.lex_use(out['use_blocking'], reserved)
        u = '(Some (%s, %s, %s))' % (LO.zstr(out['use_blocking']), LO.zstr(out['use_async']), 'None' if r is None else '(Some %s)' % LO.zstr(r))
    return 'chk %s %s %s %s %s %s %s %s %s %s %s' % (
        LO.zstr(n), LO.zstr(out['escape_name']), LO.zstr(out['maybe_escape_name']), 'true' if out['is_valid_name'] else 'false',
        LO.zstr(out['cql_quote']), LO.zstr(out['protect_value']),
        # the Coq lexer against the Python oracle lexer, on the raw text and on what the driver produced
        LO.opt_pair(LO.lex_ident(n, reserved)), LO.opt_pair(LO.lex_string(n)),
        LO.opt_pair(LO.lex_ident(out['maybe_escape_name'], reserved)), LO.opt_pair(LO.lex_string(out['cql_quote'])), u)


def nontrivial(n):
    return n == '' or any(not (c in 'abcdefghijklmnopqrstuvwxyz0123456789_') for c in n) or n[0] in '0123456789_'


def names(ctx, reserved, unreserved):
    maxlen = 4 if ctx.tier == 'thorough' else 3
    ex = ['']
    for k in range(1, maxlen + 1):
        ex += [''.join(t) for t in itertools.product(ALPHABET, repeat=k)]
    for k in range(1, (3 if ctx.tier == 'thorough' else 2) + 1):
        ex += [''.join(t) for t in itertools.product(ALPHABET2, repeat=k)]
    ex += ['a' + ''.join(t) for t in itertools.product(ALPHABET2[4:], repeat=2)] + ['col' + c for c in ALPHABET2] + ['n' + c + '1' for c in ALPHABET2]
    rng = ctx.rng
    extra = []
    if ctx.tier == 'quick':
        extra += [''.join(rng.choice(ALPHABET) for _ in range(4)) for _ in range(700)]
    kws = sorted(reserved) + sorted(unreserved)
    kw = []
    for w in kws:
        kw += [w, w.upper(), w.capitalize(), w + '\n', w + '_', w + '"', w.replace('k', 'K'), w + ' ']
    targeted = ['abc\n', 'a\n\n', '\n', 'a\r', 'a b', 'a"; DROP KEYSPACE x; --', 'ks" WITH x', "it's", "''", '""', 'a""b', "a''b",
                'system_auth', 'x' * 200, '"' * 31, "'" * 31, 'abc\x00', 'abc ', 'abc\x85', 'abc\x0b', 'abc\x1c']
    nrand = 800 if ctx.tier == 'quick' else 6000
    rnd = []
    for _ in range(nrand):
        k = rng.randint(5, 40)
        mode = rng.random()
        if mode < 0.4:
            s = ''.join(rng.choice(WIDE) for _ in range(k))
        elif mode < 0.7:   # mostly-valid words with one or two disturbances
            s = ''.join(rng.choice('abcxyz019_') for _ in range(k))
            s = rng.choice('abcz') + s
            for _ in range(rng.randint(0, 2)):
                p = rng.randint(0, len(s))
                s = s[:p] + rng.choice(WIDE) + s[p:]
        else:               # keyword with a disturbance
            s = rng.choice(kws)
            p = rng.randint(0, len(s))
            s = s[:p] + rng.choice(WIDE + ['']) + s[p:]
            if rng.random() < 0.3:
                s = s.upper()
        rnd.append(s)
    return ex, extra + kw + targeted + rnd, maxlen


EXPORT_PRELUDE = '''
Fixpoint tok_eqb (a b : tok) : bool :=
  match a, b with
  | TId x, TId y => str_eqb x y | TKw x, TKw y => str_eqb x y | TStrLit x, TStrLit y => str_eqb x y
  | TNum x, TNum y => x =? y | TP x, TP y => x =? y | _, _ => false
  end.
Fixpoint toks_eqb (a b : list tok) : bool :=
  match a, b with [], [] => true | x :: a', y :: b' => tok_eqb x y && toks_eqb a' b' | _, _ => false end.
Definition otoks_eqb (a b : option (list tok)) : bool :=
  match a, b with Some x, Some y => toks_eqb x y | None, None => true | _, _ => false end.
(* the Coq tokenizer against the Python twin on a statement the driver produced *)
Definition chkt (stmt : str) (pt : option (list tok)) : bool := otoks_eqb (tokenize_all stmt) pt.
(* the model of the producers against the implementation *)
Definition chke (kw label : str) (pks ccs : list str) (out : str) : bool := str_eqb (export_edge kw label pks ccs) out.
Definition chkm (kvs : list (str * str)) (out : str) : bool := str_eqb (string_map kvs) out.
Definition chkn (ns : list str) (out : str) : bool := str_eqb (names_joined ns) out.
'''


def export_pool(ctx, others):
    rng = ctx.rng
    pool = ['', 'Ab', 'select', 'from', 'to', "it's", "''", "'", 'a"b', '"', 'a b', '1a', '_a', 'a\n', 'é', '\U0001d11e', 'nan', 'key',
            'a"; DROP KEYSPACE "b', "x' OR 1=1 --", 'MixedCase', 'with space', 'ok_name', 'a\u0663', '\u212a', 'a.b', 'a,b', 'a)b', '$$', ';']
    pool += [''.join(t) for k in (1, 2) for t in itertools.product(ALPHABET, repeat=k)]
    pool += ALPHABET2
    pool += rng.sample(others, min(len(others), 60 if ctx.tier == 'quick' else 600))
    seen, out = set(), []
    for x in pool:
        if x not in seen:
            seen.add(x)
            out.append(x)
    return out


def export_sweep(ctx, MD, reserved, others):
    """drives every slot with the hostile pool; returns Coq correspondence cases"""
    P = lex_export.producers(MD)
    inv, probs = lex_export.audit(core.REPO, P.keys())
    ctx.extra['export_producers'] = {'slots': len(P), 'methods_scanned': inv}
    if probs:
        ctx.proof_broken.append(('export-audit', '; '.join(probs)[:1200]))
    ctx.trust('lex_export: hand-built metadata objects per slot; differential token-stream oracle (placeholder vs hostile text); '
              'AST audit that every printing producer method of cassandra/metadata.py is driven by a slot')
    pool = export_pool(ctx, others)
    cases = []
    for name, (kind, fn) in P.items():
        try:
            base_stmt = fn(lex_export.PH)
            base = lex_export.tokenize(base_stmt, reserved)
        except Exception as e:
            ctx.proof_broken.append(('export-harness:' + name, repr(e)[:300]))
            continue
        nbad = 0
        for text in pool:
            if text == '' and name in lex_export.EMPTY_MEANS_ABSENT:
                continue
            try:
                r = lex_export.judge_slot(kind, fn, text, reserved, base)
            except Exception as e:
                r = ('raises', repr(e)[:200], '')
            ctx.count('export_slot_kind', kind)
            ctx.case(['export', name, [ord(c) for c in text]], nontrivial=nontrivial(text))
            if r is not None and nbad < 3:
                nbad += 1
                ctx.violation('export.%s.%s' % (name, r[0]), '%s with %r in the slot: %s; statement %r' % (name, text, r[1], r[2][:300]),
                              case={'fn': 'export', 'slot': name, 'arg': [ord(c) for c in text]}, expected='the slot reads back as %r' % text,
                              actual=r[2][:1000], theorem='Props/C27.v')
        # Coq tokenizer vs twin on some produced statements
        for text in ctx.rng.sample(pool, 4):
            try:
                stmt = fn(text)
            except Exception:
                continue
            if len(stmt) < 700:
                cases.append('chkt %s %s' % (LO.zstr(stmt), lex_export.toks_lit(lex_export.tokenize(stmt, reserved))))
    # the modelled producers against the implementation
    names_pool = [p for p in pool if len(p) < 30]
    for _ in range(60 if ctx.tier == 'quick' else 600):
        label = ctx.rng.choice(names_pool)
        pks = [ctx.rng.choice(names_pool) for _ in range(ctx.rng.choice([0, 1, 1, 2, 3]))]
        ccs = [ctx.rng.choice(names_pool) for _ in range(ctx.rng.choice([0, 0, 1, 2]))]
        kw = ctx.rng.choice(['FROM', 'TO'])
        out = MD.TableMetadataDSE68._export_edge_as_cql(label, pks, ccs, kw)
        cases.append('chke %s %s %s %s %s' % (LO.zstr(kw), LO.zstr(label), '[' + '; '.join(map(LO.zstr, pks)) + ']',
                                              '[' + '; '.join(map(LO.zstr, ccs)) + ']', LO.zstr(out)))
        kvs = [(ctx.rng.choice(names_pool), ctx.rng.choice(names_pool)) for _ in range(ctx.rng.choice([0, 1, 2, 3]))]
        d = dict((k, v) for k, v in kvs if k not in ('target', 'class_name'))
        if d:       # as IndexMetadata.as_cql_query renders the extra options of a CUSTOM index
            idx = MD.IndexMetadata('ks1', 't1', 'i1', 'CUSTOM', dict([('target', 'v1'), ('class_name', 'org.C')] + list(d.items())))
            out = idx.as_cql_query().split(' WITH OPTIONS = ', 1)[-1]
        else:
            out = MD._encoder.cql_encode_all_types(d, as_text_type=True)
        cases.append('chkm [%s] %s' % ('; '.join('(%s, %s)' % (LO.zstr(k), LO.zstr(v)) for k, v in d.items()), LO.zstr(out)))
        cases.append('chkn [%s] %s' % ('; '.join(map(LO.zstr, pks)), LO.zstr(', '.join(MD.protect_names(pks)))))
    return cases


def load_corpus():
    d = os.path.join(core.VERIF, 'corpus', 'C27')
    out = []
    if os.path.isdir(d):
        for fn in sorted(os.listdir(d)):
            if fn.endswith('.json'):
                with open(os.path.join(d, fn)) as f:
                    out.append(''.join(chr(c) for c in json.load(f)['case']['arg']))
    return out


def run(ctx):
    gen(ctx)
    ok = ctx.prove('Props/C27.v')
    if ctx.tier == 'thorough' and ok:
        ctx.coqchk('Props/C27.v')
    if not ok:   # the model (no proofs inside) must still run for the correspondence
        with core.BuildLock():
            core.sh(['timeout', '300', 'make', '-C', core.COQ, 'Model/CqlLex.vo'], timeout=330)
    from cassandra import metadata as MD
    driver_reserved = set(MD.cql_keywords_reserved)
    reserved = LO.lexer_reserved(driver_reserved)      # the lexer also reserves the core words whatever the driver table says
    unreserved = set(MD.cql_keywords_unreserved)
    ctx.trust('transcription of Cassandra Lexer.g token rules IDENT/QUOTED_NAME/STRING_LITERAL/INTEGER (coq/Model/CqlLex.v part 1; '
              'lib/vf/lex_oracle.py is its Python twin, compared with it on every case)',
              'lex_gen: reader of valid_cql3_word_re / is_valid_name / the USE statement construction (fails closed)',
              'StubConn: Connection.set_keyspace_blocking/async executed unmodified on a recording stub')
    ctx.assume('reserved words = the driver\'s cql_keywords_reserved (DESIGN 4.0); the empty quoted name "" is accepted by the lexer',
               'str.lower(): exact on ASCII in the model')
    # evidence only: bare words the driver leaves unquoted although my transcription of Cassandra 4.x ReservedKeywords lists them
    mine = {'add', 'allow', 'alter', 'and', 'apply', 'asc', 'authorize', 'batch', 'begin', 'by', 'columnfamily', 'create', 'delete',
            'desc', 'describe', 'drop', 'entries', 'execute', 'from', 'full', 'grant', 'if', 'in', 'index', 'infinity', 'insert', 'into',
            'is', 'keyspace', 'limit', 'materialized', 'modify', 'nan', 'norecursive', 'not', 'null', 'of', 'on', 'or', 'order',
            'primary', 'rename', 'replace', 'revoke', 'schema', 'select', 'set', 'table', 'to', 'token', 'truncate', 'unlogged',
            'update', 'use', 'using', 'view', 'where', 'with', 'default', 'unset', 'mbean', 'mbeans'}
    ctx.extra['reserved_list_vs_my_transcription'] = {'in_mine_not_in_driver': sorted(mine - driver_reserved), 'core_words_missing_from_driver_table': sorted(LO.CORE_RESERVED - driver_reserved),
                                                      'driver_reserved_count': len(driver_reserved), 'note': 'evidence only (DESIGN 2.5)'}
    ex, others, maxlen = names(ctx, reserved, unreserved)
    ctx.exhaustive = True
    ctx.rule = ('every string of length <= %d over the alphabet a A 0 _ " \' \\n space e-acute U+1D11E (exhaustive), every string of length <= 2 (quick) / 3 (thorough) over a k 0 _ and non-ASCII digits / KELVIN SIGN / dotless i / long s / '
                'I-with-dot / combining acute (exhaustive), every driver and core-reserved keyword in '
                '5-9 spellings, targeted names, %d random longer names over a wider alphabet (controls, KELVIN SIGN, lone surrogate, '
                'U+10FFFF); corpus first.  non-trivial = distinct name that is empty or has a character outside [a-z0-9_] or a '
                'non-letter first character' % (maxlen, len(others)))
    conn = StubConn()
    cases, meta = [], []
    seen = set()
    for n in load_corpus() + ex + others:
        if n in seen:
            continue
        seen.add(n)
        try:
            out = impl_outputs(n, conn)
        except Exception as e:
            ctx.violation('raises.%s' % type(e).__name__, 'escaping %r raised %r' % (n, e), case={'fn': 'all', 'arg': [ord(c) for c in n]},
                          expected='strings', actual=repr(e))
            continue
        ctx.count('length', str(min(len(n), 10)) if len(n) < 10 else '10+')
        ctx.count('left_unquoted', str(out['maybe_escape_name'] == n))
        ctx.case([ord(c) for c in n], nontrivial=nontrivial(n),
                 sample={'name': n, 'maybe_escape_name': out['maybe_escape_name'], 'cql_quote': out['cql_quote'], 'use': out.get('use_blocking')})
        for key, what, fn, actual in judge(n, out, reserved):
            ctx.violation(key, what, case={'fn': fn, 'arg': [ord(c) for c in n]}, expected='reads back as %r' % n, actual=actual,
                          theorem='Props/C27.v')
        if out['protect_name'] != out['maybe_escape_name'] or out['protect_names'] != [out['protect_name']] * 2:
            ctx.disagreement('protect_name-vs-maybe_escape_name', 'protect_name(s)(%r) is not maybe_escape_name: %r' % (n, out),
                             case={'arg': [ord(c) for c in n]}, actual=out)
        cases.append(coq_case(n, out, reserved))
        meta.append((n, out))
    # ---- schema export: every as_cql_query / export_as_string producer of cassandra/metadata.py, slot by slot
    export_cases = export_sweep(ctx, MD, reserved, others)
    cases += export_cases
    meta += [('export', {})] * len(export_cases)
    # protect_value on non-strings
    from cassandra.metadata import protect_value
    for v in [None, True, False, 0, -1, 7, 10, -10, 2**63, -2**63 - 1, 10**30, 99, 100, 101, -999]:
        got = protect_value(v)
        ctx.case(['protect_value', repr(v)], nontrivial=True)
        if v is None:
            okv = LO.lex_word(got) == ('null', '')
            cases.append('str_eqb (protect_value PVNone) %s' % LO.zstr(got))
        elif isinstance(v, bool):
            okv = LO.lex_word(got) == (str(v).lower(), '')
            cases.append('str_eqb (protect_value (PVBool %s)) %s' % (str(v).lower(), LO.zstr(got)))
        else:
            okv = LO.lex_integer(got) == (v, '')
            cases.append('str_eqb (protect_value (PVInt %s)) %s && opt_int_eqb (lex_integer %s) (Some (%s, []))' % (LO.zl(v), LO.zstr(got), LO.zstr(got), LO.zl(v)))
        meta.append((repr(v), {'protect_value': got}))
        if not okv:
            ctx.violation('protect_value.scalar', 'protect_value(%r) = %r' % (v, got), case={'fn': 'protect_value_scalar', 'arg': repr(v)},
                          expected='literal of the value', actual=got)
    if any(x[0].startswith('translate:') for x in ctx.proof_broken):
        return
    import time
    ctx.extra['python_phase_s'] = round(time.time() - ctx.t0, 1)
    try:
        bad = ctx.coq_filter(['CqlKeywords', 'CqlLex'], '(fun b : bool => b)', cases, prelude=CHK_PRELUDE + EXPORT_PRELUDE)
    except RuntimeError as e:
        ctx.proof_broken.append(('correspondence:CqlLex', str(e)[-800:]))
        return
    for i in bad[:10]:
        n, out = meta[i]
        if n == 'export':
            ctx.disagreement('model-vs-impl.export', 'Coq tokenizer / export model differs from the implementation or the Python twin: %s' % cases[i][:400],
                             case=None, actual=None, model=cases[i][:2000])
            continue
        ctx.disagreement('model-vs-impl', 'Model/CqlLex.v (driver mirror or lexer) differs from the implementation / Python lexer at %r: impl %r'
                         % (n, out), case={'arg': [ord(c) for c in n]}, actual=out, model=cases[i][:2000])


def replay(ctx, rp):
    from cassandra import metadata as MD
    case = rp.get('case')
    if case and case.get('fn') == 'export':
        text = ''.join(chr(c) for c in case['arg'])
        kind, fn = lex_export.producers(MD)[case['slot']]
        r = lex_export.judge_slot(kind, fn, text, LO.lexer_reserved(MD.cql_keywords_reserved))
        print('replay: %s with %r in the slot -> %r : %s' % (case['slot'], text, fn(text)[:400], 'reads back' if r is None else '%s (%s)' % r[:2]))
        print(('VIOLATION property=C27 replay=%s' % ctx.replay_path) if r else 'not reproduced')
        return 1 if r else 0
    if not case or not isinstance(case.get('arg'), list):
        print('nothing to replay (kind=%s): %s' % (rp.get('kind'), rp.get('theorem')))
        return 1
    n = ''.join(chr(c) for c in case['arg'])
    out = impl_outputs(n, StubConn())
    bad = judge(n, out, LO.lexer_reserved(MD.cql_keywords_reserved))
    for key, what, fn, actual in bad:
        print('replay: %s: %s' % (key, what))
    hit = [b for b in bad if b[0] == rp.get('key')] or bad
    print(('VIOLATION property=C27 replay=%s' % ctx.replay_path) if hit else 'not reproduced: %r reads back unchanged' % n)
    return 1 if hit else 0
