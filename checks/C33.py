"""C33 -- SortedSet and OrderedMap behave as their mathematical models.

Proof: coq/Props/C33.v (binary search, representation invariant, refinement of sets / of an insertion-ordered
association list, for every operation sequence).  Tie (C): random operation sequences on the real
cassandra.util.SortedSet / OrderedMap / OrderedMapSerializedKey; after EVERY operation the result and the whole
state are compared with the Coq model (vm_compute) and with Python set / dict semantics (the property's oracle).
"""
import copy, glob, json, os
from vf import core

META = {
    'technique': 'Coq proof (refinement + invariant by induction over operation sequences) of hand models of SortedSet / '
                 'OrderedMap, tied to cassandra/util.py by step-by-step differential execution against the model and Python set/dict',
    'level_text': 'C33_sortedset_partial / _invariant / _canonical / C33_iteration_ascending / C33_find_insertion_* proved for every '
                  'element type with a strict total order and every operation sequence; C33_orderedmap_refines for every key '
                  'serializer and every operation sequence; C33_full_statement (any Python type with `<`) refuted: nested sets.',
    'level_note': 'Tie is correspondence only (no translation): trusted harness. Abstract: the key serializer (pickle.dumps / CQL '
                  'type serialize) is an uninterpreted function; the TypeError fallback scan of _find_insertion is not modelled.',
    'design_ref': 'DESIGN.md section 4, C33',
}

# ------------------------------------------------------------------------------------------------ helpers


def zl(v):
    return '(%d)' % v if v < 0 else '%d' % v


def glist(xs):
    return '[' + '; '.join(xs) + ']'


def gbytes(b):
    return glist(str(x) for x in b)


# ------------------------------------------------------------------------------------------------ set domains
class Dom(object):
    def __init__(self, name, kind, pool, make, gal, canon, chk, hashable):
        self.name, self.kind, self.pool, self.make, self.gal, self.canon, self.chk, self.hashable = \
            name, kind, pool, make, gal, canon, chk, hashable

    def enc(self, x):   # element returned by the implementation -> numbers (same encoding as Model/CollRun.v)
        if self.chk == 'chk_z':
            return [x]
        if self.chk == 'chk_lz':
            return [len(x)] + list(x)
        return [_mask(x)]

    def lt(self, a, b):     # the order on canonical elements
        return a < b


def _mask(x):
    return sum(1 << i for i in x)


def domains():
    from cassandra.util import sortedset
    ints = list(range(-3, 8))
    tups = [(), (0,), (1,), (2,), (0, 0), (0, 1), (0, 2), (1, 0), (1, 1), (2, 0), (0, 1, 2), (1, 0, 0), (-1, 5)]
    subs = [(), (0,), (1,), (2,), (0, 1), (0, 2), (1, 2), (0, 1, 2)]
    return {
        'int': Dom('int', 'total', ints, lambda x: x, zl, lambda x: x, 'chk_z', True),
        'tuple': Dom('tuple', 'total', tups, lambda x: tuple(x), lambda x: glist(zl(i) for i in x), lambda x: tuple(x), 'chk_lz', True),
        'list': Dom('list', 'total', tups, lambda x: list(x), lambda x: glist(zl(i) for i in x), lambda x: tuple(x), 'chk_lz', False),
        'frozenset': Dom('frozenset', 'partial_order', subs, lambda x: frozenset(x), lambda x: str(_mask(x)), lambda x: frozenset(x),
                         'chk_bm', True),
        'sortedset': Dom('sortedset', 'partial_order', subs, lambda x: sortedset(x), lambda x: str(_mask(x)), lambda x: frozenset(x),
                         'chk_bm', False),
    }


SET_OPS = [('add', 14), ('remove', 8), ('pop', 4), ('contains', 10), ('update', 3), ('clear', 1),
           ('union', 5), ('intersection', 5), ('difference', 5), ('symdiff', 4),
           ('ior', 2), ('iand', 2), ('isub', 2), ('ixor', 2),
           ('issubset', 4), ('issuperset', 4), ('isdisjoint', 3), ('eq', 4), ('ne', 4), ('lt', 3), ('gt', 3),
           ('copy', 3),
           ('getitem', 4), ('delitem', 3), ('len', 2), ('iter', 2)]


def gen_operand(rng, dom, state_hint):
    n = len(dom.pool)
    if rng.random() < 0.35 and state_hint:
        # related to the current contents, so that subset/equality tests are not almost always false
        base = list(state_hint)
        rng.shuffle(base)
        base = base[:rng.randint(0, len(base))]
        if rng.random() < 0.5:
            base.append(rng.randrange(n))
        idx = list(dict.fromkeys(base))
    else:
        idx = [rng.randrange(n) for _ in range(rng.randint(0, 5))]
    if rng.random() < 0.5:
        return ['S', idx + ([rng.choice(idx)] if idx and rng.random() < 0.3 else [])]
    idx = list(dict.fromkeys(idx))
    form = rng.choice(['set', 'frozenset', 'list']) if dom.hashable else 'list'
    return ['P', form, idx]


def gen_set_case(rng, dname, dom, maxops):
    n = len(dom.pool)
    desc = [['update', [rng.randrange(n) for _ in range(rng.randint(0, 5))]]]
    names = [o for o, _ in SET_OPS]
    weights = [w for _, w in SET_OPS]
    # cheap tracking of plausible contents (indices) just to steer generation
    hint = set(desc[0][1])
    has_copy = False
    for _ in range(rng.randint(1, maxops)):
        o = rng.choices(names, weights)[0]
        if o in ('add', 'remove', 'contains'):
            i = rng.choice(sorted(hint)) if hint and rng.random() < 0.5 else rng.randrange(n)
            desc.append([o, i])
            if o == 'add':
                hint.add(i)
            if o == 'remove':
                hint.discard(i)
        elif o == 'update':
            l = [rng.randrange(n) for _ in range(rng.randint(0, 4))]
            hint.update(l)
            desc.append([o, l])
        elif o in ('union', 'intersection', 'difference'):
            k = rng.choice([0, 1, 1, 1, 2, 3])
            form = rng.choice(['method', 'operator', 'roperator']) if k == 1 else 'method'
            desc.append([o, form, [gen_operand(rng, dom, hint) for _ in range(k)]])
        elif o in ('symdiff', 'ixor'):
            desc.append([o, rng.choice(['method', 'operator']), [rng.randrange(n) for _ in range(rng.randint(0, 5))]])
        elif o in ('ior', 'iand', 'isub', 'isdisjoint', 'eq', 'ne', 'lt', 'gt'):
            desc.append([o, gen_operand(rng, dom, hint)])
        elif o in ('issubset', 'issuperset'):
            desc.append([o, rng.choice(['method', 'operator']), gen_operand(rng, dom, hint)])
        elif o in ('getitem', 'delitem'):
            desc.append([o, rng.randint(-7, 7)])
        elif o == 'copy':
            desc.append([o, rng.choice(['copy', 'copy', 'intersection0', 'difference0', 'union0'])])
            has_copy = True
        else:
            desc.append([o])
        if o in ('clear',):
            hint = set()
        # once a copy exists, a third of the operations go to the copy (the original must not notice, and vice versa)
        if has_copy and o != 'copy' and rng.random() < 0.35:
            desc[-1] = ['oncopy', desc[-1]]
    return {'kind': 'set', 'domain': dname, 'ops': desc}


class Viol(object):
    def __init__(self, key, what, step):
        self.key, self.what, self.step = key, what, step


def exec_set_case(case):
    """Runs the real SortedSet; returns (gallina ops, gallina expected trace, violations, trace for samples)."""
    from cassandra.util import sortedset
    dom = domains()[case['domain']]
    pool = dom.pool
    E = lambda i: dom.make(pool[i])
    C = lambda i: dom.canon(pool[i])
    total = dom.kind == 'total'
    regs = {'s': [sortedset(), set()], 'c': [sortedset(), set()]}     # the set and its copy: [implementation, reference set]
    gops, nums, viols, plain = [], [], [], []

    def enc_items(xs):
        out = [len(xs)]
        for x in xs:
            out.extend(dom.enc(x))
        return out

    def enc_out(o):
        t = o[0]
        if t == 'RNone':
            return [0]
        if t == 'RBool':
            return [1, 1 if o[1] else 0]
        if t == 'RElem':
            return [2] + dom.enc(o[1])
        if t == 'RItems':
            return [3] + enc_items(o[1])
        if t == 'RLen':
            return [4, o[1]]
        return [5] if t == 'RKeyError' else [6]

    def G(x):          # python element (as returned by the implementation) -> gallina
        return dom.gal(sorted(x) if dom.chk == 'chk_bm' else x)

    def gitems(xs):
        return glist(G(x) for x in xs)

    def bad(step, op, what, detail):
        viols.append(Viol('SortedSet.%s.%s.%s' % (dom.kind, op, what),
                          'SortedSet of %s elements, step %d (%s): %s' % (dom.name, step, op, detail), step))

    def mk_operand(od):
        if od[0] == 'S':
            elems = [E(i) for i in od[1]]
            obj = sortedset(elems)
            return obj, 'SSet %s' % glist(dom.gal(pool[i]) for i in od[1]), set(C(i) for i in od[1])
        form, idx = od[1], od[2]
        elems = [E(i) for i in idx]
        obj = {'set': set, 'frozenset': frozenset, 'list': list}[form](elems)
        order = list(obj)
        return obj, 'PSet %s' % gitems(order), set(C(i) for i in idx)

    def check_result_set(step, op, res, want):
        if not isinstance(res, sortedset):
            bad(step, op, 'result_type', 'result is %r, not a sortedset' % type(res))
            return
        check_items(step, op, list(res), want, 'result')

    def check_items(step, op, items, want, which):
        c = [dom.canon(x) for x in items]
        if set(c) != want:
            bad(step, op, which + '_members', 'members %r, a set would have %r' % (sorted(map(repr, set(c))), sorted(map(repr, want))))
        elif len(c) != len(want):
            bad(step, op, which + '_duplicates', 'iteration yields duplicates: %r' % (c,))
        elif total and any(not (c[i] < c[i + 1]) for i in range(len(c) - 1)):
            bad(step, op, which + '_order', 'iteration not ascending: %r' % (c,))
        elif not total and any(c[j] < c[i] for i in range(len(c)) for j in range(i + 1, len(c))):
            bad(step, op, which + '_order', 'iteration not ascending: %r' % (c,))

    for step, od in enumerate(case['ops']):
        reg = 's'
        if od[0] == 'oncopy':
            reg, od = 'c', od[1]
        s, ref = regs[reg]
        o = od[0]
        out = None
        try:
            if o == 'add':
                r = s.add(E(od[1]))
                ref.add(C(od[1]))
                gop, out = 'OAdd %s' % dom.gal(pool[od[1]]), ('RNone',)
                if r is not None:
                    bad(step, o, 'returns', 'returned %r' % (r,))
            elif o == 'remove':
                gop = 'ORemove %s' % dom.gal(pool[od[1]])
                present = C(od[1]) in ref
                try:
                    s.remove(E(od[1]))
                    out = ('RNone',)
                    if not present:
                        bad(step, o, 'no_keyerror', 'removing an absent element did not raise')
                except KeyError:
                    out = ('RKeyError',)
                    if present:
                        bad(step, o, 'keyerror_present', 'KeyError for an element a set would contain: %r' % (pool[od[1]],))
                ref.discard(C(od[1]))
            elif o == 'pop':
                gop = 'OPop'
                try:
                    r = s.pop()
                    out = ('RElem', r)
                    c = dom.canon(r)
                    if c not in ref:
                        bad(step, o, 'not_member', 'popped %r which a set would not contain' % (r,))
                    elif any(c < y for y in ref):
                        bad(step, o, 'not_greatest', 'popped %r but a greater element exists' % (r,))
                    ref.discard(c)
                except KeyError:
                    out = ('RKeyError',)
                    if ref:
                        bad(step, o, 'keyerror_nonempty', 'KeyError although a set would hold %d elements' % len(ref))
            elif o == 'contains':
                gop = 'OContains %s' % dom.gal(pool[od[1]])
                r = E(od[1]) in s
                out = ('RBool', bool(r))
                if bool(r) != (C(od[1]) in ref):
                    bad(step, o, 'wrong', '%r in s is %r, a set says %r' % (pool[od[1]], r, C(od[1]) in ref))
            elif o == 'update':
                gop, out = 'OUpdate %s' % glist(dom.gal(pool[i]) for i in od[1]), ('RNone',)
                s.update([E(i) for i in od[1]])
                ref.update(C(i) for i in od[1])
            elif o == 'clear':
                gop, out = 'OClear', ('RNone',)
                s.clear()
                ref.clear()
            elif o in ('union', 'intersection', 'difference'):
                form, ods = od[1], od[2]
                trip = [mk_operand(x) for x in ods]
                objs = [t[0] for t in trip]
                gop = {'union': 'OUnion', 'intersection': 'OIntersection', 'difference': 'ODifference'}[o] + ' ' + glist(t[1] for t in trip)
                plain_set = bool(objs) and isinstance(objs[0], (set, frozenset))
                if form == 'method' or (form == 'roperator' and not (plain_set and o != 'difference')):
                    r = getattr(s, o)(*objs)
                elif form == 'operator':
                    r = {'union': lambda a, b: a | b, 'intersection': lambda a, b: a & b, 'difference': lambda a, b: a - b}[o](s, objs[0])
                else:   # reflected operator, a plain set on the left: set | s -> SortedSet.__ror__
                    r = {'union': lambda a, b: b | a, 'intersection': lambda a, b: b & a}[o](s, objs[0])
                want = set(ref)
                for t in trip:
                    want = {'union': want | t[2], 'intersection': want & t[2], 'difference': want - t[2]}[o]
                out = ('RItems', list(r))
                check_result_set(step, o, r, want)
            elif o == 'symdiff':
                form, idx = od[1], od[2]
                other = sortedset([E(i) for i in idx])
                gop = 'OSymDiff %s' % glist(dom.gal(pool[i]) for i in idx)
                r = s.symmetric_difference(other) if form == 'method' else (s ^ other)
                out = ('RItems', list(r))
                check_result_set(step, o, r, ref ^ set(C(i) for i in idx))
            elif o in ('ior', 'iand', 'isub'):
                obj, g, oset = mk_operand(od[1])
                gop, out = {'ior': 'OIOr', 'iand': 'OIAnd', 'isub': 'OISub'}[o] + ' (%s)' % g, ('RNone',)
                before = s
                if o == 'ior':
                    s |= obj
                    ref |= oset
                elif o == 'iand':
                    s &= obj
                    ref &= oset
                else:
                    s -= obj
                    ref -= oset
                if s is not before:
                    bad(step, o, 'not_inplace', 'in-place operator returned a different object')
            elif o == 'ixor':
                form, idx = od[1], od[2]
                other = sortedset([E(i) for i in idx])
                gop, out = 'OIXor %s' % glist(dom.gal(pool[i]) for i in idx), ('RNone',)
                s ^= other
                ref ^= set(C(i) for i in idx)
            elif o in ('issubset', 'issuperset'):
                form = od[1]
                obj, g, oset = mk_operand(od[2])
                gop = ('OIsSubset (%s)' if o == 'issubset' else 'OIsSuperset (%s)') % g
                if form == 'method':
                    r = getattr(s, o)(obj)
                else:
                    r = (s <= obj) if o == 'issubset' else (s >= obj)
                out = ('RBool', bool(r))
                want = (ref <= oset) if o == 'issubset' else (ref >= oset)
                if bool(r) != want:
                    bad(step, o, 'wrong', 'returned %r, sets say %r' % (r, want))
            elif o in ('isdisjoint', 'eq', 'ne', 'lt', 'gt'):
                obj, g, oset = mk_operand(od[1])
                gop = {'isdisjoint': 'OIsDisjoint', 'eq': 'OEq', 'ne': 'ONe', 'lt': 'OLt', 'gt': 'OGt'}[o] + ' (%s)' % g
                r = {'isdisjoint': lambda: s.isdisjoint(obj), 'eq': lambda: s == obj, 'ne': lambda: s != obj, 'lt': lambda: s < obj, 'gt': lambda: s > obj}[o]()
                out = ('RBool', bool(r))
                want = {'isdisjoint': ref.isdisjoint(oset), 'eq': ref == oset, 'ne': ref != oset, 'lt': ref < oset, 'gt': ref > oset}[o]
                if r is NotImplemented or bool(r) != want:
                    bad(step, o, 'wrong', 'returned %r, sets say %r' % (r, want))
            elif o == 'getitem':
                gop = 'OGetItem %s' % zl(od[1])
                n = len(ref)
                inrange = -n <= od[1] < n
                try:
                    r = s[od[1]]
                    out = ('RElem', r)
                    if not inrange:
                        bad(step, o, 'no_indexerror', 'index %d of %d elements did not raise' % (od[1], n))
                    elif total and dom.canon(r) != sorted(ref)[od[1]]:
                        bad(step, o, 'wrong', 's[%d] is %r, ascending order gives %r' % (od[1], r, sorted(ref)[od[1]]))
                except IndexError:
                    out = ('RIndexError',)
                    if inrange:
                        bad(step, o, 'indexerror', 'IndexError for index %d of %d elements' % (od[1], n))
            elif o == 'delitem':
                gop = 'ODelItem %s' % zl(od[1])
                n = len(ref)
                inrange = -n <= od[1] < n
                try:
                    victim = s[od[1]] if -len(s) <= od[1] < len(s) else None
                    del s[od[1]]
                    out = ('RNone',)
                    if total and inrange:
                        ref.discard(sorted(ref)[od[1]])
                    elif victim is not None:
                        ref.discard(dom.canon(victim))
                    if not inrange:
                        bad(step, o, 'no_indexerror', 'del s[%d] with %d elements did not raise' % (od[1], n))
                except IndexError:
                    out = ('RIndexError',)
                    if inrange:
                        bad(step, o, 'indexerror', 'IndexError for index %d of %d elements' % (od[1], n))
            elif o == 'copy':
                how = od[1]
                gop = 'OCopy %s' % {'copy': 'ByCopy', 'intersection0': 'ByIntersection0', 'difference0': 'ByDifference0', 'union0': 'ByUnion0'}[how]
                r = {'copy': s.copy, 'intersection0': s.intersection, 'difference0': s.difference, 'union0': s.union}[how]()
                out = ('RItems', list(r))
                check_result_set(step, o, r, set(ref))
                if r is s:
                    bad(step, o, 'same_object', '%s() returned the set itself' % how)
                regs['c'] = [r, set(ref)]
            elif o == 'len':
                gop = 'OLen'
                r = len(s)
                out = ('RLen', r)
                if r != len(ref):
                    bad(step, o, 'wrong', 'len is %d, a set has %d' % (r, len(ref)))
            elif o == 'iter':
                gop = 'OIter'
                out = ('RItems', list(s))
                if list(reversed(s)) != list(s)[::-1]:
                    bad(step, o, 'reversed', 'reversed() is not the reverse of iteration')
            else:
                raise ValueError('unknown op %r' % (od,))
        except Exception as e:   # nothing in the vocabulary may raise anything but the modelled KeyError/IndexError
            if isinstance(e, ValueError) and 'unknown op' in str(e):
                raise
            bad(step, o, 'raises.' + type(e).__name__, 'unexpected %r' % (e,))
            break
        if o != 'copy':
            regs[reg][0] = s
            gop = ('OMain (%s)' if reg == 's' else 'OOnCopy (%s)') % gop
        items, citems = list(regs['s'][0]), list(regs['c'][0])
        check_items(step, o, items, regs['s'][1], 'state' if reg == 's' or o == 'copy' else 'original_changed_by_copy')
        check_items(step, o, citems, regs['c'][1], 'state' if reg == 'c' or o == 'copy' else 'copy_changed_by_original')
        gops.append(gop)
        nums.extend(enc_items(items) + enc_items(citems) + enc_out(out))
        plain.append([o, out[0] + ''.join(' %r' % (x,) for x in out[1:]), [repr(x) for x in items]])
    return gops, nums, viols, plain


# ------------------------------------------------------------------------------------------------ maps
class _Mod3Type(object):
    @staticmethod
    def serialize(key, protocol_version):
        return bytes([key % 3])


def map_configs():
    from cassandra.util import OrderedMap, OrderedMapSerializedKey
    from cassandra import cqltypes as T
    tups = [(), (0,), (1,), (0, 1), (1, 0), (0, 0, 2)]
    dicts = [[], [(0, 0)], [(0, 1)], [(1, 0)], [(0, 0), (1, 1)], [(2, 5)]]
    lt = T.ListType.apply_parameters([T.Int32Type])
    mt = T.MapType.apply_parameters([T.Int32Type, T.Int32Type])
    st = T.SetType.apply_parameters([T.Int32Type])
    from cassandra.util import sortedset
    return {
        'pickle.int': (lambda: OrderedMap(), list(range(6)), lambda x: x),
        'pickle.tuple': (lambda: OrderedMap(), tups, lambda x: tuple(x)),
        'pickle.list': (lambda: OrderedMap(), tups, lambda x: list(x)),
        'pickle.dict': (lambda: OrderedMap(), dicts, lambda x: dict(x)),
        'cql.int': (lambda: OrderedMapSerializedKey(T.Int32Type, 4), list(range(6)), lambda x: x),
        'cql.tinyint': (lambda: OrderedMapSerializedKey(T.ByteType, 4), list(range(5)), lambda x: x),
        # a serializer that identifies different keys (k and k+3): 'keys are identified by their encoding'
        'cql.mod3': (lambda: OrderedMapSerializedKey(_Mod3Type, 4), list(range(6)), lambda x: x),
        'cql.text': (lambda: OrderedMapSerializedKey(T.UTF8Type, 4), ['', 'a', 'b', 'ab', u'\xe9', 'A'], lambda x: x),
        'cql.list': (lambda: OrderedMapSerializedKey(lt, 4), tups, lambda x: list(x)),
        'cql.map': (lambda: OrderedMapSerializedKey(mt, 4), dicts, lambda x: dict(x)),
        'cql.set': (lambda: OrderedMapSerializedKey(st, 4), [(), (0,), (1,), (0, 1), (2,), (0, 1, 2)], lambda x: sortedset(x)),
    }


MAP_OPS = [('insert', 14), ('insert_unchecked', 4), ('get', 10), ('del', 6), ('popitem', 3), ('len', 2), ('keys', 3),
           ('items', 2), ('eq', 3)]


def gen_map_case(rng, cname, npool, maxops):
    desc = []
    names = [o for o, _ in MAP_OPS]
    weights = [w for _, w in MAP_OPS]
    for _ in range(rng.randint(0, 3)):
        desc.append(['insert', 'ctor', rng.randrange(npool), rng.randint(0, 99)])
    for _ in range(rng.randint(1, maxops)):
        o = rng.choices(names, weights)[0]
        if o == 'insert_unchecked' and not cname.startswith('cql.'):
            o = 'insert'
        if o == 'insert':
            desc.append([o, rng.choice(['setitem', '_insert']), rng.randrange(npool), rng.randint(0, 99)])
        elif o == 'insert_unchecked':
            desc.append([o, rng.randrange(npool), rng.randint(0, 99)])
        elif o in ('get', 'del'):
            desc.append([o, rng.randrange(npool)])
        elif o == 'eq':
            desc.append([o, [[rng.randrange(npool), rng.randint(0, 3)] for _ in range(rng.randint(0, 3))], rng.random() < 0.5])
        else:
            desc.append([o])
    return {'kind': 'map', 'config': cname, 'ops': desc}


def exec_map_case(case):
    cname = case['config']
    new, pool, make = map_configs()[cname]
    probe = new()
    fks = [bytes(probe._serialize_key(make(p))) for p in pool]

    def kid(k):
        for j, p in enumerate(pool):
            if make(p) == k and type(make(p)) is type(k):
                return j
        raise KeyError('key object %r not from the pool' % (k,))

    # the model only compares serialized keys for equality: each distinct byte string gets a small code
    fkc = [fks.index(fk) for fk in fks]

    def gk(j):
        return '(%d, [%d])' % (j, fkc[j])

    def gkv(k, v):
        return '(%s, %d)' % (gk(kid(k)), v)

    m = new()
    ref = {}          # serialized key -> value, in insertion order: the property's oracle
    gops, nums, viols, plain = [], [], [], []

    def enc_k(k):
        j = kid(k)
        return [j, 1, fkc[j]]

    def enc_kvs(kvs):
        out = [len(kvs)]
        for k, v in kvs:
            out.extend(enc_k(k) + [v])
        return out

    def enc_out(o):
        t = o[0]
        if t == 'XNone':
            return [0]
        if t == 'XVal':
            return [1, o[1]]
        if t == 'XItem':
            return [2] + enc_k(o[1][0]) + [o[1][1]]
        if t == 'XLen':
            return [3, o[1]]
        if t == 'XKeys':
            r = [4, len(o[1])]
            for k in o[1]:
                r.extend(enc_k(k))
            return r
        if t == 'XItems':
            return [5] + enc_kvs(o[1])
        if t == 'XBool':
            return [6, 1 if o[1] else 0]
        return [7] if t == 'XKeyError' else [8]

    def bad(step, op, what, detail):
        viols.append(Viol('OrderedMap.%s.%s.%s' % (cname, op, what), 'OrderedMap[%s], step %d (%s): %s' % (cname, step, op, detail), step))

    for step, od in enumerate(case['ops']):
        o = od[0]
        try:
            if o == 'insert':
                form, j, v = od[1], od[2], od[3]
                k = make(pool[j])
                if form == '_insert':
                    m._insert(k, v)
                else:
                    m[k] = v
                ref[fks[j]] = v
                gop, out = 'MInsert %s %d' % (gk(j), v), ('XNone',)
            elif o == 'insert_unchecked':
                j, v = od[1], od[2]
                if fks[j] in ref:      # outside the contract of _insert_unchecked: becomes a checked insert
                    m._insert(make(pool[j]), v)
                    gop = 'MInsert %s %d' % (gk(j), v)
                else:
                    m._insert_unchecked(make(pool[j]), fks[j], v)
                    gop = 'MInsertUnchecked %s [%d] %d' % (gk(j), fkc[j], v)
                ref[fks[j]] = v
                out = ('XNone',)
            elif o == 'get':
                j = od[1]
                k = make(pool[j])
                gop = 'MGet %s' % gk(j)
                try:
                    r = m[k]
                    out = ('XVal', r)
                    if fks[j] not in ref:
                        bad(step, o, 'phantom', 'm[%r] returned %r, a mapping keyed by encoding has no such key' % (k, r))
                    elif ref[fks[j]] != r:
                        bad(step, o, 'wrong_value', 'm[%r] is %r, expected %r' % (k, r, ref[fks[j]]))
                    if m.get(make(pool[j])) != r or (make(pool[j]) not in m):
                        bad(step, o, 'get_in_disagree', 'get()/in disagree with __getitem__ for %r' % (k,))
                except KeyError:
                    out = ('XKeyError',)
                    if fks[j] in ref:
                        bad(step, o, 'keyerror_present', 'KeyError for present key %r' % (k,))
                    if m.get(make(pool[j]), -1) != -1 or (make(pool[j]) in m):
                        bad(step, o, 'get_in_disagree', 'get()/in disagree with __getitem__ for %r' % (k,))
            elif o == 'del':
                j = od[1]
                gop = 'MDel %s' % gk(j)
                try:
                    del m[make(pool[j])]
                    out = ('XNone',)
                    if fks[j] not in ref:
                        bad(step, o, 'no_keyerror', 'deleting an absent key did not raise')
                except KeyError:
                    out = ('XKeyError',)
                    if fks[j] in ref:
                        bad(step, o, 'keyerror_present', 'KeyError deleting present key %r' % (pool[j],))
                ref.pop(fks[j], None)
            elif o == 'popitem':
                gop = 'MPopItem'
                try:
                    k, v = m.popitem()
                    out = ('XItem', (k, v))
                    if not ref:
                        bad(step, o, 'phantom', 'popitem on an empty mapping returned %r' % ((k, v),))
                    else:
                        efk, ev = list(ref.items())[-1]
                        if (fks[kid(k)], v) != (efk, ev):
                            bad(step, o, 'not_last', 'popitem returned %r, the last inserted is %r' % ((k, v), (efk, ev)))
                        ref.pop(fks[kid(k)], None)
                except KeyError:
                    out = ('XKeyError',)
                    if ref:
                        bad(step, o, 'keyerror_nonempty', 'KeyError although %d entries' % len(ref))
            elif o == 'len':
                gop, out = 'MLen', ('XLen', len(m))
                if len(m) != len(ref):
                    bad(step, o, 'wrong', 'len %d, expected %d' % (len(m), len(ref)))
            elif o == 'keys':
                ks = list(m)
                gop, out = 'MKeys', ('XKeys', ks)
                if [fks[kid(k)] for k in ks] != list(ref) or [kid(k) for k in m.keys()] != [kid(k) for k in ks]:
                    bad(step, o, 'order', 'iteration %r, insertion order is %r' % (ks, list(ref)))
            elif o == 'items':
                its = list(m.items())
                gop, out = 'MItems', ('XItems', its)
                if [(fks[kid(k)], v) for k, v in its] != list(ref.items()) or list(m.values()) != list(ref.values()):
                    bad(step, o, 'order', 'items %r, expected %r' % (its, list(ref.items())))
            elif o == 'eq':
                pairs, via_ctor = od[1], od[2]
                other = new()
                for j, v in pairs:
                    other[make(pool[j])] = v
                gop = 'MEq %s' % glist('(%s, %d)' % (gk(j), v) for j, v in pairs)
                r = (m == other)
                out = ('XBool', bool(r))
                oref = {}
                for j, v in pairs:
                    oref[fks[j]] = v
                same_objects = [(kid(k), v) for k, v in m._items] == [(kid(k), v) for k, v in other._items]
                # must be equal when the entries are the same in the same order; must differ when the mappings differ
                if (same_objects and not r) or (ref != oref and r) or r is NotImplemented:
                    bad(step, o, 'wrong', '== returned %r for %r vs %r' % (r, list(ref.items()), list(oref.items())))
            else:
                raise ValueError('unknown op %r' % (od,))
        except Exception as e:
            if isinstance(e, ValueError) and 'unknown op' in str(e):
                raise
            bad(step, o, 'raises.' + type(e).__name__, 'unexpected %r' % (e,))
            break
        st = [(fks[kid(k)], v) for k, v in m._items]
        if st != list(ref.items()):
            bad(step, o, 'state', 'entries %r, an insertion-ordered mapping has %r' % (st, list(ref.items())))
        if m._index != dict((fks[kid(k)], i) for i, (k, _) in enumerate(m._items)) or len(m) != len(m._items):
            bad(step, o, 'index_inconsistent', '_index %r does not match _items %r' % (m._index, m._items))
        gops.append(gop)
        nums.extend(enc_kvs(m._items) + enc_out(out))
        plain.append([o, out[0] + ''.join(' %r' % (x,) for x in out[1:]), len(m._items)])
    return gops, nums, viols, plain


# ------------------------------------------------------------------------------------------------ run
H_MOD = 2 ** 61 - 1


def trace_hash(nums):
    h = 0
    for x in nums:
        h = (h * 1000003 + x + 12345) % H_MOD
    return h


def exec_case(case):
    """-> (Gallina boolean: model trace hash == implementation trace hash, violations, readable trace)"""
    if case['kind'] == 'set':
        gops, nums, viols, plain = exec_set_case(case)
        fn = domains()[case['domain']].chk
    else:
        gops, nums, viols, plain = exec_map_case(case)
        fn = 'map_check'
    return '%s %s %d' % (fn, glist(gops), trace_hash(nums)), viols, plain


def corpus_cases():
    out = []
    for p in sorted(glob.glob(os.path.join(core.VERIF, 'corpus', 'C33', '*.json'))):
        with open(p) as f:
            out.append(json.load(f))
    return out


def run(ctx):
    ok = ctx.prove('Props/C33.v')
    if ctx.tier == 'thorough' and ok:
        ctx.coqchk('Props/C33.v')
    doms = domains()
    cfgs = map_configs()
    nset = 60 if ctx.tier == 'quick' else 1200
    nmap = 30 if ctx.tier == 'quick' else 600
    cases = corpus_cases()
    ncorpus = len(cases)
    for dname in sorted(doms):
        for _ in range(nset):
            cases.append(gen_set_case(ctx.rng, dname, doms[dname], 40 if ctx.rng.random() < 0.7 else 8))
    for cname in sorted(cfgs):
        for _ in range(nmap):
            cases.append(gen_map_case(ctx.rng, cname, len(cfgs[cname][1]), 40 if ctx.rng.random() < 0.7 else 8))
    ctx.rule = ('random operation sequences (1..40 operations after a constructor, every operation of the vocabulary weighted) over '
                '5 element domains for SortedSet (ints, tuples, unhashable lists; frozensets and nested sortedsets = partial order) '
                'and 11 key/serializer configurations for OrderedMap / OrderedMapSerializedKey (pickle: int, tuple, list, dict keys; '
                'CQL: int, tinyint, text, list, map, set keys and a non-injective serializer k -> k mod 3); result AND full state compared after every operation; '
                'non-trivial = distinct sequence with at least 3 operations')
    ctx.exhaustive = False
    terms, meta = [], []
    for ci, case in enumerate(cases):
        term, viols, plain = exec_case(case)
        label = case.get('domain') or case.get('config')
        ctx.count('kind', case['kind'] + ':' + label)
        ctx.count('length', str(len(case['ops']) // 10 * 10) + '+')
        for od in case['ops']:
            ctx.count('op', case['kind'] + '.' + od[0])
        for p in plain:
            if 'Error' in p[1]:
                ctx.count('errors', case['kind'] + '.' + p[1].split()[0])
        ctx.case(case, nontrivial=len(case['ops']) >= 3,
                 sample={'case': case, 'trace_tail': plain[-3:]} if ci in (ncorpus, ncorpus + nset, len(cases) - 1) else None)
        seen = set()
        for v in viols:
            if v.key in seen:
                continue
            seen.add(v.key)
            short = dict(case)
            short['ops'] = case['ops'][:v.step + 1]
            ctx.violation(v.key, v.what, case=short, expected='behaviour of a mathematical set / insertion-ordered mapping',
                          actual=plain[-1:] if plain else None, theorem='C33_sortedset_partial' if case['kind'] == 'set' else 'C33_orderedmap_refines')
        terms.append(term)
        meta.append(case)
    try:
        bad = ctx.coq_filter(['SortedSet', 'OrderedMap', 'CollRun'], '(fun b : bool => b)', terms, shard=60)
    except RuntimeError as e:
        ctx.proof_broken.append(('correspondence:SortedSet/OrderedMap', str(e)[-800:]))
        bad = []
    for i in bad[:10]:
        case = meta[i]
        ctx.disagreement('model-vs-impl.%s.%s' % (case['kind'], case.get('domain') or case.get('config')),
                         'Coq model and cassandra.util differ on %s' % json.dumps(case)[:400], case=case, model=terms[i][:2000])
    ctx.extra['model_disagreements'] = len(bad)
    ctx.trust('harness checks/C33.py: element/key pools, canonicalisation, Python set/dict oracle',
              'Python set / dict semantics as the reference for "mathematical set" / "insertion-ordered mapping"')
    ctx.assume('elements of one SortedSet come from a single type; operands of binary set operations are SortedSets or duplicate-free containers',
               'OrderedMap keys are identified by _serialize_key (abstract function in the model); _insert_unchecked is called with the '
               "key's own serialization for a key not present (its contract)",
               'the TypeError fallback scan of _find_insertion (mixed incomparable types) is outside the statement')


def replay(ctx, rp):
    case = rp.get('case')
    if not case or 'kind' not in case:
        print('nothing to replay (kind=%s): %s' % (rp.get('kind'), rp.get('theorem')))
        return 1
    term, viols, plain = exec_case(case)
    for p in plain:
        print('  ', p)
    keys = [v.key for v in viols]
    for v in viols:
        print('   property fails: %s -- %s' % (v.key, v.what))
    hit = rp.get('key') in keys or (rp.get('key', '').startswith('model-vs-impl') and False)
    print(('VIOLATION property=C33 replay=%s' % ctx.replay_path) if hit else 'not reproduced')
    return 1 if hit else 0
