"""C12 -- connection pools keep exact accounting and close what they open.

Coq: Model/Pool.v (HostConnection, one op per lock region), Props/C12.v proved for every op sequence.
(C) the REAL cassandra.pool.HostConnection is driven region by region (lib/vf/pool_harness.py) on generated
histories with operations injected at region boundaries; after every region the observable state is compared
with the model; the property's statement is evaluated on the implementation (leaks after shutdown, negative or
over-capacity in_flight, borrow after shutdown).
"""
from vf import pool_check

META = {
    'technique': 'Coq proof (inductive invariant over all sequences of atomic regions) on a hand-written model of HostConnection + '
                 'region-level differential execution against the real class with injected interleavings',
    'level_text': 'C12_capacity, C12_borrow_after_shutdown_fails, C12_nonneg (with exact accounting in_flight = live + orphaned), '
                  'C12_closes_everything proved for every sequence of atomic steps of Model/Pool.v (HostConnection, repaired code); '
                  'model tied to cassandra/pool.py by correspondence after every region. C12v2_* : the same four statements for HostConnectionPool (protocol v1/v2), Model/PoolV2.v, same tie.',
    'level_note': 'Trusted: Coq kernel; the harness (hooking locks, fake session/cluster, socket-less Connection subclass); the atomicity '
                  'granularity (one step per lock region / unlocked statement group). Not modelled: Condition.wait blocking of HostConnection (the blocked borrower of the v1/v2 pool is a parked step), wall-clock borrow '
                  'timeouts, real threads, connect failures inside HostConnectionPool._add_conn_if_under_max, set_keyspace_blocking failing inside _replace.',
    'design_ref': 'DESIGN.md section 4 C12, Appendix A.2',
}


def mine(key, theorem):
    return theorem in ('C12_closes_everything', 'C12_nonneg', 'C12_capacity', 'C12_borrow_after_shutdown_fails', 'harness')


def run(ctx):
    pool_check.run_pool_check(ctx, 'C12', 200, 3000, 'Props/C12.v', mine)
    pool_check.run_legacy(ctx, 160, 2500)


def replay(ctx, rp):
    return pool_check.replay_pool(ctx, rp, mine)
