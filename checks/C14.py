"""C14 -- every request completes exactly once (cassandra/cluster.py, ResponseFuture).

Proof: Props/C14.v over Model/FutureOnce.v (state machine, one op = one call into the real class), for all histories.
Tie (C): the REAL ResponseFuture is driven single-threaded with fake session/pools/connections/timers/executor
(lib/vf/futa_harness.py); after every step its observable state is compared with the model's, and the statement
itself is evaluated on the real object (callback/errback counters, result()).  Plus an AST audit that the decisive
reads/writes sit inside `with self._callback_lock`.
"""
import ast, os
from vf import core, futa_gen as G, futa_harness as H, futa_check as FC

META = {
    'technique': 'Coq proof (invariants over all histories of a state-machine model of ResponseFuture) + per-step correspondence '
                 'of the real class with the model + executable statement on the real class + lock-region audit',
    'level_text': 'C14_exactly_once proved for every configuration and every history (any number of speculative executions, retries, '
                  'error kinds, pool states, timer fires, late responses, page fetches): each registered callback/errback pair runs at most '
                  'once per page fetch, never both, result() reports the delivered value, and once all requests are answered (or the '
                  'timeout handler ran) the outcome has been delivered exactly once. C14_without_guard_refuted: the same model without the '
                  'first-wins guard violates it (2 witnesses, replayed on the real class every run); C14_lock_protocol: the lock-region protocol of _set_final_result vs add_callback runs a callback exactly once under every thread interleaving.',
    'level_note': 'Model tied by correspondence, not by translation: real ResponseFuture vs model after every step of generated and '
                  'exhaustively enumerated histories. One op = one call into the class; finer interleavings of two threads inside '
                  '_set_final_* rest on the _callback_lock audit. Not modelled: set_keyspace/schema-change/unprepared responses '
                  '(C19/C20), continuous paging, metrics, user callbacks that raise, real timer threads.',
    'design_ref': 'DESIGN.md section 4 C14, Appendix A.3',
}

QUICK_KINDS = [('rows', False, None), ('retry', 1, 'ReadTimeout'), ('retry', 2, 'Unavailable')]
USE_KINDS = [('setks', None, None), ('rows', False, None)]
SHUT_KINDS = [('schema', None, None), ('retry', 1, 'ConnShutdown'), ('rows', False, None)]
FULL_KINDS = [('rows', False, None), ('rows', True, None), ('retry', 0, 'WriteTimeout'), ('retry', 1, 'ReadTimeout'),
              ('retry', 2, 'Unavailable')]


def lock_audit(src):
    """The model treats `guard test + store of the outcome + snapshot of the callbacks` and `append + already-complete test`
    as atomic.  Check that the source keeps them inside `with self._callback_lock`."""
    probs = []
    tree = ast.parse(src)
    cls = [n for n in tree.body if isinstance(n, ast.ClassDef) and n.name == 'ResponseFuture']
    if not cls:
        return ['class ResponseFuture not found']
    meths = dict((n.name, n) for n in cls[0].body if isinstance(n, ast.FunctionDef))

    def is_self_attr(n, names):
        return isinstance(n, ast.Attribute) and isinstance(n.value, ast.Name) and n.value.id == 'self' and n.attr in names

    def locked_nodes(fn):
        inside = set()
        for w in ast.walk(fn):
            if isinstance(w, ast.With) and any(is_self_attr(i.context_expr, ('_callback_lock',)) for i in w.items):
                for st in w.body:
                    for n in ast.walk(st):
                        inside.add(id(n))
        return inside

    for name, field, lst in (('_set_final_result', '_final_result', '_callbacks'), ('_set_final_exception', '_final_exception', '_errbacks')):
        fn = meths.get(name)
        if fn is None:
            probs.append('%s not found' % name)
            continue
        inside = locked_nodes(fn)
        if not inside:
            probs.append('%s does not take self._callback_lock' % name)
        for n in ast.walk(fn):
            if isinstance(n, ast.Assign) and any(is_self_attr(t, (field,)) for t in n.targets) and id(n) not in inside:
                probs.append('%s: self.%s stored outside the lock' % (name, field))
            if is_self_attr(n, (lst,)) and id(n) not in inside:
                probs.append('%s: self.%s read outside the lock' % (name, lst))
        # the guard: a test of both outcome fields followed by return, inside the lock, before the store
        guard_ok = False
        for w in ast.walk(fn):
            if isinstance(w, ast.With) and any(is_self_attr(i.context_expr, ('_callback_lock',)) for i in w.items):
                for st in w.body:
                    if isinstance(st, ast.Assign):
                        break
                    if isinstance(st, ast.If) and any(isinstance(x, ast.Return) for x in st.body):
                        names = set(n.attr for n in ast.walk(st.test) if is_self_attr(n, ('_final_result', '_final_exception')))
                        if names == {'_final_result', '_final_exception'}:
                            guard_ok = True
        if not guard_ok:
            probs.append('%s: no first-wins guard (test of _final_result and _final_exception, then return) inside the lock before the store' % name)
    for name, field, lst in (('add_callback', '_final_result', '_callbacks'), ('add_errback', '_final_exception', '_errbacks')):
        fn = meths.get(name)
        if fn is None:
            probs.append('%s not found' % name)
            continue
        inside = locked_nodes(fn)
        for n in ast.walk(fn):
            if isinstance(n, ast.Call) and isinstance(n.func, ast.Attribute) and n.func.attr == 'append' and is_self_attr(n.func.value, (lst,)) \
                    and id(n) not in inside:
                probs.append('%s: append to self.%s outside the lock' % (name, lst))
            if isinstance(n, ast.If) and any(is_self_attr(x, (field,)) for x in ast.walk(n.test)) and id(n) not in inside:
                probs.append('%s: completion test outside the lock' % name)
    return probs


def nontrivial(ft, cfg, ops, en):
    return ft['attempts'] >= 2 or ft['fires'] >= 1 or ft['runs'] >= 1 or ft['pages'] >= 1


def histories(ctx):
    rng = ctx.rng
    for item in FC.load_corpus('C14'):
        yield item
    for item in FC.directed(ctx):
        yield item
    # exhaustive small scope: all orderings of responses / timer fires / executor runs with up to 3 attempts in flight
    if ctx.tier == 'quick':
        scopes = [(QUICK_KINDS, [100, 100], 12, False, 4000), (USE_KINDS, [], 9, False, 4000)]
    else:
        scopes = [(FULL_KINDS, [100, 100], 10, False, 40000), (FULL_KINDS, [100], 11, True, 60000),
                  (QUICK_KINDS + [('junk', None, None)], [0, 0], 12, False, 30000), (USE_KINDS, [100], 9, False, 30000)]
    capped = False
    for kinds, specs, depth, np, budget in scopes:
        cfg = {'plan': [1, 2, 3], 'timeout': 1000, 'specs': specs, 'pools': {1: 'ok', 2: 'ok', 3: 'ok'}, 'now': 0}
        for ops in G.enumerate_orderings(cfg, kinds, depth, budget, allow_nextpage=np):
            yield (cfg, ops, False, 'exhaustive')
        capped = capped or G.enumerate_orderings.capped
    # Session.shutdown() at any point after the send, orderings of schema-change / ConnectionShutdown / rows answers
    cfg = {'plan': [1, 2, 3], 'timeout': 1000, 'specs': [100], 'pools': {1: 'ok', 2: 'ok', 3: 'ok'}, 'now': 0}
    for ops in G.enumerate_orderings(cfg, SHUT_KINDS, 8 if ctx.tier == 'quick' else 10, 20000, allow_nextpage=False, shutdown_at=2):
        yield (cfg, ops, False, 'exhaustive')
    capped = capped or G.enumerate_orderings.capped
    # re-prepare: UNPREPARED answers, PREPARE answers of every kind, Session.shutdown() at any point
    cfg = {'plan': [1, 2, 3], 'timeout': 1000, 'specs': [], 'pools': {1: 'ok', 2: 'ok', 3: 'ok'}, 'now': 0}
    for ops in G.enumerate_orderings(cfg, [('unprepared', None, None), ('rows', False, None)], 8 if ctx.tier == 'quick' else 11, 20000,
                                     allow_nextpage=False, shutdown_at=2, pkinds=('prepared', 'mismatch', 'error', 'connerr')):
        yield (cfg, ops, False, 'exhaustive')
    capped = capped or G.enumerate_orderings.capped
    ctx.exhaustive = not capped
    n = 600 if ctx.tier == "quick" else 8000
    for _ in range(n):
        cfg = G.random_cfg(rng)
        punctual = rng.random() < 0.3
        ops = G.random_walk(rng, cfg, rng.randint(3, 18), punctual)
        yield (cfg, ops, punctual, 'random')


def run(ctx):
    ok = ctx.prove('Props/C14.v')
    if ctx.tier == 'thorough' and ok:
        ctx.coqchk('Props/C14.v')
    src = open(os.path.join(core.REPO, 'cassandra/cluster.py')).read()
    try:
        probs = lock_audit(src)
    except SyntaxError as e:
        probs = ['cannot parse cluster.py: %s' % e]
    ctx.extra['lock_audit'] = probs or 'ok: outcome guard/store/snapshot and callback registration inside `with self._callback_lock`'
    if probs:
        ctx.proof_broken.append(('atomicity-audit', '; '.join(probs)))
    ctx.trust('single-threaded harness with fake session/pools/connections/timers/executor/clock (lib/vf/futa_harness.py)',
              'lock-region audit of _set_final_result/_set_final_exception/add_callback/add_errback (checks/C14.py:lock_audit)')
    ctx.assume('one history op = one call into ResponseFuture, executed atomically; threads interleave at call granularity, finer '
               'interleavings are serialised by _callback_lock (audited)',
               'retry-policy decisions, pool states, speculative delays, load-balancing plans are arbitrary inputs',
               '"every request answered" is read as: at least one request was sent, none is unanswered, no retry task waits in the executor')
    ctx.rule = ('corpus (pre-fix failing histories incl. the three C14_without_guard_refuted witnesses) + exhaustive orderings of responses/timer '
                'fires/executor runs for a 3-host plan with up to 3 attempts in flight + random walks over the enabled operations of the real '
                'future (5%% disabled ops); non-trivial = distinct history with >= 2 attempts sent, a timer fire, a retry run or a page fetch')
    b = FC.Batch(ctx, 'C14')
    for cfg, ops, punctual, source in histories(ctx):
        b.add(cfg, ops, punctual, source, nontrivial)
    b.compare()
    FC.explore_races(ctx, 'C14')


def replay(ctx, rp):
    return FC.replay(ctx, rp, 'C14')
