"""C46 -- per-statement options override profile and session defaults.

Proof: Props/C46.v over Model/Options.v (pure function `effective` mirroring Session._create_response_future, and
bound_of mirroring BoundStatement.__init__).  Tie (C): the real Session._create_response_future on a Session built with
object.__new__ over a fake cluster (lib/vf/pgconc_options.py), exhaustively over the set/unset lattice x statement kinds x
configuration modes x protocol versions; the created ResponseFuture/message AND the encoded body are compared."""
import itertools
from vf import core
from vf import pgconc_options as P

META = {
    'technique': 'Coq proof (case analysis on a pure resolution function) + exhaustive correspondence of the set/unset lattice with the real '
                 'Session._create_response_future; encoded request bodies read back by an independent reader',
    'level_text': 'C46_statement_wins / C46_bound_inherits / C46_else_profile_or_session / C46_message_carries proved for all option values, '
                  'both configuration modes, simple/bound/batch statements, every timeout argument and protocol version; model tied to '
                  'cassandra/cluster.py + cassandra/query.py by exhaustive differential execution.',
    'level_note': 'Trusted: Coq kernel, harness fakes (cluster, policies, row factories), the 60-line reader of QUERY/EXECUTE/BATCH bodies. '
                  'Not modelled: graph statements, continuous paging options, custom payloads/tracing, Session.execute() plumbing above '
                  '_create_response_future, profile lookup errors.',
    'design_ref': 'DESIGN.md section 4, C46',
}

PROFILE = {'cl': 10, 'serial': 9, 'retry': 20, 'timeout': 30.0, 'rowf': 40, 'lbp': 41, 'spec': 42}
SESSION = {'cl': 1, 'serial': None, 'retry': 21, 'timeout': 31.5, 'rowf': 43, 'lbp': 44, 'fetch': 5000, 'use_ts': True, 'ts': 777, 'keyspace': 3}
UNSET_STMT = {'cl': None, 'serial': None, 'retry': None, 'fetch': 'unset', 'keyspace': None, 'idem': False}


def stmt_from_bits(bits, alt=False):
    cl, serial, retry, fetch, keyspace, idem = bits
    return {'cl': (4 if alt else 6) if cl else None, 'serial': (9 if alt else 8) if serial else None, 'retry': (23 if alt else 22) if retry else None,
            'fetch': (70 if alt else 50) if fetch else 'unset', 'keyspace': (7 if alt else 9) if keyspace else None, 'idem': bool(idem)}


def lattice(ctx):
    quick = ctx.tier == 'quick'
    pvs = (1, 2, 4, 5, 65) if quick else (1, 2, 3, 4, 5, 6, 65, 66)
    cases = []
    for mode in ('Legacy', 'Profiles'):
        for kind in ('Simple', 'Bound', 'Batch'):
            for bits in itertools.product((0, 1), repeat=6):
                for tset in (False, True):
                    for pv in pvs:
                        c = {'mode': mode, 'kind': kind, 'stmt': stmt_from_bits(bits), 'profile': PROFILE, 'session': SESSION,
                             'timeout': 12.25 if tset else P.NOT_SET, 'paging': None, 'pv': pv, 'prepared': dict(UNSET_STMT),
                             'meta_keyspace': None, 'bind_via_session': False, 'lattice': True}
                        cases.append(c)
    # bound statements: prepared-statement settings x explicit settings (inheritance), both ways of binding
    for mode in ('Legacy', 'Profiles'):
        for pbits in itertools.product((0, 1), repeat=4):
            for ebits in itertools.product((0, 1), repeat=4):
                for via in (False, True):
                    if via and any(ebits):
                        continue
                    prep = stmt_from_bits(pbits + (0, pbits[0]), alt=True)
                    c = {'mode': mode, 'kind': 'Bound', 'stmt': stmt_from_bits(ebits + (0, 0)), 'profile': PROFILE, 'session': SESSION,
                         'timeout': P.NOT_SET, 'paging': 5, 'pv': 4, 'prepared': prep, 'meta_keyspace': 11 if pbits[1] else None,
                         'bind_via_session': via, 'lattice': True}
                    cases.append(c)
    # where the profile's / session's own consistency level comes from: chosen by the user or not, ordinary or DBaaS cluster,
    # profile registered at connect() or added later
    for mode in ('Legacy', 'Profiles'):
        for kind in ('Simple', 'Bound', 'Batch'):
            for scl in (0, 1):
                for dbaas in (False, True):
                    for pch in (False, True):
                        for sch in (False, True):
                            for later in (False, True):
                                cases.append({'mode': mode, 'kind': kind, 'stmt': stmt_from_bits((scl, 0, 0, 0, 0, 0)), 'profile': dict(PROFILE, cl=4),
                                              'session': dict(SESSION, cl=2), 'timeout': P.NOT_SET, 'paging': None, 'pv': 4,
                                              'prepared': dict(UNSET_STMT), 'meta_keyspace': None, 'bind_via_session': False, 'lattice': True,
                                              'dbaas': dbaas, 'profile_cl_chosen': pch, 'session_cl_chosen': sch,
                                              'added_later': later and mode == 'Profiles'})
    # which row factory BUILDS the rows: ordinary ROWS answer and continuous paging (DSE_V1/DSE_V2, profile with options)
    for mode in ('Legacy', 'Profiles'):
        for kind in ('Simple', 'Bound'):
            for cont in (False, True):
                for pv in (65, 66):
                    for bits in ((0, 0, 0, 0, 0, 0), (1, 0, 1, 1, 0, 1)):
                        cases.append({'mode': mode, 'kind': kind, 'stmt': stmt_from_bits(bits), 'profile': PROFILE, 'session': SESSION,
                                      'timeout': P.NOT_SET, 'paging': None, 'pv': pv, 'prepared': dict(UNSET_STMT), 'meta_keyspace': None,
                                      'bind_via_session': False, 'lattice': True, 'cont': cont})
    # is the speculative-execution policy really used?  idempotent or not x timeout argument unset / None / below / above the delay
    for mode in ('Legacy', 'Profiles'):
        for kind in ('Simple', 'Bound', 'Batch'):
            for idem in (0, 1):
                for tmo in (P.NOT_SET, None, 0.01, 7.0):
                    for ptmo in (30.0, None):
                        st = stmt_from_bits((0, 0, 0, 0, 0, idem))
                        cases.append({'mode': mode, 'kind': kind, 'stmt': st, 'profile': dict(PROFILE, timeout=ptmo), 'session': dict(SESSION, timeout=ptmo),
                                      'timeout': tmo, 'paging': None, 'pv': 4, 'prepared': stmt_from_bits((0, 0, 0, 0, 0, idem)),
                                      'meta_keyspace': None, 'bind_via_session': False, 'lattice': True})
    return cases, pvs


def random_cases(ctx, n):
    rng = ctx.rng
    out = []
    for _ in range(n):
        prof = {'cl': rng.choice((0, 1, 2, 4, 6, 10)), 'serial': rng.choice((None, 8, 9)), 'retry': rng.randint(20, 29),
                'timeout': rng.choice((None, 0.5, 10.0, 30.0)), 'rowf': rng.randint(40, 49), 'lbp': rng.randint(50, 59), 'spec': rng.randint(60, 69)}
        sess = {'cl': rng.choice((0, 1, 2, 4, 6, 10)), 'serial': rng.choice((None, 8, 9)), 'retry': rng.randint(70, 79),
                'timeout': rng.choice((None, 2.0, 10.0)), 'rowf': rng.randint(80, 89), 'lbp': rng.randint(90, 99),
                'fetch': rng.choice((None, 1, 100, 5000)), 'use_ts': rng.random() < 0.7, 'ts': rng.choice((0, 1, 1234567890123456, 2 ** 62)),
                'keyspace': rng.choice((None, 3))}

        def rs():
            return {'cl': rng.choice((None, None, 0, 1, 4, 6)), 'serial': rng.choice((None, None, 8, 9)), 'retry': rng.choice((None, None, 22, 23)),
                    'fetch': rng.choice(('unset', 'unset', None, 1, 50, 2 ** 31 - 1)), 'keyspace': rng.choice((None, 7, 9)), 'idem': rng.random() < 0.5}
        kind = rng.choice(('Simple', 'Bound', 'Batch'))
        via = kind == 'Bound' and rng.random() < 0.4
        out.append({'mode': rng.choice(('Legacy', 'Profiles')), 'kind': kind, 'stmt': rs(), 'profile': prof, 'session': sess,
                    'timeout': rng.choice((P.NOT_SET, P.NOT_SET, None, 0.25, 7.0)), 'paging': rng.choice((None, 1, 12)),
                    'pv': rng.choice((1, 2, 3, 4, 5, 6, 65, 66)), 'prepared': rs(), 'meta_keyspace': rng.choice((None, 11)),
                    'bind_via_session': via, 'profile_ref': rng.choice(('default', 'name', 'object')),
                    'config_mode_value': rng.choice((0, 2)), 'lattice': False, 'dbaas': rng.random() < 0.3,
                    'profile_cl_chosen': rng.random() < 0.7, 'session_cl_chosen': rng.random() < 0.7, 'added_later': rng.random() < 0.3,
                    'spec_delay': rng.choice((0.05, 0.05, 0.4, 5.0))})
        if out[-1]['pv'] in (65, 66) and rng.random() < 0.5:
            out[-1]['cont'] = True
    return out


def histories(ctx):
    """configuration histories on a real Cluster: constructor arguments x every sequence of <= 2 (thorough: 3) later calls"""
    ops = P.LEGACY_OPS + ('add_execution_profile',)
    out = []
    for ctor in ((), ('lbp',), ('retry',), ('profiles',), ('lbp', 'retry'), ('lbp', 'profiles'), ('retry', 'profiles')):
        for n in range(0, (2 if ctx.tier == 'quick' else 3) + 1):
            for seq in itertools.product(ops, repeat=n):
                out.append({'ctor': list(ctor), 'ops': list(seq)})
    return out


def history_oracle(ctx, hist, res):
    """a legacy setting the driver ACCEPTED is the one in effect for a statement without its own; with profiles the profile's"""
    if res['ctor'] != 'ok' or res['fields'] is None:
        return
    f = res['fields']
    used_profiles = 'profiles' in hist['ctor']
    for field, val in sorted(res['assigned'].items()):
        if f[field] != val:
            ctx.violation('%s.legacy-setting-accepted-but-not-in-effect' % field,
                          '%s assigned through the legacy API (accepted) = %r, in effect %r; Cluster(%s) then %s; config mode %s' % (
                              field, val, f[field], ', '.join(hist['ctor']), ' ; '.join(hist['ops']) or '-', res['mode']),
                          case={'history': hist}, expected=val, actual=f[field], theorem='C46_mode_follows_configuration', kind='history')
    if used_profiles and not res['assigned']:
        exp = {'cl': 4, 'timeout': 33.0, 'retry': 402, 'rowf': 403, 'lbp': 401}
        for k, v in exp.items():
            if f[k] != v:
                ctx.violation('%s.profile-setting-not-in-effect' % k, '%s of the default profile = %r, in effect %r (history %r)' % (k, v, f[k], hist),
                              case={'history': hist}, expected=v, actual=f[k], theorem='C46_else_profile_or_session', kind='history')


def effective_stmt(case):
    """the statement's own settings as the user made them (for a bound statement: its own, else the prepared statement's)"""
    if case['kind'] != 'Bound':
        return case['stmt']
    prep = case['prepared']
    expl = dict(UNSET_STMT) if case['bind_via_session'] else case['stmt']
    out = {}
    for k in ('cl', 'serial', 'retry'):
        out[k] = expl[k] if expl[k] is not None else prep[k]
    out['fetch'] = expl['fetch'] if expl['fetch'] != 'unset' else prep['fetch']
    out['keyspace'] = expl['keyspace'] if expl['keyspace'] is not None else case['meta_keyspace']
    out['idem'] = prep['idem']
    return out


def oracle(ctx, case, res):
    """the statement of C46 on what the implementation produced"""
    mode, kind, pv = case['mode'], case['kind'], case['pv']
    base = dict(case['session'] if mode == 'Legacy' else case['profile'])
    chosen = case.get('session_cl_chosen', True) if mode == 'Legacy' else case.get('profile_cl_chosen', True)
    if not chosen:
        base['cl'] = 6 if case.get('dbaas') else 10      # nobody chose a level: LOCAL_QUORUM on DBaaS clusters, else LOCAL_ONE
    st = effective_stmt(case)
    bad = []
    if isinstance(res, tuple):
        if not (kind == 'Batch' and pv < 2):
            bad.append(('request', 'a request', res))
    else:
        def want(field, stmt_val, dflt):
            exp = stmt_val if stmt_val is not None else dflt
            if res[field] != exp:
                bad.append((field, exp, res[field]))
        want('cl', st['cl'], base['cl'])
        want('serial', st['serial'], base['serial'])
        want('retry', st['retry'], base['retry'])
        exp_t = base['timeout'] if case['timeout'] == P.NOT_SET else case['timeout']
        if res['timeout'] != exp_t:
            bad.append(('timeout', exp_t, res['timeout']))
        if kind != 'Batch' and pv >= 2:
            exp_f = case['session']['fetch'] if st['fetch'] == 'unset' else st['fetch']
            if res['fetch'] != exp_f:
                bad.append(('fetch_size', exp_f, res['fetch']))
        if res['rowf'] != base['rowf']:
            bad.append(('row_factory', base['rowf'], res['rowf']))
        if res.get('built_by') is not None and res['built_by'] != base['rowf']:
            bad.append(('row_factory.builds-rows%s' % ('.continuous-paging' if res.get('cont') else ''), base['rowf'], res['built_by']))
        if res['lbp'] != base['lbp']:
            bad.append(('load_balancing_policy', base['lbp'], res['lbp']))
        exp_spec = case['profile']['spec'] if (mode == 'Profiles' and st['idem']) else None
        got_spec = res['spec'][0] if res['spec'] else None
        if got_spec != exp_spec:
            bad.append(('speculative_execution_policy', exp_spec, got_spec))
        # the policy in effect must really be used: its timer is armed at creation unless the client timeout comes first
        delay = case.get('spec_delay', 0.05)
        if exp_spec is not None and (res['timeout'] is None or res['timeout'] > delay):
            if res['timer'] is None or res['timer'][0] != 'spec' or res['timer'][1] != delay:
                bad.append(('speculative_execution_policy.timer', ('spec', delay), res['timer']))
        elif exp_spec is None and res['timer'] is not None and res['timer'][0] == 'spec':
            bad.append(('speculative_execution_policy.timer', 'no speculative timer', res['timer']))
        w = res.get('wire')
        if w is not None:
            if 'error' in w:
                # The encoder refuses a request whose protocol version cannot carry an option in effect (it never drops
                # one silently): conforming.  A rejection without such a cause is a failure.
                cannot_carry = (kind == 'Batch' and pv < 3 and (res['serial'] or res['ts'] is not None or res['keyspace'] is not None)) or \
                               (kind != 'Batch' and pv < 2 and (res['serial'] or res['fetch'] or res['paging'] is not None))
                if w['error'] != 'UnsupportedOperation' or not cannot_carry:
                    bad.append(('encoded', 'an encodable request', w))
                else:
                    ctx.count('encoder', 'rejected: version cannot carry an option in effect')
            else:
                ctx.count('encoder', 'encoded')
                for k, v in w.items():
                    mv = res[k]
                    if k in ('fetch', 'serial') and not mv:
                        mv = None        # zero / unset values are not put on the wire
                    if v != mv:
                        bad.append(('encoded.' + k, mv, v))
    for field, exp, got in bad:
        ctx.violation('%s.%s.%s' % (field, mode.lower(), kind.lower()),
                      '%s in effect is %r, expected %r (mode=%s kind=%s pv=%d statement=%r timeout_arg=%r)' % (field, got, exp, mode, kind, pv, st, case['timeout']),
                      case=case, expected=exp, actual=got, theorem='C46_message_carries' if field.startswith('encoded') else (
                          'C46_statement_wins' if field in ('cl', 'serial', 'retry', 'fetch_size', 'timeout') else 'C46_else_profile_or_session'),
                      kind='input')
    return bool(bad)


def run(ctx):
    ok = ctx.prove('Props/C46.v')
    if ctx.tier == 'thorough' and ok:
        ctx.coqchk('Props/C46.v')
    ctx.trust('C46 harness: Session via object.__new__ over a fake cluster, identifiable policy/row-factory stand-ins, '
              'independent reader of QUERY/EXECUTE/BATCH bodies (lib/vf/pgconc_options.py)')
    lat, pvs = lattice(ctx)
    rnd = random_cases(ctx, 400 if ctx.tier == 'quick' else 20000)
    ctx.exhaustive = True
    ctx.rule = ('exhaustive: 2^6 set/unset combinations of statement options (consistency, serial consistency, retry policy, fetch size, keyspace, '
                'idempotence) x timeout argument set/unset x {simple, bound, batch} x {legacy, profiles} x protocol versions %r; 2^4 x 2^4 '
                'prepared-vs-bound inheritance lattice x both binding paths; {ordinary, DBaaS cluster} x profile level chosen/not x session level chosen/not x profile added later; configuration histories on a real Cluster (7 constructor shapes x every sequence of <= 2/3 later legacy assignments / add_execution_profile); the timer armed at creation (speculative vs timeout); the factory that really builds the rows of a delivered answer (ordinary and continuous paging on DSE_V1/V2); plus random option values (None timeouts/fetch sizes, '
                'serial levels on profile/session, profile by name/object, uncommitted config mode); non-trivial = at least one statement '
                'option set' % (pvs,))
    cases, meta = [], []
    for case in lat + rnd:
        res = P.build(case)
        st = effective_stmt(case)
        nset = sum(1 for k in ('cl', 'serial', 'retry') if st[k] is not None) + (st['fetch'] != 'unset')
        ctx.case([case['mode'], case['kind'], case['stmt'], case['prepared'], case['timeout'], case['pv'], case['paging'], case['bind_via_session'],
                  case['profile'], case['session'], case['meta_keyspace'], case.get('dbaas'), case.get('profile_cl_chosen'),
                  case.get('session_cl_chosen'), case.get('added_later')], nontrivial=nset > 0 or bool(case.get('dbaas')),
                 sample={'mode': case['mode'], 'kind': case['kind'], 'pv': case['pv'], 'statement': st, 'timeout_arg': case['timeout'],
                         'created': res if isinstance(res, tuple) else {k: v for k, v in res.items()}})
        ctx.count('mode', case['mode'])
        ctx.count('kind', case['kind'])
        ctx.count('pv', case['pv'])
        ctx.count('statement_options_set', nset)
        ctx.count('source', 'lattice' if case['lattice'] else 'random')
        ctx.count('cluster', 'dbaas' if case.get('dbaas') else 'ordinary')
        oracle(ctx, case, res)
        cases.append(P.g_case(case, res))
        meta.append((case, res))
    # configuration histories (the mode is derived by the driver, not set by the harness)
    hcases, hmeta = [], []
    for hist in histories(ctx):
        res = P.run_history(hist)
        ctx.case(['history', hist['ctor'], hist['ops']], nontrivial=bool(hist['ops']),
                 sample={'Cluster': hist['ctor'], 'then': hist['ops'], 'trace': res['trace'], 'in_effect': res['fields']})
        ctx.count('source', 'config-history')
        history_oracle(ctx, hist, res)
        if res['ctor'] == 'ok':
            hcases.append(P.g_history(hist, res))
        else:
            hcases.append('match cfg_step CLegacy UseProfiles with None => true | Some _ => false end')
        hmeta.append((hist, res))
    try:
        badh = ctx.coq_filter(['Options'], '(fun b : bool => b)', hcases, shard=400)
        for i in badh[:5]:
            hist, res = hmeta[i]
            ctx.disagreement('model-vs-impl.config-history', 'configuration mode differs from Model/Options.v cfg_trace: Cluster(%s) then %r -> %r' % (
                ', '.join(hist['ctor']), hist['ops'], res['trace']), case={'history': hist}, actual=res['trace'])
    except RuntimeError as e:
        ctx.proof_broken.append(('correspondence:Options.cfg', str(e)[-600:]))
    try:
        bad = ctx.coq_filter(['Options'], '(fun b : bool => b)', cases, shard=400)
        for i in bad[:10]:
            case, res = meta[i]
            ctx.disagreement('model-vs-impl.%s.%s' % (case['mode'], case['kind']),
                             '_create_response_future differs from Model/Options.v: %r -> %r' % ({k: case[k] for k in ('mode', 'kind', 'stmt', 'timeout', 'pv')}, res),
                             case=case, actual=res)
    except RuntimeError as e:
        ctx.proof_broken.append(('correspondence:Options', str(e)[-600:]))
    ctx.assume('timeouts compared in integer milliseconds; policies/row factories compared by identity of the configured object')


def replay(ctx, rp):
    case = rp.get('case')
    if case and 'history' in case:
        hist = case['history']
        res = P.run_history(hist)
        print('replay Cluster(%s) then %r -> trace %r, in effect %r' % (', '.join(hist['ctor']), hist['ops'], res['trace'], res['fields']))
        n0 = len(ctx.violations)
        history_oracle(ctx, hist, res)
        bad = len(ctx.violations) > n0
        for f in ctx.violations[n0:]:
            print('  ' + f.what)
        print(('VIOLATION property=C46 replay=%s' % ctx.replay_path) if bad else 'not reproduced')
        return 1 if bad else 0
    if not case or 'mode' not in case:
        print('nothing to replay: %s' % rp.get('theorem'))
        return 1
    res = P.build(case)
    print('replay mode=%s kind=%s pv=%s statement=%r timeout_arg=%r' % (case['mode'], case['kind'], case['pv'], effective_stmt(case), case['timeout']))
    print('  created: %r' % (res,))
    n0 = len(ctx.violations)
    oracle(ctx, case, res)
    bad = len(ctx.violations) > n0
    for f in ctx.violations[n0:]:
        print('  ' + f.what)
    print(('VIOLATION property=C46 replay=%s' % ctx.replay_path) if bad else 'not reproduced')
    return 1 if bad else 0
