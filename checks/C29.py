"""C29 -- simple-statement parameters are injection-safe and value-preserving.

(T) the Encoder type->function table, its dispatch mode (exact type(val) vs nearest class of the MRO) and the Decimal
    route are regenerated from cassandra/encoder.py into coq/Gen/EncoderTable.v; coq/Props/C29.v proves, over those
    constants, that every supported value (subclasses, unbounded nesting) is emitted as exactly one CQL term that denotes
    the value the prepared path sends.
(C) Encoder.cql_encode_all_types and query.bind_params (positional and named) are run on generated values (subclasses of
    every supported type, nesting <= 3); the literal is parsed by the Coq term parser inside coq_filter and compared with
    the model's output, with the Python twin parser and with the canonical value (cqltypes serialisers = prepared path).
"""
import collections, datetime, enum, ipaddress, json, os, uuid
from collections import OrderedDict
from decimal import Decimal
from vf import core, lex_gen, enc_gen
from vf import lex_oracle as LO
from vf import enc_oracle as EO

META = {
    'technique': 'Coq proof (mutual induction over values, unbounded nesting) about a mirror of cassandra.encoder.Encoder and an '
                 'independent CQL term parser; table/dispatch constants regenerated from source; generated-value correspondence',
    'level_text': 'C29_one_term / C29_bind_positional / C29_bind_named proved for every supported value incl. subclasses and any nesting '
                  'depth; repr(float) and str(Decimal) enter as Section variables with assumed parse-back laws (checked on every generated '
                  'value); model, Coq parser and Python twin tied to the real Encoder / bind_params on generated values.',
    'level_note': 'Trusted: Coq kernel; transcription of the CQL term grammar (Lexer.g/Parser.g); Python printing of float/Decimal/UUID/'
                  'date/time/inet taken as model input; Double.parseDouble = Python float() (both correctly rounded); BigDecimal(String) '
                  'transcribed; date/time/inet text read by the Python oracle only; enc_gen AST reader.',
    'design_ref': 'DESIGN.md section 4, C29',
}


# ---------------------------------------------------------------- subclasses of every supported (subclassable) type
class SStr(str): pass
class SInt(int): pass
class SFloat(float): pass
class SBytes(bytes): pass
class SByteArray(bytearray): pass
class SList(list): pass
class STuple(tuple): pass
class SSet(set): pass
class SFrozenSet(frozenset): pass
class SDict(dict): pass
class SUUID(uuid.UUID): pass
class SDecimal(Decimal): pass
class SDateTime(datetime.datetime): pass
class SDate(datetime.date): pass
class STime(datetime.time): pass
class SIPv4(ipaddress.IPv4Address): pass
class SOrderedDict(OrderedDict): pass
NT = collections.namedtuple('NT', 'a b')       # itself a direct subclass of tuple
class NT2(NT): pass                             # two levels below tuple


class Mixin(object):
    """plain mix-in for the multiple-inheritance cases"""


# for every level-1 subclass: a 2-level and a 3-level chain, a mix-in class whose supported base is two levels up on the
# second branch, and a diamond over two direct subclasses
FAMILY = {}
CLASSES = {}
BASES = {SStr: str, SInt: int, SFloat: float, SBytes: bytes, SByteArray: bytearray, SList: list, STuple: tuple, SSet: set,
         SFrozenSet: frozenset, SDict: dict, SUUID: uuid.UUID, SDecimal: Decimal, SDateTime: datetime.datetime, SDate: datetime.date,
         STime: datetime.time, SIPv4: ipaddress.IPv4Address, SOrderedDict: OrderedDict}
for _l1, _base in BASES.items():
    _n = _l1.__name__
    _l2 = type(_n + '2', (_l1,), {})
    _l3 = type(_n + '3', (_l2,), {})
    _fam = [_l1, _l1, _l2, _l3]
    try:
        _fam.append(type(_n + 'Mix', (Mixin, _l2), {}))
        _a, _b = type(_n + 'A', (_base,), {}), type(_n + 'B', (_base,), {})
        _fam.append(type(_n + 'Dia', (_a, _b), {}))
    except TypeError:
        pass
    FAMILY[_l1] = _fam
    for _c in _fam:
        CLASSES[_c.__name__] = _c
CLASSES.update({'NT': NT, 'NT2': NT2})


def sub(l1, rng):
    """a class 1, 2 or 3 levels below the supported base of l1 (or reaching it through multiple inheritance)"""
    return rng.choice(FAMILY[l1])


def str_enum(text):
    return enum.StrEnum('SE', {'M': text}).M


def int_enum(z):
    return enum.IntEnum('IE', {'M': z}).M


class DstTz(datetime.tzinfo):
    """UTC+1 with one hour of DST from April to September"""

    def utcoffset(self, dt):
        return datetime.timedelta(hours=1) + self.dst(dt)

    def dst(self, dt):
        return datetime.timedelta(hours=1) if dt is not None and 4 <= dt.month <= 9 else datetime.timedelta(0)

    def tzname(self, dt):
        return 'DST'


TZS = [datetime.timezone(datetime.timedelta(hours=5, minutes=30)), datetime.timezone(datetime.timedelta(hours=-8)),
       datetime.timezone(datetime.timedelta(hours=14)), datetime.timezone(datetime.timedelta(minutes=-1)), datetime.timezone.utc, DstTz()]


def gen(ctx):
    ctx.generate('CqlKeywords.v', lambda: lex_gen.emit(core.REPO))
    ctx.generate('EncoderTable.v', lambda: enc_gen.emit(core.REPO))


def exact_types():
    from cassandra import util as U
    from cassandra.encoder import ValueSequence
    return {type(None), bool, int, float, Decimal, str, bytes, bytearray, memoryview, uuid.UUID, datetime.datetime, datetime.date,
            datetime.time, U.Date, U.Time, ipaddress.IPv4Address, ipaddress.IPv6Address, list, tuple, ValueSequence, set, frozenset,
            U.sortedset, dict, OrderedDict, U.OrderedMap}


def base_name(v):
    from cassandra import util as U
    from cassandra.encoder import ValueSequence
    for t, n in ((type(None), 'NoneType'), (bool, 'bool'), (int, 'int'), (float, 'float'), (Decimal, 'Decimal'), (str, 'str'),
                 (bytes, 'bytes'), (bytearray, 'bytearray'), (memoryview, 'memoryview'), (uuid.UUID, 'UUID'),
                 (datetime.datetime, 'datetime'), (U.Date, 'util.Date'), (datetime.date, 'date'), (datetime.time, 'time'), (U.Time, 'util.Time'),
                 (ipaddress.IPv4Address, 'IPv4Address'), (ipaddress.IPv6Address, 'IPv6Address'), (ValueSequence, 'ValueSequence'),
                 (list, 'list'), (tuple, 'tuple'), (set, 'set'), (frozenset, 'frozenset'), (U.sortedset, 'sortedset'),
                 (dict, 'dict'), (U.OrderedMap, 'OrderedMap')):
        if isinstance(v, t):
            return n
    return type(v).__name__


def children(v):
    from cassandra import util as U
    if isinstance(v, (list, tuple, set, frozenset, U.sortedset)):
        return list(v)
    if isinstance(v, (dict, U.OrderedMap)):
        out = []
        for k, x in v.items():
            out += [k, x]
        return out
    return []


# ---------------------------------------------------------------- python value -> Gallina (pv str)
class Lits(object):
    def __init__(self):
        self.dectab = {}

    def bl(self, b):
        return 'true' if b else 'false'

    def pv(self, v, ex):
        from cassandra import util as U
        from cassandra.encoder import ValueSequence
        sub = self.bl(type(v) not in ex)
        if v is None:
            return 'VNone'
        if isinstance(v, bool):
            return '(VBool %s)' % self.bl(v)
        if isinstance(v, int):
            return '(VInt %s %s)' % (sub, LO.zl(int(v)))
        if isinstance(v, float):
            return '(VFloat %s %s)' % (sub, self.fval(v))
        if isinstance(v, Decimal):
            sign, digits, exp = v.as_tuple()
            coeff = int(''.join(map(str, digits)))
            self.dectab[(sign, coeff, exp)] = (Decimal.__str__(v), float(v))
            return '(VDecimal %s %s %s %s)' % (sub, self.bl(sign), LO.zl(coeff), LO.zl(exp))
        if isinstance(v, str):
            return '(VStr %s %s)' % (sub, LO.zstr(str.__str__(v)))
        if isinstance(v, (bytes, bytearray, memoryview)):
            return '(VBytes %s %s)' % (sub, LO.zlist(list(bytes(v))))
        if isinstance(v, uuid.UUID):
            return '(VUuid %s %s)' % (sub, LO.zstr(uuid.UUID.__str__(v)))
        if isinstance(v, datetime.datetime):
            import struct
            from cassandra import cqltypes as CT
            return '(VTimestamp %s %s)' % (sub, LO.zl(struct.unpack('>q', CT.DateType.serialize(v, 4))[0]))
        if isinstance(v, U.Date):
            return '(VDateExt %s)' % LO.zl(v.days_from_epoch)
        if isinstance(v, datetime.date):
            return '(VQuoted %s QDate %s)' % (sub, LO.zstr(datetime.date.strftime(v, '%Y-%m-%d')))
        if isinstance(v, datetime.time):
            return '(VQuoted %s QTime %s)' % (sub, LO.zstr(datetime.time.__str__(v)))
        if isinstance(v, U.Time):
            return '(VQuoted %s QTime %s)' % (sub, LO.zstr(str(v)))
        if isinstance(v, (ipaddress.IPv4Address, ipaddress.IPv6Address)):
            return '(VQuoted %s QInet %s)' % (sub, LO.zstr(v.compressed))
        if isinstance(v, ValueSequence):
            return '(VSeq false SValueSeq %s)' % self.pvs(list(v), ex)
        if isinstance(v, list):
            return '(VSeq %s SList %s)' % (sub, self.pvs(list(v), ex))
        if isinstance(v, tuple):
            return '(VSeq %s STuple %s)' % (sub, self.pvs(list(v), ex))
        if isinstance(v, (set, frozenset, U.sortedset)):
            return '(VSet %s %s)' % (sub, self.pvs(list(v), ex))
        if isinstance(v, (dict, U.OrderedMap)):
            body = 'MNil'
            for k, x in reversed(list(v.items())):
                body = '(MCons %s %s %s)' % (self.pv(k, ex), self.pv(x, ex), body)
            return '(VMap %s %s)' % (sub, body)
        raise ValueError('unsupported %r' % (v,))

    def pvs(self, l, ex):
        body = 'PNil'
        for x in reversed(l):
            body = '(PCons %s %s)' % (self.pv(x, ex), body)
        return body

    def fval(self, x):
        if x != x:
            return 'FNan'
        if x in (float('inf'), float('-inf')):
            return '(FInf %s)' % self.bl(x < 0)
        return '(FFin %s)' % LO.zstr(float.__repr__(x))

    def prelude(self):
        rows = []
        for (sign, coeff, exp), (text, fl) in sorted(self.dectab.items()):
            rows.append('(%s, %s, %s, %s, %s)' % (self.bl(sign), LO.zl(coeff), LO.zl(exp), LO.zstr(text), self.fval(fl)))
        tab = '[' + ';\n'.join(rows) + ']'
        return PRELUDE % tab


PRELUDE = LO.LEX_PRELUDE + '''
(* Python's own printing, as recorded from this run (model input): str(Decimal) and float(Decimal) *)
Definition dectab : list (bool * Z * Z * str * fval str) := %s.
Definition decrow (n : bool) (c e : Z) :=
  find (fun r => match r with (n', c', e', _, _) => Bool.eqb n n' && (c =? c') && (e =? e') end) dectab.
Definition strdec (n : bool) (c e : Z) : str := match decrow n c e with Some (_, _, _, t, _) => t | None => [] end.
Definition dec2f (n : bool) (c e : Z) : fval str := match decrow n c e with Some (_, _, _, _, f) => f | None => FNan end.
Definition idf (x : str) : str := x.
Definition enc (v : pv str) : str := encode_cur str idf strdec dec2f v.
(* one case: model output = implementation output; Coq parser = Python twin; Coq verdict on the property = Python verdict *)
Definition holds (v : pv str) (lit : str) : bool :=
  match parse_one lit with
  | Some (t, []) =>
      term_eqb t (term_of str idf strdec v) &&
      match denote str (fun x => Some x) (kind_of str v) t with
      | Some c => cval_eqb str str_eqb c (prepared str v)
      | None => false
      end
  | _ => false
  end.
Definition chk (v : pv str) (lit : str) (pt : option (term * str)) (okpy : bool) : bool :=
  str_eqb (enc v) lit && opt_term_eqb (parse_one lit) pt && Bool.eqb (holds v lit) okpy.
Definition chkp (s : str) (pt : option (term * str)) : bool := opt_term_eqb (parse_one s) pt.
Definition chkb (q : list piece) (ps : list (pv str)) (out : str) : bool :=
  match bind_params_cur str idf strdec dec2f q ps with Some o => str_eqb o out | None => false end.
'''


# ---------------------------------------------------------------- generators
TEXTS = ['', 'a', "x' OR 1=1 --", "it's", "''", "'", 'a"b', 'NULL', 'é', '\U0001d11e', 'a\nb', '%s', '%(x)s', '100%', ', ', ']', '}', ': ',
         '0x00', '-1', '1e5', 'NaN', "'; DROP TABLE t; --", '\x00', '\ud800', 'true', ' ', 'a' * 50, '$$x$$', '/*', '--', '\\']
INTS = [0, 1, -1, 7, 10, -10, 127, 128, 255, 2 ** 31 - 1, 2 ** 31, -2 ** 31, 2 ** 63 - 1, 2 ** 63, -2 ** 63, 10 ** 30, -10 ** 30, 12345678, 99999999, 123456789]
FLOATS = [0.0, -0.0, 1.0, -1.5, 0.1, 1e16, 1e-7, 5e-324, 1.7976931348623157e308, 1e22, 1e21, 123456789.123, float('inf'), float('-inf'),
          float('nan'), 2.5e-5, 1e100, -1e-100, 0.30000000000000004, 12345678.0]
DECIMALS = ['0', '1', '-1', '0.1', '1.10', '0.1234567890123456789012345', '1E+3', '1.5E+10', '0E-10', '-0', '123456789012345678901234567890.5',
            '1E-7', '0.000001', '0.0000001', '12.345', '-0.00', '1E+30', '9.99E-20', '100', '1E+1', '7E-3']
UUIDS = ['00000000-0000-0000-0000-000000000000', '12345678-1234-5678-1234-567812345678', 'ffffffff-ffff-ffff-ffff-ffffffffffff',
         'deadbeef-dead-beef-dead-beefdeadbeef', '1e5e5e5e-1111-4111-8111-111111111111', '01234567-89ab-cdef-0123-456789abcdef']


def scalars(rng):
    from cassandra import util as U
    t = rng.randrange(16)
    if t == 0:
        return rng.choice([None, True, False])
    if t in (1, 2):
        s = rng.choice(TEXTS) if rng.random() < 0.6 else ''.join(rng.choice("ab'\" ,]}:%\n\\é\U0001d11e") for _ in range(rng.randint(0, 12)))
        if rng.random() < 0.08 and s:
            return str_enum(s)
        return sub(SStr, rng)(s) if rng.random() < 0.4 else s
    if t == 3:
        z = rng.choice(INTS) if rng.random() < 0.6 else rng.randint(-10 ** 12, 10 ** 12)
        if rng.random() < 0.05:
            return int_enum(z)
        return sub(SInt, rng)(z) if rng.random() < 0.3 else z
    if t == 4:
        x = rng.choice(FLOATS) if rng.random() < 0.6 else rng.choice([rng.uniform(-1e6, 1e6), rng.random() * 10 ** rng.randint(-300, 300)])
        return sub(SFloat, rng)(x) if rng.random() < 0.3 else x
    if t == 5:
        d = rng.choice(DECIMALS) if rng.random() < 0.6 else '%s%d.%0*dE%+d' % (rng.choice(['', '-']), rng.randint(0, 10 ** 6), rng.randint(1, 20),
                                                                                rng.randint(0, 10 ** 9), rng.randint(-30, 30))
        return sub(SDecimal, rng)(d) if rng.random() < 0.3 else Decimal(d)
    if t == 6:
        b = bytes(rng.randrange(256) for _ in range(rng.randint(0, 12)))
        return rng.choice([bytes, bytes, bytearray, memoryview, sub(SBytes, rng), sub(SByteArray, rng)])(b)
    if t == 7:
        u = rng.choice(UUIDS) if rng.random() < 0.6 else str(uuid.UUID(int=rng.getrandbits(128)))
        return sub(SUUID, rng)(u) if rng.random() < 0.3 else uuid.UUID(u)
    if t == 8:
        args = (rng.randint(1000, 9999), rng.randint(1, 12), rng.randint(1, 28), rng.randint(0, 23), rng.randint(0, 59), rng.randint(0, 59),
                rng.choice([0, 1, 999, 1000, 500000, 999999, 123456]))
        if rng.random() < 0.2:
            args = (1970, 1, 1, 0, 0, 0, 0)
        cls = sub(SDateTime, rng) if rng.random() < 0.3 else datetime.datetime
        if rng.random() < 0.45:      # timezone-aware: fixed non-zero offsets, UTC, and a tzinfo with DST
            return cls(rng.randint(1971, 2100), *args[1:], tzinfo=rng.choice(TZS))
        return cls(*args)
    if t == 9:
        args = (rng.randint(1000, 9999), rng.randint(1, 12), rng.randint(1, 28))
        return (sub(SDate, rng) if rng.random() < 0.3 else datetime.date)(*args)
    if t == 10:
        args = (rng.randint(0, 23), rng.randint(0, 59), rng.randint(0, 59), rng.choice([0, 0, 1, 999999, 120000]))
        return (sub(STime, rng) if rng.random() < 0.3 else datetime.time)(*args)
    if t == 11:
        return U.Time(rng.choice([0, 1, 86399999999999, rng.randrange(86400 * 10 ** 9)]))
    if t == 12:
        return U.Date(rng.choice([0, 1, -1, 2 ** 31 - 1, -2 ** 31, rng.randint(-10 ** 6, 10 ** 6)]))
    if t == 13:
        if rng.random() < 0.5:
            a = '%d.%d.%d.%d' % tuple(rng.randrange(256) for _ in range(4))
            return sub(SIPv4, rng)(a) if rng.random() < 0.3 else ipaddress.IPv4Address(a)
        return ipaddress.IPv6Address(rng.choice([0, 1, 2 ** 128 - 1, rng.getrandbits(128), rng.getrandbits(32) << 96, 0xffff00000000 | rng.getrandbits(32)]))
    if t == 14:
        return rng.choice(TEXTS)
    return rng.choice(INTS)


def hashable_scalar(rng):
    while True:
        v = scalars(rng)
        if isinstance(v, (bytearray, memoryview)):
            continue
        if isinstance(v, float) and v != v:
            continue
        return v


def value(rng, depth):
    from cassandra import util as U
    from cassandra.encoder import ValueSequence
    if depth == 0 or rng.random() < 0.35:
        return scalars(rng)
    t = rng.randrange(9)
    n = rng.choice([0, 1, 1, 2, 2, 3, 4])
    if t == 0:
        return rng.choice([list, list, sub(SList, rng)])([value(rng, depth - 1) for _ in range(n)])
    if t == 1:
        if rng.random() < 0.15:
            return rng.choice([NT, NT2])(value(rng, depth - 1), value(rng, depth - 1))
        return rng.choice([tuple, tuple, sub(STuple, rng)])([value(rng, depth - 1) for _ in range(n)])
    if t == 2:
        return ValueSequence([value(rng, depth - 1) for _ in range(n)])
    if t in (3, 4):
        elems = [hashable(rng, depth - 1) for _ in range(n)]
        return rng.choice([set, frozenset, sub(SSet, rng), sub(SFrozenSet, rng), set])(elems)
    if t == 5:
        try:
            return U.sortedset([rng.choice(INTS) for _ in range(n)])
        except Exception:
            return set()
    items = [(hashable(rng, depth - 1), value(rng, depth - 1)) for _ in range(n)]
    if t == 6:
        return rng.choice([dict, sub(SDict, rng), OrderedDict, sub(SOrderedDict, rng)])(items)
    if t == 7:
        return dict(items)
    return U.OrderedMap([(k, v) for k, v in items if type(k) in (int, str)][:2])


def hashable(rng, depth):
    if depth > 0 and rng.random() < 0.3:
        n = rng.choice([0, 1, 2])
        if rng.random() < 0.5:
            return rng.choice([tuple, sub(STuple, rng)])([hashable(rng, depth - 1) for _ in range(n)])
        return rng.choice([frozenset, sub(SFrozenSet, rng)])([hashable(rng, depth - 1) for _ in range(n)])
    return hashable_scalar(rng)


def depth_of(v):
    ch = children(v)
    return 0 if not ch and not isinstance(v, (list, tuple, set, frozenset, dict)) else 1 + max([depth_of(c) for c in ch] or [0])


def has_subclass(v, ex):
    return type(v) not in ex or any(has_subclass(c, ex) for c in children(v))


# ---------------------------------------------------------------- the statement on the implementation
def judge_literal(v, lit):
    """None if lit is exactly one CQL term denoting the prepared-path value of v; else (failure class, detail)."""
    r = EO.parse_term(lit)
    if r is None or r[1] != '':
        return 'not-one-term', 'parses as %r' % (r,)
    why = EO.same_value(v, r[0])
    if why is not None:
        return 'different-value', why
    return None


def culprit(v, enc):
    """smallest sub-value whose own literal already fails (so that the key names the responsible type)"""
    for c in children(v):
        try:
            if judge_literal(c, enc.cql_encode_all_types(c)) is not None:
                return culprit(c, enc)
        except Exception:
            return c
    return v


def key_for(v, ex, cls):
    if type(v) in ex:
        how = ''
    elif any(b in ex for b in type(v).__bases__):
        how = '.subclass'
    else:
        how = '.subclass-indirect'      # two or more levels below the supported type, or an Enum mix
    return 'Encoder.%s%s.%s' % (base_name(v), how, cls)


def describe(v):
    r = repr(v)
    return '%s %s' % (type(v).__name__, r if len(r) < 120 else r[:117] + '...')


def load_corpus():
    d = os.path.join(core.VERIF, 'corpus', 'C29')
    out = []
    if os.path.isdir(d):
        for fn in sorted(os.listdir(d)):
            if fn.endswith('.json'):
                with open(os.path.join(d, fn)) as f:
                    out.append(rebuild(json.load(f)['case']['value']))
    return out


def portable(v):
    """JSON description of a generated value (for replays)"""
    from cassandra import util as U
    from cassandra.encoder import ValueSequence
    t = type(v).__name__
    if v is None or isinstance(v, bool):
        return {'t': t, 'v': v}
    if isinstance(v, enum.Enum):
        return {'t': 'StrEnumMember', 'v': [ord(c) for c in str.__str__(v)]} if isinstance(v, str) else {'t': 'IntEnumMember', 'v': str(int(v))}
    if isinstance(v, int):
        return {'t': t, 'v': str(int(v))}
    if isinstance(v, float):
        return {'t': t, 'v': float.hex(v)}
    if isinstance(v, (Decimal, uuid.UUID, ipaddress.IPv4Address, ipaddress.IPv6Address)):
        return {'t': t, 'v': type(v).__mro__[-2].__str__(v) if isinstance(v, Decimal) else str(v)}
    if isinstance(v, str):
        return {'t': t, 'v': [ord(c) for c in v]}
    if isinstance(v, (bytes, bytearray, memoryview)):
        return {'t': t, 'v': list(bytes(v))}
    if isinstance(v, datetime.datetime):
        off = v.utcoffset()
        return {'t': t, 'v': [v.year, v.month, v.day, v.hour, v.minute, v.second, v.microsecond],
                'utcoffset_s': None if off is None else off.total_seconds()}
    if isinstance(v, datetime.date):
        return {'t': t, 'v': [v.year, v.month, v.day]}
    if isinstance(v, datetime.time):
        return {'t': t, 'v': [v.hour, v.minute, v.second, v.microsecond]}
    if isinstance(v, U.Time):
        return {'t': 'util.Time', 'v': v.nanosecond_time}
    if isinstance(v, U.Date):
        return {'t': 'util.Date', 'v': v.days_from_epoch}
    if isinstance(v, (dict, U.OrderedMap)):
        return {'t': t, 'v': [[portable(k), portable(x)] for k, x in v.items()]}
    return {'t': t, 'v': [portable(x) for x in v]}


def rebuild(d):
    from cassandra import util as U
    from cassandra.encoder import ValueSequence
    t, v = d['t'], d['v']
    if t == 'StrEnumMember':
        return str_enum(''.join(chr(c) for c in v))
    if t == 'IntEnumMember':
        return int_enum(int(v))
    cls = {'str': str, 'int': int, 'float': float, 'bytes': bytes, 'bytearray': bytearray, 'memoryview': memoryview, 'list': list,
           'tuple': tuple, 'set': set, 'frozenset': frozenset, 'dict': dict, 'OrderedDict': OrderedDict, 'UUID': uuid.UUID,
           'Decimal': Decimal, 'datetime': datetime.datetime, 'date': datetime.date, 'time': datetime.time,
           'IPv4Address': ipaddress.IPv4Address, 'IPv6Address': ipaddress.IPv6Address, 'ValueSequence': ValueSequence,
           'sortedset': U.sortedset, 'OrderedMap': U.OrderedMap, 'util.Time': U.Time, 'util.Date': U.Date}.get(t) or CLASSES.get(t)
    if t in ('NoneType', 'bool'):
        return v
    if cls is memoryview:
        return memoryview(bytes(v))
    if cls is U.OrderedMap:
        return U.OrderedMap([(rebuild(k), rebuild(x)) for k, x in v])
    if cls in (U.Time, U.Date, U.sortedset, ValueSequence):
        return cls([rebuild(x) for x in v]) if cls in (U.sortedset, ValueSequence) else cls(v)
    if issubclass(cls, int):
        return cls(int(v))
    if issubclass(cls, float):
        return cls(float.fromhex(v))
    if issubclass(cls, str):
        return cls(''.join(chr(c) for c in v))
    if issubclass(cls, (bytes, bytearray)):
        return cls(bytes(v))
    if issubclass(cls, dict):
        return cls([(rebuild(k), rebuild(x)) for k, x in v])
    if issubclass(cls, datetime.datetime):
        off = d.get('utcoffset_s')
        return cls(*v) if off is None else cls(*v, tzinfo=datetime.timezone(datetime.timedelta(seconds=off)))
    if issubclass(cls, (datetime.date, datetime.time)):
        return cls(*v)
    if hasattr(cls, '_fields'):
        return cls(*[rebuild(x) for x in v])
    if issubclass(cls, (list, tuple, set, frozenset)):
        return cls([rebuild(x) for x in v])
    return cls(v)


def evaluate(ctx, v, enc, ex, lits, cases, meta):
    """run the implementation on v, apply the statement, append the correspondence case"""
    from cassandra.query import bind_params
    try:
        lit = enc.cql_encode_all_types(v)
    except Exception as e:
        c = culprit(v, enc)
        ctx.violation(key_for(c, ex, 'raises'), 'Encoder.cql_encode_all_types(%s) raised %r' % (describe(v), e),
                      case={'value': portable(v)}, expected='one CQL term', actual=repr(e), theorem='C29_one_term')
        return
    bad = judge_literal(v, lit)
    if bad is not None:
        c = culprit(v, enc)
        cbad = judge_literal(c, enc.cql_encode_all_types(c)) or bad
        ctx.violation(key_for(c, ex, cbad[0]),
                      'Encoder emits %s as %r: %s (%s)' % (describe(c), enc.cql_encode_all_types(c)[:200], cbad[0], cbad[1][:200]),
                      case={'value': portable(c)}, expected='exactly one CQL term denoting the prepared-path value',
                      actual=enc.cql_encode_all_types(c), theorem='C29_one_term')
    # positional and named substitution: the statement text must be the literal in place, nothing else touched
    pos = bind_params('SELECT * FROM t WHERE a = %s AND b = %s', (v, 1), enc)
    named = bind_params('INSERT INTO t (a, b) VALUES (%(x)s, %(y)s)', {'x': v, 'y': 2}, enc)
    if pos != 'SELECT * FROM t WHERE a = ' + lit + ' AND b = 1' or named != 'INSERT INTO t (a, b) VALUES (' + lit + ', 2)':
        ctx.violation('bind_params.not-in-place', 'bind_params does not put the literal of %s in place: %r / %r' % (describe(v), pos, named),
                      case={'value': portable(v)}, expected='literal substituted in place', actual=[pos, named], theorem='C29_bind_positional')
    ctx.count('type', type(v).__name__)
    ctx.count('depth', str(depth_of(v)))
    sub = has_subclass(v, ex)
    ctx.count('has_subclass', str(sub))
    ctx.case(lit + '|' + type(v).__name__, nontrivial=(sub or depth_of(v) > 0 or any(ch in lit for ch in "'-.x")),
             sample={'value': describe(v), 'literal': lit[:300]})
    try:
        pvl = lits.pv(v, ex)
    except ValueError:
        return
    cases.append('chk %s %s %s %s' % (pvl, LO.zstr(lit), EO.opt_term_lit(EO.parse_term(lit)), 'true' if bad is None else 'false'))
    meta.append((v, lit, 'chk'))
    if len(pvl) < 3000:
        cases.append('chkb [Lit %s; Hole 0; Lit %s; Hole 1; Lit []] [%s; VInt false 1] %s'
                     % (LO.zstr('SELECT * FROM t WHERE a = '), LO.zstr(' AND b = '), pvl, LO.zstr(pos)))
        meta.append((v, pos, 'bind'))


def run(ctx):
    gen(ctx)
    ok = ctx.prove('Props/C29.v')
    if ctx.tier == 'thorough' and ok:
        ctx.coqchk('Props/C29.v')
    if not ok:
        with core.BuildLock():
            core.sh(['timeout', '300', 'make', '-C', core.COQ, 'Model/Encoder.vo'], timeout=330)
    from cassandra.encoder import Encoder
    enc = Encoder()
    ex = exact_types()
    ctx.trust('transcription of the CQL literal-term grammar (coq/Model/Encoder.v part 3; lib/vf/enc_oracle.py is its Python twin, compared '
              'with it on every case and on a malformed stream)',
              'enc_gen: AST reader of Encoder.__init__ / dispatch sites / cql_encode_decimal (fails closed)',
              'prepared-path value = cassandra.cqltypes serialisers (DoubleType, DecimalType, UUIDType, DateType, SimpleDateType, TimeType)',
              'Double.parseDouble(token) = Python float(token) (both correctly rounded); BigDecimal(String) transcribed in read_decimal',
              'Section hypotheses of Props/C29.v (float_parses, float_reads, float_head, decimal_parses, decimal_reads, decimal_head): '
              'laws of Python repr(float) / str(Decimal), exercised on every generated float and Decimal')
    ctx.assume('repr(float) / str(Decimal) parse back (hypotheses float_parses / decimal_parses of Proofs/C29_proofs.v); str(UUID), '
               'strftime("%Y-%m-%d"), str(time), addr.compressed are model inputs and contain no quote',
               'a subclass does not override the methods the encoder calls on it (__str__, strftime, items, __iter__, ...)',
               'dates are generated with year >= 1000 (strftime("%Y") does not zero-pad smaller years on this platform; whether Cassandra '
               'accepts such a date string is not known offline -- evidence only)')
    n = 700 if ctx.tier == 'quick' else 4000
    vals = load_corpus()
    # every scalar pool value plainly and as a subclass, then random nested values
    for s in TEXTS:
        vals += [s, SStr(s), ctx.rng.choice(FAMILY[SStr][2:])(s)] + ([str_enum(s)] if s else [])
    for z in INTS:
        vals += [z, SInt(z), ctx.rng.choice(FAMILY[SInt][2:])(z)]
    for x in FLOATS:
        vals += [x, SFloat(x), ctx.rng.choice(FAMILY[SFloat][2:])(x)]
    for d in DECIMALS:
        vals += [Decimal(d), SDecimal(d), ctx.rng.choice(FAMILY[SDecimal][2:])(d)]
    for u in UUIDS:
        vals += [uuid.UUID(u), SUUID(u), ctx.rng.choice(FAMILY[SUUID][2:])(u)]
    vals += [None, True, False, b'', b'\x00\xff', bytearray(b'ab'), memoryview(b'xyz'), SBytes(b"'"), SByteArray(b'\x01'),
             [], (), set(), {}, SList(), STuple(), SSet(), SFrozenSet(), SDict(), OrderedDict(), [[]], [[[1]]], {1: {2: {3: [4]}}},
             SList(["x' OR 1=1 --"]), [SStr("x' OR 1=1 --")], {SStr('k'): SStr("v'")}, SDict({'a': 1}), STuple((1, 'a')), {frozenset([1]): (1, 2)}]
    # every class of every family (2-/3-level chains, mix-in, diamond) once with an adversarial payload; Enum mixes; namedtuples
    inj = "x' OR 1=1 --"
    for l1, fam in FAMILY.items():
        base = BASES[l1]
        for cls in fam[1:]:
            if issubclass(cls, str):
                vals.append(cls(inj))
            elif issubclass(cls, (bytes, bytearray)):
                vals.append(cls(b"'\x00"))
            elif issubclass(cls, dict):
                vals.append(cls({inj: SStr(inj)}))
            elif issubclass(cls, (list, tuple, set, frozenset)):
                vals.append(cls([inj]))
            elif issubclass(cls, float):
                vals += [cls('inf'), cls(-1.5)]
            elif issubclass(cls, int):
                vals.append(cls(-7))
            elif issubclass(cls, Decimal):
                vals.append(cls('1.10'))
            elif issubclass(cls, uuid.UUID):
                vals.append(cls(UUIDS[1]))
            elif issubclass(cls, datetime.datetime):
                vals += [cls(2020, 6, 1, 12, 0, 0), cls(2020, 6, 1, 12, 0, 0, tzinfo=TZS[0])]
            elif issubclass(cls, datetime.date):
                vals.append(cls(2020, 6, 1))
            elif issubclass(cls, datetime.time):
                vals.append(cls(12, 30, 1))
            elif issubclass(cls, ipaddress.IPv4Address):
                vals.append(cls('10.0.0.1'))
    vals += [str_enum(inj), int_enum(5), NT(1, inj), NT2(inj, 2), [str_enum("a'b")], {str_enum('k'): NT2(1, 2)}]
    for tz in TZS:      # timezone-aware datetimes: the literal must be the UTC instant the prepared path sends
        vals += [datetime.datetime(2021, 1, 15, 10, 30, 0, 123000, tzinfo=tz), datetime.datetime(2021, 7, 15, 23, 59, 59, tzinfo=tz),
                 SDateTime(1999, 12, 31, 23, 0, 0, tzinfo=tz)]
    for _ in range(n):
        vals.append(value(ctx.rng, 3))
    ctx.rule = ('pools of adversarial texts / boundary ints / floats (inf, nan, subnormal, max) / decimals / uuids, each plainly and as an '
                'instance of a subclass; every class of 1-/2-/3-level chains, mix-in and diamond subclasses of each subclassable type, StrEnum/IntEnum '
                'members, namedtuple (sub)classes; naive and timezone-aware datetimes (fixed offsets, DST tzinfo); %d random values nested to depth '
                '<= 3 over all of these; each substituted positionally and by name through bind_params; plus a malformed-literal stream for the parser twins. '
                'non-trivial = distinct (literal, type) that involves a subclass, nesting, or quoting/sign/point/hex' % n)
    ctx.exhaustive = False
    lits = Lits()
    cases, meta = [], []
    for v in vals:
        evaluate(ctx, v, enc, ex, lits, cases, meta)
    # malformed stream: the Coq parser and the Python twin must agree on arbitrary text too
    alpha = list("0123456789abcdefxXeE+-.'\"[]{}(),: \nNULtrueFALSEnaInfinity_;%")
    for _ in range(400 if ctx.tier == 'quick' else 2000):
        if ctx.rng.random() < 0.5 and meta:
            s = list(ctx.rng.choice(meta)[1][:60])
            for _ in range(ctx.rng.randint(1, 3)):
                p = ctx.rng.randrange(len(s) + 1)
                if s and ctx.rng.random() < 0.5:
                    del s[min(p, len(s) - 1)]
                else:
                    s.insert(p, ctx.rng.choice(alpha))
            s = ''.join(s)
        else:
            s = ''.join(ctx.rng.choice(alpha) for _ in range(ctx.rng.randint(0, 24)))
        cases.append('chkp %s %s' % (LO.zstr(s), EO.opt_term_lit(EO.parse_term(s))))
        meta.append((None, s, 'parser'))
        ctx.count('malformed_stream', 'accepted' if EO.parse_term(s) else 'rejected')
    if any(x[0].startswith('translate:') for x in ctx.proof_broken):
        return
    try:
        bad = ctx.coq_filter(['CqlKeywords', 'CqlLex', 'EncoderTable', 'Encoder'], '(fun b : bool => b)', cases, shard=150, prelude=lits.prelude())
    except RuntimeError as e:
        ctx.proof_broken.append(('correspondence:Encoder', str(e)[-800:]))
        return
    for i in bad[:10]:
        v, lit, kind = meta[i]
        ctx.disagreement('model-vs-impl.%s' % kind,
                         'Model/Encoder.v differs (%s) at %s: implementation %r' % (kind, describe(v) if kind != 'parser' else 'text', lit[:300]),
                         case={'value': portable(v)} if kind != 'parser' else {'text': [ord(c) for c in lit]}, actual=lit, model=cases[i][:1500])


def replay(ctx, rp):
    from cassandra.encoder import Encoder
    case = rp.get('case')
    if not case or 'value' not in case:
        print('nothing to replay (kind=%s): %s' % (rp.get('kind'), rp.get('theorem')))
        return 1
    v = rebuild(case['value'])
    enc = Encoder()
    try:
        lit = enc.cql_encode_all_types(v)
    except Exception as e:
        print('replay: Encoder raised %r on %s' % (e, describe(v)))
        print('VIOLATION property=C29 replay=%s' % ctx.replay_path)
        return 1
    bad = judge_literal(v, lit)
    print('replay: %s -> %r : %s' % (describe(v), lit, 'one term, same value' if bad is None else '%s (%s)' % bad))
    print(('VIOLATION property=C29 replay=%s' % ctx.replay_path) if bad else 'not reproduced')
    return 1 if bad else 0
