"""C13 -- replacing an overloaded connection never abandons live requests.

Same model (Model/Pool.v) and harness as C12; histories are the same generator (thresholds 1..3 so replacement is
frequent).  Oracle on the implementation: every close() issued from return_connection's trash branch or from
_replace while the pool is open happens with zero non-orphaned streams outstanding on that connection; borrow after
a finished replacement returns a newer connection (checked through the model comparison of borrow results).
"""
from vf import pool_check

META = {
    'technique': 'Coq proof (inductive invariant) on Model/Pool.v + region-level differential execution against the real HostConnection',
    'level_text': 'C13_new_requests_move, C13_no_close_while_live, C13_eventually_closed proved for every sequence of atomic steps of '
                  'Model/Pool.v; tied to cassandra/pool.py by correspondence after every region (close() calls recorded with the live count).',
    'level_note': 'Trusted: Coq kernel; harness; atomicity granularity. "eventually" is stated as: replaced, no live stream and no '
                  'return_connection call in progress => closed. Not modelled: blocking waits, real threads.',
    'design_ref': 'DESIGN.md section 4 C13, Appendix A.2',
}


def mine(key, theorem):
    return theorem in ('C13_no_close_while_live', 'C13_eventually_closed', 'C13_new_requests_move', 'C13_replacement_not_abandoned', 'harness')


def run(ctx):
    pool_check.run_pool_check(ctx, 'C13', 240, 3000, 'Props/C13.v', mine)


def replay(ctx, rp):
    return pool_check.replay_pool(ctx, rp, mine)
