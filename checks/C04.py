"""C04 -- response frames decode to exactly what the server sent.

Proof: coq/Props/C04.v (C04_decode for every well-formed response outside three refuted classes, C04_exceptions,
C04_full_refuted + one refutation theorem per class).  Tie (C): responses of every kind x metadata-flag combination x
tracing/warnings/payload combination x protocol version are laid out by the spec encoder, decoded by the REAL
cassandra.protocol._ProtocolHandler.decode_message and by the Coq model; both results, the Python twins of the spec
encoder / of `exact`, and well-formedness are compared inside Coq for every case.  A malformed stream (truncated and
structurally invalid bodies) must be accepted/rejected identically by model and implementation.
"""
import json, os

from vf import core
from vf import resp_spec as S
from vf import resp_gen as G
from vf import resp_impl as I

META = {
    'technique': 'Coq proof (parser-combinator round trips, unbounded sizes) of a driver-shaped decoder against an independent '
                 'spec encoder + differential execution of the real decode_message and the model on spec-encoded frames',
    'level_text': 'C04_decode: for every protocol version, every response well-formed under the native-protocol spec (RESULT void/rows/'
                  'set_keyspace/prepared/schema_change with every metadata flag, every ERROR code, EVENT, SUPPORTED, READY, AUTHENTICATE, '
                  'AUTH_CHALLENGE, AUTH_SUCCESS; any tracing id / warnings / custom payload; any sizes) outside three refuted classes, '
                  'the model of _ProtocolHandler.decode_message returns exactly the contents; C04_exceptions: to_exception gives the '
                  'documented exception with its fields. The model is compared with the real decoder on every generated case.',
    'level_note': 'Partial: C04_full_statement is refuted (AUTH_SUCCESS binary token, CAS_WRITE_UNKNOWN, v5 Write_timeout contentions). '
                  'Trusted: Coq kernel; my transcription of the protocol spec (Model/ResponseSpec.v); the correspondence harness; '
                  'Python str <-> UTF-8 bytes; io.BytesIO/struct. Row cells stay raw (C01); custom class names are plain names (C28); '
                  'NumpyParser/Cython row parsers, unknown-flag logging not covered.',
    'design_ref': 'DESIGN.md section 4, C04',
}

REQ = ['Response', 'ResponseSpec', 'ResponseEq']


# ------------------------------------------------------------------------------------------------ JSON <-> terms
def tj(t):
    if isinstance(t, (bytes, bytearray)):
        return {'b': bytes(t).hex()}
    if isinstance(t, tuple):
        return {'t': [tj(x) for x in t]}
    if isinstance(t, list):
        return [tj(x) for x in t]
    return t


def jt(j):
    if isinstance(j, dict) and 'b' in j:
        return bytes.fromhex(j['b'])
    if isinstance(j, dict) and 't' in j:
        return tuple(jt(x) for x in j['t'])
    if isinstance(j, list):
        return [jt(x) for x in j]
    return j


def all_blob(rm_term, body):
    """rows whose columns are all blobs go through the default handler (cells decoded by BytesType = raw)"""
    if body[0] != 'RResult' or body[1][0] != 'ResRows':
        return False
    cols = body[1][1][3]
    if cols[0] == 'McSome':
        cl = S.cols_list(cols[1])
    else:
        cl = rm_term[1] if rm_term is not None else []
    return bool(cl) and all(c[4] == ('TPrim', 3) for c in cl)


def run_impl(pv, rm, stream, flags, opcode, body, raw=True, want_exn=False, server_message=b''):
    """-> (impl term or None, note, exn term or None, exn note)"""
    st, m = I.decode(pv, rm, stream, flags, opcode, body, raw=raw)
    if st == 'raise':
        return None, 'raised %s: %s' % (type(m).__name__, str(m)[:120]), None, None
    try:
        term = I.canon_msg(m)
    except I.Uncanonical as e:
        return ('Uncanonical', str(e)), 'uncanonical: %s' % e, None, None
    xt, xn = None, None
    if want_exn:
        try:
            exc = m.to_exception()
            xt = I.canon_exn(m, exc, server_message)
        except I.Uncanonical as e:
            xt, xn = ('Uncanonical', str(e)), 'uncanonical: %s' % e
        except Exception as e:
            xt, xn = None, 'to_exception raised %s: %s' % (type(e).__name__, str(e)[:120])
    return term, None, xt, xn


def is_uncanon(t):
    return isinstance(t, tuple) and t and t[0] == 'Uncanonical'


def handmade(pv):
    """structurally invalid or unusual bodies: (name, flags, opcode, body, rm)"""
    e = S
    out = []
    add = lambda n, f, o, b, rm=None: out.append((n, f, o, b, rm))
    add('unknown-opcode', 0, 0x7F, b'')
    add('request-opcode-query', 0, 0x07, e.enc_int(3) + b'abc')
    add('request-opcode-startup', 0, 0x01, e.enc_short(0))
    add('result-kind-6', 0, 8, e.enc_int(6))
    add('result-kind-0', 0, 8, e.enc_int(0))
    add('type-code-unknown', 0, 8, e.enc_int(2) + e.enc_int(0) + e.enc_int(1) + e.enc_string(b'k') + e.enc_string(b't') + e.enc_string(b'c')
        + e.enc_short(0x16) + e.enc_int(0))
    add('type-code-0x23', 0, 8, e.enc_int(2) + e.enc_int(1) + e.enc_int(1) + e.enc_string(b'k') + e.enc_string(b't') + e.enc_string(b'c')
        + e.enc_short(0x23) + e.enc_int(0))
    add('udt-zero-fields', 0, 8, e.enc_int(2) + e.enc_int(1) + e.enc_int(1) + e.enc_string(b'k') + e.enc_string(b't') + e.enc_string(b'c')
        + e.enc_short(0x30) + e.enc_string(b'k') + e.enc_string(b'u') + e.enc_short(0) + e.enc_int(0))
    add('custom-empty-name', 0, 8, e.enc_int(2) + e.enc_int(1) + e.enc_int(1) + e.enc_string(b'k') + e.enc_string(b't') + e.enc_string(b'c')
        + e.enc_short(0) + e.enc_string(b'') + e.enc_int(0))
    add('rows-zero-columns-zero-rows', 0, 8, e.enc_int(2) + e.enc_int(0) + e.enc_int(0) + e.enc_int(0))
    add('rows-zero-columns-one-row', 0, 8, e.enc_int(2) + e.enc_int(0) + e.enc_int(0) + e.enc_int(1))
    add('rows-zero-columns-with-known-metadata', 0, 8, e.enc_int(2) + e.enc_int(0) + e.enc_int(0) + e.enc_int(1) + e.enc_bytes(('Some', b'z')),
        ('Some', [('mkcol', b'k', b't', b'c', ('TPrim', 3))]))
    add('rows-no-metadata-unknown', 0, 8, e.enc_int(2) + e.enc_int(4) + e.enc_int(1) + e.enc_int(0))
    add('rows-negative-rowcount', 0, 8, e.enc_int(2) + e.enc_int(1) + e.enc_int(1) + e.enc_string(b'k') + e.enc_string(b't') + e.enc_string(b'c')
        + e.enc_short(9) + e.enc_int(-3))
    add('rows-negative-colcount', 0, 8, e.enc_int(2) + e.enc_int(0) + e.enc_int(-1) + e.enc_int(0), ('Some', []))
    add('rows-continuous-paging-flags', 0, 8, e.enc_int(2) + e.enc_int(0x40000001) + e.enc_int(1) + e.enc_int(7)
        + e.enc_string(b'k') + e.enc_string(b't') + e.enc_string(b'c') + e.enc_short(3) + e.enc_int(1) + e.enc_bytes(('Some', b'v')))
    add('rows-continuous-paging-last', 0, 8, e.enc_int(2) + e.enc_int(-0x40000000) + e.enc_int(1) + e.enc_int(7)
        + e.enc_string(b'k') + e.enc_string(b't') + e.enc_string(b'c') + e.enc_short(3) + e.enc_int(0))
    add('event-unknown-type', 0, 12, e.enc_string(b'FOO_CHANGE') + e.enc_string(b'x'))
    add('event-lowercase-type', 0, 12, e.enc_string(b'status_change') + e.enc_string(b'UP') + e.enc_inetaddr(b'\x7f\x00\x00\x01') + e.enc_int(9042))
    add('event-bad-inet-size', 0, 12, e.enc_string(b'STATUS_CHANGE') + e.enc_string(b'UP') + bytes([5]) + b'\x7f\x00\x00\x01\x02' + e.enc_int(9042))
    add('event-inet-size-negative', 0, 12, e.enc_string(b'STATUS_CHANGE') + e.enc_string(b'UP') + bytes([0xFC]) + b'\x7f\x00\x00\x01' + e.enc_int(9042))
    add('schema-change-unknown-target', 0, 12, e.enc_string(b'SCHEMA_CHANGE') + e.enc_string(b'CREATED') + e.enc_string(b'INDEX')
        + e.enc_string(b'ks') + e.enc_string(b'idx'))
    add('error-unknown-code', 0, 0, e.enc_int(0x7777) + e.enc_string(b'm') + b'trailing')
    add('error-client-write', 0, 0, e.enc_int(0x8000) + e.enc_string(b'm'))
    add('error-negative-code', 0, 0, e.enc_int(-1) + e.enc_string(b'm'))
    add('error-write-type-unknown', 0, 0, e.enc_int(0x1100) + e.enc_string(b'm') + e.enc_short(1) + e.enc_int(1) + e.enc_int(2) + e.enc_string(b'FOO'))
    add('error-write-type-lowercase', 0, 0, e.enc_int(0x1100) + e.enc_string(b'm') + e.enc_short(1) + e.enc_int(1) + e.enc_int(2) + e.enc_string(b'simple'))
    add('error-invalid-utf8-message', 0, 0, e.enc_int(0) + e.enc_short(2) + b'\xc3\x28')
    add('error-reason-map-duplicate-endpoint', 0, 0, e.enc_int(0x1300) + e.enc_string(b'm') + e.enc_short(1) + e.enc_int(1) + e.enc_int(2)
        + (e.enc_int(2) + e.enc_inetaddr(b'\x01\x02\x03\x04') + e.enc_short(1) + e.enc_inetaddr(b'\x01\x02\x03\x04') + e.enc_short(2)
           if pv >= 5 else e.enc_int(2)) + b'\x01')
    add('supported-without-cql-version', 0, 6, e.enc_short(1) + e.enc_string(b'COMPRESSION') + e.enc_string_list([b'lz4']))
    add('supported-duplicate-key', 0, 6, e.enc_short(3) + e.enc_string(b'A') + e.enc_string_list([b'1']) + e.enc_string(b'CQL_VERSION')
        + e.enc_string_list([b'3']) + e.enc_string(b'A') + e.enc_string_list([b'2']))
    add('payload-duplicate-key', 4, 2, e.enc_short(2) + e.enc_string(b'k') + e.enc_bytes(('Some', b'1')) + e.enc_string(b'k') + e.enc_bytes(None))
    add('compressed-flag', 1, 2, b'')
    add('beta-flag', 0x10, 2, b'')
    add('unknown-flags', 0xE0, 2, b'')
    add('tracing-short-uuid', 2, 2, b'\x01\x02\x03')
    add('value-length-minus-2', 0, 8, e.enc_int(2) + e.enc_int(1) + e.enc_int(1) + e.enc_string(b'k') + e.enc_string(b't') + e.enc_string(b'c')
        + e.enc_short(3) + e.enc_int(1) + e.enc_int(-2))
    add('auth-challenge-length-minus-5', 0, 14, e.enc_int(-5) + b'rest')
    add('auth-success-null-then-garbage', 0, 16, e.enc_int(-1) + b'rest')
    add('ready-with-trailing-bytes', 0, 2, b'junk')
    add('prepared-empty', 0, 8, e.enc_int(4))
    return out


def par_filter(ctx, cases):
    """ctx.coq_filter with every case as its own Definition (coqc elaborates one big list literal ~8x slower), one coqc
    per shard, shards in parallel (each through core's coq_filter on a private scratch directory)."""
    import copy
    from concurrent.futures import ThreadPoolExecutor
    if not cases:
        return []
    n = max(1, min(core.JOBS * (1 if len(cases) < 6000 else 3), (len(cases) + 39) // 40))
    size = (len(cases) + n - 1) // n
    shards = [(k, cases[k:k + size]) for k in range(0, len(cases), size)]

    def work(args):
        k, sc = args
        c = copy.copy(ctx)
        c.scratch = os.path.join(ctx.scratch, 'shard%d' % k)
        os.makedirs(c.scratch, exist_ok=True)
        prelude = '\n'.join('Definition c%d_ := %s.' % (i, t) for i, t in enumerate(sc))
        bad = c.coq_filter(REQ, '(fun z : Z => z =? 0)', ['c%d_' % i for i in range(len(sc))], shard=len(sc) + 1, prelude=prelude,
                           timeout=600 if ctx.tier == 'quick' else 3000)
        return [k + i for i in bad]
    ctx.trust('correspondence harness: generated cases.v evaluated with vm_compute by coqc')
    with ThreadPoolExecutor(max_workers=core.JOBS) as ex:
        res = list(ex.map(work, shards))
    return sorted(i for r in res for i in r)


def run(ctx):
    ok = ctx.prove('Props/C04.v')
    if ctx.tier == 'thorough' and ok:
        ctx.coqchk('Props/C04.v')
    ctx.trust('transcription of the native protocol v1-v5 response layouts in coq/Model/ResponseSpec.v (from memory; no spec offline)',
              'DSE_V1/DSE_V2 layout features taken from the driver\'s ProtocolVersion table',
              'Python str <-> UTF-8 bytes bijection (strings are compared as their UTF-8 bytes); io.BytesIO.read, struct, socket.inet_ntop/pton',
              'canonicalisation of driver objects (lib/vf/resp_impl.py) and ResponseEq.v boolean equalities')
    ctx.assume('row cells are compared raw (a column-encryption-policy shaped hook keeps them undecoded; all-blob rows use the default handler): value decoding is C01',
               'custom column types carry a plain class name; parameterised class names are C28',
               'a null AUTH_CHALLENGE / AUTH_SUCCESS token and an empty one are the same content',
               'a Rows result has at least one column')
    g = G.Gen(ctx.rng)
    quick = ctx.tier == 'quick'
    per_kind = 2 if quick else 8
    inst = 1 if quick else 2
    cases, meta = [], []            # Gallina terms of type Z ; meta for diagnosis
    wf_cases = []

    def coq_case_wf(pv, rm, stream, r, gapkey, flags, opcode, body, expected, docx, impl, implx):
        pool = {}
        gl = lambda t: S.gal(t, pool)
        it = None if impl is None else ('Some', impl)
        shared = impl == expected
        parts = ['chk %d %s %s %s %s %d %d %s' % (pv, gl(rm), gl(stream), gl(r), 'true' if gapkey else 'false', flags, opcode, gl(bytes(body)))]
        parts.append('e_' if shared else gl(expected))
        parts.append(gl(None if docx is None else ('Some', docx)))
        parts.append('(Some e_)' if shared else gl(it))
        parts.append(gl(None if implx is None else ('Some', implx)))
        s = ' '.join(parts)
        if shared:
            s = 'let e_ := %s in %s' % (gl(expected), s)
        return S.with_pool(pool, s)

    def one_wf(pv, name, body, rm, combo, history=None):
        trace, warnings, payload = g.extras(combo)
        r = ('mkresp', trace, warnings, payload, body)
        stream = ctx.rng.choice([0, 1, 127, 300, 32767, -1])
        flags, opcode, bts = S.spec_frame(pv, r)
        expected = S.exact(pv, rm, stream, r)
        gapkey = S.driver_gap(r)
        is_err = body[0] == 'RError'
        docx = S.documented_exception(body[1], body[2]) if is_err else None
        raw = not all_blob(rm, body)
        impl, note, xt, xnote = run_impl(pv, rm, stream, flags, opcode, bts, raw=raw, want_exn=is_err,
                                         server_message=body[2] if is_err else b'')
        case = {'pv': pv, 'kind': name, 'stream': stream, 'flags': flags, 'opcode': opcode, 'body': bts.hex(),
                'rm': tj(rm), 'raw_cells': raw}
        if history:
            case['history'] = list(history)       # frames decoded earlier by the same process (leftover state)
        info = dict(case, impl=impl)
        ctx.case([pv, flags, opcode, bts.hex(), tj(rm), [h['body'] for h in history or []]], nontrivial=len(bts) > 0,
                 sample={'pv': pv, 'kind': name, 'flags': flags, 'opcode': opcode, 'body_hex': bts.hex()[:160], 'decoded': repr(impl)[:300]})
        ctx.count('kind', name.split('.')[0] + '.' + (name.split('.')[1] if '.' in name else ''))
        ctx.count('version', str(pv))
        ctx.count('frame_extras', 'trace%d.warn%d.payload%d' % combo)
        ctx.count('body_len', '<16' if len(bts) < 16 else '<64' if len(bts) < 64 else '<256' if len(bts) < 256 else '>=256')
        base = '.'.join(name.split('.')[:2])
        if history:
            base += '.after_earlier_frames'
        # ---- the property itself on the implementation
        if impl != expected:
            key = gapkey or (base + ('.raised' if impl is None else '.contents'))
            ctx.violation(key, '%s at v%d: decode_message %s, the server sent %s' % (
                name, pv, note or ('returned ' + repr(impl)[:200]), repr(expected)[:200]),
                case=dict(case, expected=tj(expected)), expected=repr(expected)[:600], actual=note or repr(impl)[:600], theorem='C04_decode')
        elif is_err and xt != docx:
            key = gapkey or ('to_exception.' + base)
            ctx.violation(key, '%s at v%d: to_exception gave %s, documented %s' % (name, pv, xnote or repr(xt)[:200], repr(docx)[:200]),
                          case=dict(case, expected=tj(expected), expected_exception=tj(docx)), expected=repr(docx)[:600],
                          actual=xnote or repr(xt)[:600], theorem='C04_exceptions')
        if is_uncanon(impl) or is_uncanon(xt):
            ctx.disagreement('uncanonical.' + base, '%s at v%d: %s' % (name, pv, note or xnote), case=case, actual=note or xnote)
            return info
        cases.append(coq_case_wf(pv, rm, stream, r, gapkey, flags, opcode, bts, expected, docx, impl, xt))
        meta.append(('wf', name, case, impl, expected))
        wf_cases.append((pv, rm, stream, flags, opcode, bts, raw, name))
        return info

    def one_raw(pv, name, rm, stream, flags, opcode, bts, raw=True):
        impl, note, _, _ = run_impl(pv, rm, stream, flags, opcode, bts, raw=raw)
        case = {'pv': pv, 'kind': name, 'stream': stream, 'flags': flags, 'opcode': opcode, 'body': bytes(bts).hex(), 'rm': tj(rm), 'raw_cells': raw}
        ctx.case([pv, flags, opcode, bytes(bts).hex(), tj(rm)], nontrivial=True)
        ctx.count('malformed', 'rejected' if impl is None else 'accepted')
        ctx.count('kind', 'malformed.' + name.split(':')[0])
        if is_uncanon(impl):
            # accepted garbage the message type cannot express (e.g. a non-ASCII schema target): outside the model
            ctx.count('malformed', 'uncanonical-skipped')
            return
        pool = {}
        cases.append(S.with_pool(pool, 'chk_raw %d %s %s %d %d %s %s' % (pv, S.gal(rm, pool), S.gal(stream), flags, opcode, S.gal(bytes(bts), pool),
                                                                         S.gal(None if impl is None else ('Some', impl), pool))))
        meta.append(('raw', name, case, impl, None))

    # corpus first: witnesses of the refutation theorems (and any minimised past failure), on the implementation only
    cdir = os.path.join(core.VERIF, 'corpus', 'C04')
    for fn in sorted(os.listdir(cdir)) if os.path.isdir(cdir) else []:
        with open(os.path.join(cdir, fn)) as fh:
            rp = json.load(fh)
        c = rp['case']
        impl, note, _, _ = run_impl(c['pv'], jt(c.get('rm')), c['stream'], c['flags'], c['opcode'], bytes.fromhex(c['body']), raw=c.get('raw_cells', True))
        ctx.case(['corpus', fn], nontrivial=True)
        ctx.count('kind', 'corpus.')
        if impl != jt(c['expected']):
            ctx.violation(rp['key'], 'corpus/C04/%s: decode_message %s, the server sent %s' % (fn, note or 'returned ' + repr(impl)[:200], repr(jt(c['expected']))[:200]),
                          case=c, expected=repr(jt(c['expected']))[:600], actual=note or repr(impl)[:600], theorem=rp.get('theorem'))

    for pv in G.VERSIONS:
        for name, thunk in g.kinds(pv):
            combos = list(G.COMBOS) if not quick else [ctx.rng.choice(G.COMBOS) for _ in range(per_kind)]
            for combo in combos:
                for _ in range(inst):
                    body, rm = thunk()
                    one_wf(pv, name, body, rm, combo)
    # histories: state left behind by earlier frames of the same process (the UDT class cache behind read_type)
    uid = ctx.rng.randrange(10 ** 6) * 1000
    nh = 0
    for pv in G.VERSIONS:
        for _ in range(4 if quick else 25):
            uid += 1
            hname, frames = g.udt_history(pv, uid)
            infos = []
            for k, (body, rm) in enumerate(frames):
                hist = [{x: i[x] for x in ('pv', 'rm', 'stream', 'flags', 'opcode', 'body', 'raw_cells')} for i in infos]
                infos.append(one_wf(pv, 'RESULT.' + hname + '.frame%d' % k, body, rm, ctx.rng.choice(G.COMBOS), history=hist))
            ctx.count('kind', 'history.udt_redefined')
            if any(is_uncanon(i['impl']) for i in infos):
                continue
            pool = {}
            fr = '[%s]' % '; '.join('mkframe %d %s %s %d %d %s' % (i['pv'], S.gal(jt(i['rm']), pool), S.gal(i['stream']), i['flags'], i['opcode'],
                                                                 S.gal(bytes.fromhex(i['body']), pool)) for i in infos)
            im = S.gal([None if i['impl'] is None else ('Some', i['impl']) for i in infos], pool)
            cases.append(S.with_pool(pool, 'chk_hist %s %s' % (fr, im)))
            meta.append(('hist', 'RESULT.' + hname, dict(infos[-1], history=[{x: i[x] for x in ('pv', 'rm', 'stream', 'flags', 'opcode', 'body', 'raw_cells')} for i in infos[:-1]],
                                                          impl=None), [i['impl'] for i in infos], None))
            nh += 1
    ctx.extra['histories'] = nh
    # malformed stream: truncations of well-formed bodies + hand-made invalid bodies
    nsrc = 200 if quick else 1000
    srcs = list(wf_cases)
    ctx.rng.shuffle(srcs)
    for (pv, rm, stream, flags, opcode, bts, raw, name) in srcs[:nsrc]:
        for t in G.truncations(ctx.rng, bts, 3 if quick else 12):
            one_raw(pv, 'truncated:' + name, rm, stream, flags, opcode, t, raw)
    for pv in (G.VERSIONS if not quick else [2, 4, 5, 65]):
        for (name, flags, opcode, bts, rm) in handmade(pv):
            one_raw(pv, 'handmade:' + name, rm, 5, flags, opcode, bts)
    ctx.exhaustive = False
    ctx.rule = ('per protocol version (1,2,3,4,5,6,65,66) every response kind that exists there (RESULT void/set_keyspace/rows x '
                '{global_tables_spec,has_more_pages,no_metadata,metadata_changed}/prepared x {global spec, result-metadata flags}/'
                'schema_change x target; every ERROR code; EVENT x3 (+5 schema targets); SUPPORTED; READY; AUTHENTICATE; AUTH_CHALLENGE; '
                'AUTH_SUCCESS) x %s tracing/warnings/payload combinations, random contents from boundary pools; plus truncations of those '
                'bodies and hand-made invalid bodies; plus 3-frame histories of one process in which a UDT (same keyspace, name, field names) is re-described with other field types (rows / nested / prepared bind / prepared result), checked against the stateful model. distinct = distinct (version, flags, opcode, body, result_metadata); '
                'non-trivial = non-empty body' % ('2 random' if quick else 'all 8'))
    # ---- model vs implementation (and validation of the Python twins), inside Coq
    try:
        bad = par_filter(ctx, cases)
    except RuntimeError as e:
        ctx.proof_broken.append(('correspondence:Response', str(e)[-900:]))
        ctx.extra['coq_error'] = str(e)[-2500:]
        bad = []
    if bad:
        try:
            codes = ctx.coq_eval(REQ, [cases[i] for i in bad[:12]])
        except RuntimeError as e:
            codes = ['?'] * len(bad[:12])
        for i, code in zip(bad[:12], codes):
            kind, name, case, impl, expected = meta[i]
            code = code.strip()
            if code == '6':
                ctx.disagreement('model-vs-impl.history', 'stateful model (UDT class cache) differs from the implementation over the frame history %s v%d: impl %s' % (
                    name, case['pv'], repr(impl)[:400]), case={k: v for k, v in case.items() if k != 'impl'}, actual=repr(impl)[:800])
            elif code in ('1', '2', '3'):
                ctx.proof_broken.append(('harness:spec-twin', 'chk code %s (1 generator not wf, 2 encoder twin, 3 exact twin) at %s v%s' % (code, name, case['pv'])))
            else:
                model = None
                try:
                    model = ctx.coq_eval(REQ, ['decode_message %d %s %s %d %d %s' % (
                        case['pv'], S.gal(jt(case['rm'])), S.gal(case['stream']), case['flags'], case['opcode'], S.gal(bytes.fromhex(case['body'])))])[0][:700]
                except RuntimeError:
                    pass
                ctx.disagreement('model-vs-impl.' + name.split(':')[0], 'model %s differs from the implementation at %s v%d (chk code %s): impl %s' % (
                    'decode_message' if code == '4' else 'to_exception', name, case['pv'], code, repr(impl)[:300]),
                    case=case, actual=repr(impl)[:800], model=model)
    ctx.extra['coq_cases'] = len(cases)


def replay(ctx, rp):
    case = rp.get('case')
    if not case or 'body' not in case:
        print('nothing to replay: %s' % rp.get('theorem'))
        return 1
    rm = jt(case.get('rm'))
    bts = bytes.fromhex(case['body'])
    for h in case.get('history') or []:      # frames the same process decoded before (they leave classes in UserType._cache)
        hi, hn, _, _ = run_impl(h['pv'], jt(h.get('rm')), h['stream'], h['flags'], h['opcode'], bytes.fromhex(h['body']), raw=h.get('raw_cells', True))
        print('  earlier frame v%d opcode=%d body=%s -> %s' % (h['pv'], h['opcode'], h['body'][:60], hn or 'decoded'))
    is_err = case['opcode'] == 0
    impl, note, xt, xnote = run_impl(case['pv'], rm, case['stream'], case['flags'], case['opcode'], bts, raw=case.get('raw_cells', True),
                                     want_exn=is_err and 'expected_exception' in case,
                                     server_message=b'')
    print('replay %s v%d flags=%d opcode=%d body=%s' % (case.get('kind'), case['pv'], case['flags'], case['opcode'], case['body'][:120]))
    print('  implementation: %s' % (note or repr(impl)[:600]))
    bad = False
    if 'expected' in case:
        expected = jt(case['expected'])
        print('  server sent   : %s' % repr(expected)[:600])
        bad = impl != expected
    if not bad and 'expected_exception' in case:
        docx = jt(case['expected_exception'])
        # the text check needs the server message: take it from the expected message body
        m = jt(case['expected'])[5][3] if 'expected' in case else b''
        impl, note, xt, xnote = run_impl(case['pv'], rm, case['stream'], case['flags'], case['opcode'], bts, raw=True, want_exn=True, server_message=m)
        print('  to_exception  : %s ; documented %s' % (xnote or repr(xt)[:300], repr(docx)[:300]))
        bad = xt != docx
    print(('VIOLATION property=C04 replay=%s' % ctx.replay_path) if bad else 'not reproduced')
    return 1 if bad else 0
