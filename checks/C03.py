"""C03 -- request frames conform to the native protocol specification.

Model/Request.v mirrors the *Message.send_body methods and _ProtocolHandler.encode_message; Model/ProtocolSpec.v is an
independent parser of request frames written from the protocol specifications; Props/C03.v proves that whatever the model
encodes is read back by the parser as exactly the requested fields (all field values, unbounded sizes) and that requests
carrying something the version cannot carry are rejected.
Tie: (T) ProtocolVersion predicates and flag/opcode constants are regenerated from source; (C) the real encode_message is
compared byte for byte with the model over message kind x option subsets x versions x value shapes, and the specification
parser is also run (inside Coq) on the DRIVER's bytes, so the theorem's conclusion is observed on the implementation.
"""
import glob, itertools, json, os
from vf import py2coq, core, req_spec
from vf import req_harness as RH

META = {
    'technique': 'Coq proof (parser-combinator round-trip lemmas, all field values) about a driver-shaped encoder vs an independent '
                 'specification parser + byte-exact correspondence with _ProtocolHandler.encode_message + spec parser run on driver bytes',
    'level_text': 'C03_wellformed / C03_header_length / C03_rejects (+ per-class lemmas) proved in Coq for all protocol versions '
                  '1-6, DSE_V1/V2, all request kinds, all option combinations and all field values of unbounded size; the encoder '
                  'model is compared byte for byte with the real encode_message and the specification parser is run on the real bytes.',
    'level_note': 'Trusted: Coq kernel; my transcription of the native protocol v1-v5 request layouts (Model/ProtocolSpec.v); DSE '
                  'continuous-paging layout and flag values taken from the driver; py2coq for ProtocolVersion predicates/constants; '
                  'str.encode(utf8), struct.pack, io.BytesIO, dict ordering are Python\'s. Compression is an abstract function with a left inverse.',
    'design_ref': 'DESIGN.md section 4, C03',
}

MODS = ['PyBase', 'ReqPV', 'ReqConsts', 'ReqWire', 'Request', 'ProtocolSpec', 'ReqCanon', 'ReqHarness']
BITS = {1: 'model-differs', 2: 'not-read-back', 4: 'not-rejected', 8: 'hand-constructed', 16: 'impl-raised', 32: 'unparseable',
        64: 'envelope-differs'}


def gen(ctx):
    ctx.generate('ReqPV.v', lambda: py2coq.Translator(core.REPO, req_spec.fns()).emit())
    ctx.generate('ReqConsts.v', lambda: py2coq.emit_consts(core.REPO, req_spec.consts()))


def generate_cases(ctx):
    rng = ctx.rng
    thorough = ctx.tier == 'thorough'
    cases = []
    reps = 3 if thorough else 1
    for _ in range(reps):
        for pv in RH.VERSIONS:
            # QUERY / EXECUTE: the complete presence lattice of the optional fields
            for bits in itertools.product([0, 1], repeat=6):
                cases.append(RH.gen_envelope(rng, RH.query_like(rng, pv, 'QUERY', bits), plain=0.7))
            for bits in itertools.product([0, 1], repeat=5):
                cases.append(RH.gen_envelope(rng, RH.query_like(rng, pv, 'EXECUTE', bits + (0,)), plain=0.7))
            # BATCH: serial x timestamp x keyspace(None, '', 'ks')
            for serial, ts, ks in itertools.product([0, 1], [0, 1], [None, '', 'ks']):
                cases.append(RH.gen_envelope(rng, RH.gen_batch(rng, pv, serial, ts, ks), plain=0.7))
            # PREPARE: keyspace None / '' / 'ks' / other
            for ks in [None, '', 'ks', rng.choice(RH.STRS)]:
                c = RH.gen_simple(rng, pv, 'PREPARE')
                if ks is not None:
                    c['keyspace'] = RH.H(ks)
                cases.append(RH.gen_envelope(rng, c))
            for kind in ('STARTUP', 'OPTIONS', 'AUTH_RESPONSE', 'CREDENTIALS', 'REGISTER', 'REVISE_REQUEST'):
                for _ in range(4):
                    cases.append(RH.gen_envelope(rng, RH.gen_simple(rng, pv, kind)))
    ctx.exhaustive = True   # the presence lattice above is complete for every version (values are sampled)
    # envelope lattice on a fixed small message: tracing x beta x comp x payload x stream pool
    for pv in RH.VERSIONS:
        for tr, beta, comp, pl in itertools.product([False, True], repeat=4):
            c = RH.gen_simple(rng, pv, rng.choice(['OPTIONS', 'REGISTER', 'PREPARE']))
            c.update({'tracing': tr, 'beta': beta, 'comp': comp, 'stream': rng.choice(RH.STREAMS),
                      'payload': [[RH.H('k'), rng.choice([None, 'ff00'])]] if pl else []})
            cases.append(c)
    # boundary / malformed stream: edge timestamps, falsy values, out-of-range integers, 65535/65536-byte strings
    n_edge = 1500 if thorough else 250
    for _ in range(n_edge):
        pv = rng.choice(RH.VERSIONS)
        r = rng.random()
        if r < 0.3:
            c = RH.query_like(rng, pv, rng.choice(['QUERY', 'EXECUTE']), tuple(rng.random() < 0.4 for _ in range(6)), edge=True)
            if rng.random() < 0.3:
                c['fetch'] = rng.choice([0, -1, 2 ** 31, -2 ** 31, -2 ** 31 - 1])
            if rng.random() < 0.2:
                c['serial'] = 0
            if rng.random() < 0.2:
                c['paging_state'] = ''
            if rng.random() < 0.15:
                c['cl'] = rng.choice([65535, 65536, -1])
            if c['kind'] == 'EXECUTE' and rng.random() < 0.1:
                c['params'] = None
            if c['kind'] == 'EXECUTE' and rng.random() < 0.3:
                c['params'] = RH.gen_values(rng, 4, big=True)
        elif r < 0.5:
            c = RH.gen_batch(rng, pv, rng.random() < 0.5, rng.random() < 0.5, rng.choice([None, None, '', 'ks']), edge=True)
            if rng.random() < 0.1:
                c['batch_type'] = rng.choice([255, 256, -1])
            if rng.random() < 0.15:
                c['serial'] = 0
        elif r < 0.6:
            c = RH.gen_simple(rng, pv, 'PREPARE')
            c['keyspace'] = RH.H(rng.choice(RH.STRS + RH.BIG_STRS))
        elif r < 0.7:
            c = RH.query_like(rng, pv, 'QUERY', (0, 0, 0, 0, 0, 1))
            c['keyspace'] = RH.H(rng.choice(RH.BIG_STRS))
        elif r < 0.8:
            c = RH.gen_simple(rng, pv, 'STARTUP')
            c['options'].append([RH.H(rng.choice(RH.BIG_STRS)), RH.H('v')])
        elif r < 0.9:
            c = RH.gen_simple(rng, pv, 'REVISE_REQUEST')
            c['op_id'] = rng.choice([2 ** 31, -2 ** 31, 2 ** 31 - 1])
        else:
            c = RH.gen_simple(rng, pv, rng.choice(['REGISTER', 'AUTH_RESPONSE', 'CREDENTIALS', 'OPTIONS']))
        cases.append(RH.gen_envelope(rng, c, plain=0.4))
    return cases


def corpus_cases():
    out = []
    for p in sorted(glob.glob(os.path.join(core.VERIF, 'corpus', 'C03', '*.json'))):
        with open(p) as f:
            d = json.load(f)
        out.extend(d if isinstance(d, list) else [d])
    return out


def failure_key(c, code):
    cls = [BITS[b] for b in (2, 4) if code & b]
    if code & 32:
        cls.append('unparseable')
    if code & 64:
        cls.append('envelope')
    pv = c['pv']
    return '%s.v%s.%s.%s' % (c['kind'], hex(pv) if pv > 9 else pv, '+'.join(cls), '+'.join(RH.option_names(c)) or 'plain')


def evaluate(ctx, cases, impls):
    """-> list of verdict codes (check_case) per case, computed inside Coq"""
    terms = [RH.coq_check(c, impl) for c, (impl, _) in zip(cases, impls)]
    bad = ctx.coq_filter(MODS, '(fun c : Z => Z.land c 7 =? 0)', terms, shard=250)
    codes = [0] * len(cases)
    for k in range(0, len(bad), 200):
        idx = bad[k:k + 200]
        res = ctx.coq_eval(MODS, ['[' + '; '.join(terms[i] for i in idx) + ']'])
        vals = [int(x) for x in res[0].strip().strip('[]').replace('%Z', '').split(';') if x.strip()]
        if len(vals) != len(idx):
            raise RuntimeError('cannot parse verdict list: %r' % res[0][:200])
        for i, v in zip(idx, vals):
            codes[i] = v
    return codes


def run(ctx):
    gen(ctx)
    ok = ctx.prove('Props/C03.v')
    if ctx.tier == 'thorough' and ok:
        ctx.coqchk('Props/C03.v')
    # the harness module is outside the cone of Props/C03.v (no theorem uses it): build it here
    with core.BuildLock():
        core.ensure_makefile()
        rc, out = core.sh(['timeout', '600', 'make', '-C', core.COQ, '-j%d' % core.JOBS, 'Model/ReqHarness.vo'], timeout=660)
    if rc != 0:
        ctx.proof_broken.append(('model-build:ReqHarness', out[-800:]))
    cases = corpus_cases() + generate_cases(ctx)
    ctx.rule = ('complete presence lattice of optional fields per request kind and protocol version (values sampled from boundary '
                'pools), envelope lattice (tracing x beta x compression x payload), plus a boundary/malformed stream; '
                'non-trivial = distinct case with at least one optional field, payload or envelope flag present')
    impls = []
    for c in cases:
        impl, exc = RH.impl_encode(c)
        impls.append((impl, exc))
        opts = RH.option_names(c)
        ctx.case(c, nontrivial=bool(opts), sample={'case': c, 'frame': None if impl is None else RH.bj(impl)[:120], 'raised': exc})
        ctx.count('kind', c['kind'])
        ctx.count('version', str(c['pv']))
        ctx.count('result', exc or 'frame')
        ctx.count('n_options', len(opts))
        if impl is not None:
            ctx.count('frame_bytes', '<64' if len(impl) < 64 else '<1k' if len(impl) < 1024 else '<64k' if len(impl) < 65536 else '>=64k')
    ctx.trust('Model/ProtocolSpec.v: my transcription of the native protocol v1-v5 request layouts (DSE extensions taken from the driver)',
              'Python str.encode, struct.pack, io.BytesIO, dict iteration order',
              'harness lib/vf/req_harness.py (case -> driver message, case -> Gallina term)')
    ctx.assume('compression is an arbitrary function with a left inverse (theorem); the correspondence uses a toy compressor',
               'requests outside session_ok (hand-constructed message objects) are reported as evidence, not violations (DESIGN 4.0)')
    try:
        codes = evaluate(ctx, cases, impls)
    except RuntimeError as e:
        ctx.proof_broken.append(('correspondence:Request', str(e)[-800:]))
        return
    hand = {}
    for c, (impl, exc), code in zip(cases, impls, codes):
        small = {k: v for k, v in c.items() if v not in (None, [], False)}
        if code & 6:
            key = failure_key(c, code)
            what = ('%s on protocol %s: %s (options: %s)' % (
                c['kind'], c['pv'],
                'encoded although the version cannot carry a requested option' if code & 4 else
                ('emitted frame is not parseable by the specification parser' if code & 32 else
                 'emitted frame does not read back as the requested fields'),
                ', '.join(RH.option_names(c)) or 'none'))
            if code & 8:
                hand[key] = hand.get(key, 0) + 1
            else:
                ctx.violation(key, what, case=small, expected='specification parser reads back exactly the requested fields, or the request is rejected',
                              actual={'frame': None if impl is None else RH.bj(impl)[:400], 'verdict': code},
                              theorem='C03_rejects' if code & 4 else 'C03_wellformed')
        if code & 1:
            ctx.disagreement('model-vs-impl.%s.v%s' % (c['kind'], c['pv']),
                             'model bytes differ from encode_message for %s' % json.dumps(small)[:300], case=small,
                             actual=None if impl is None else RH.bj(impl)[:400] if impl is not None else exc)
    ctx.extra['hand_constructed_only_nonconformances'] = hand


def replay(ctx, rp):
    c = rp.get('case')
    if not c or 'kind' not in c:
        print('nothing to replay: %s' % rp.get('theorem'))
        return 1
    impl, exc = RH.impl_encode(c)
    print('replay %s -> %s' % (json.dumps(c)[:300], RH.bj(impl)[:200] if impl is not None else 'raised ' + str(exc)))
    res = ctx.coq_eval(MODS, [RH.coq_check(c, impl)])
    code = int(res[0].replace('%Z', '').strip())
    print('verdict bits: %s' % [BITS[b] for b in BITS if code & b])
    bad = bool(code & 6)
    print(('VIOLATION property=C03 replay=%s' % ctx.replay_path) if bad else 'not reproduced')
    return 1 if bad else 0
