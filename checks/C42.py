"""C42 -- node-list refreshes make cluster metadata mirror the system tables.

Coq: Model/NodeList.v (hand-written model of _refresh_node_list_and_token_map and its collaborators), theorems in
Props/C42.v for every state, every snapshot and every sequence of snapshots.
(C) the REAL ControlConnection._refresh_node_list_and_token_map (preloaded results and the wait_for_responses path) on a
never-connected Cluster with a recording listener and a recording load-balancing policy; after EVERY refresh of a
snapshot sequence the hosts (all_hosts() order, dc, rack, host_id), every notification in order, and every
rebuild_token_map call (with the host -> tokens assignment) are compared with the model.
"""
import json, os
from vf import core
from vf import nodes_c42 as N

META = {
    'technique': 'Coq proof (fold invariants over peer rows and over snapshot sequences) on a hand-written model of '
                 'ControlConnection._refresh_node_list_and_token_map + per-refresh correspondence with the real method',
    'level_text': 'C42_exact, C42_inv_seq, C42_exact_seq, C42_valid_spec, C42_added_once, C42_removed_once, C42_location_reaches_lbp, '
                  'C42_token_rebuild_iff_changed, C42_membership_change_rebuilds, C42_live_exact, C42_live_removed_once (nested refreshes on a live control connection) proved for every state with the control node known, every '
                  'snapshot (any number of peer rows, invalid and duplicate rows included) and every snapshot sequence; '
                  'C42_tokens_mirror_refuted / C42_tokens_mirror_partial isolate the open finding (token-only changes).',
    'level_note': 'Tie is correspondence (C). Partial: the clause "token map rebuilt whenever tokens changed" fails for token-only '
                  'changes (open finding C42-2). Not modelled: address translation / SNI endpoints (identity translator), sessions and '
                  'connection pools (none exist), the reconnect when the control node itself is removed, prepared-statement re-preparation, real threads.',
    'design_ref': 'DESIGN.md section 4, C42',
}


def base_peer(a, v2):
    return {'peer': a, 'addr': a, 'port': (9042 if v2 else None), 'host_id': a, 'dc': (a % 2) + 1, 'rack': 1,
            'tokens': [a * 10, a * 10 + 1]}


def gen_row(rng, a, v2, ring):
    r = dict(ring[a])
    r['tokens'] = list(r['tokens'])
    x = rng.random()
    # address forms
    if x < 0.10:
        r['addr'] = 0                     # bind-all -> peer is used
        r['bind6'] = rng.random() < 0.5
    elif x < 0.16:
        r['addr'] = None                  # null -> peer is used
    elif x < 0.20:
        r['peer'] = None                  # no peer column value, address alone
    elif x < 0.23:
        r['peer'] = rng.choice([1, 2, 3, 4, 5])   # peer (listen address) differs from the native address
    if v2:
        y = rng.random()
        if y < 0.08:
            r['port'] = 9043
        elif y < 0.12:
            r['port'] = None
        elif y < 0.15:
            r['port'] = rng.choice([0, -1])
    # invalid rows: each required field missing in turn
    z = rng.random()
    if z < 0.04:
        r['addr'], r['peer'] = rng.choice([None, 0]), None
    elif z < 0.08:
        r['host_id'] = None
    elif z < 0.12:
        r['dc'] = None
        r['empty_str'] = rng.random() < 0.4
    elif z < 0.16:
        r['rack'] = None
        r['empty_str'] = rng.random() < 0.4
    elif z < 0.20:
        r['tokens'] = rng.choice([None, []])
    return r


def gen_case(rng):
    v2 = rng.random() < 0.5
    token_meta = rng.random() < 0.8
    ring = {a: base_peer(a, v2) for a in (1, 2, 3, 4, 5)}
    init = [[100, 9042, 1, 1, 100]]
    for a in rng.sample([1, 2, 3, 6], rng.choice([0, 0, 1, 2])):
        init.append([a, 9042, rng.choice([1, 2]), 1, a])
    if rng.random() < 0.3:
        rng.shuffle(init)
    members = set(rng.sample([1, 2, 3, 4, 5], rng.choice([0, 1, 2, 3, 3, 4, 5])))
    control = {'dc': 1, 'rack': 1, 'host_id': 100, 'partitioner': True, 'tokens': [1000, 1001]}
    steps = []
    for _ in range(rng.choice([1, 2, 3, 3, 4, 5])):
        # evolve the ring
        m = rng.random()
        if m < 0.25 and len(members) < 5:
            members.add(rng.choice([a for a in (1, 2, 3, 4, 5) if a not in members]))
        elif m < 0.45 and members:
            members.discard(rng.choice(sorted(members)))
        elif m < 0.57 and len(members) >= 2:
            for a in rng.sample(sorted(members), rng.choice([2, 2, 3]) if len(members) >= 3 else 2):   # a rack / DC decommissioned
                members.discard(a)
        for a in sorted(members):
            t = rng.random()
            if t < 0.10:
                ring[a]['dc'] = 3 - ring[a]['dc'] if ring[a]['dc'] in (1, 2) else 1
            elif t < 0.17:
                ring[a]['rack'] = ring[a]['rack'] % 3 + 1
            elif t < 0.27:
                ring[a]['tokens'] = [ring[a]['tokens'][0] + 100, a * 10 + 1]
        c = rng.random()
        if c < 0.08:
            control['dc'] = 3 - control['dc']
        elif c < 0.12:
            control['tokens'] = [control['tokens'][0] + 7, 1001]
        peers = [gen_row(rng, a, v2, ring) for a in sorted(members)]
        if rng.random() < 0.5:
            rng.shuffle(peers)
        d = rng.random()
        if peers and d < 0.22:             # duplicate endpoint, different payload
            dup = dict(rng.choice(peers))
            dup['host_id'] = 77
            dup['dc'] = rng.choice([1, 2, 3])
            dup['tokens'] = [777]
            peers.insert(rng.randrange(len(peers) + 1), dup)
        if d > 0.90 and len(peers) < 5:    # a peers row for the control node itself
            peers.insert(rng.randrange(len(peers) + 1), {'peer': 100, 'addr': 100, 'port': (9042 if v2 else None), 'host_id': 55,
                                                         'dc': 2, 'rack': 2, 'tokens': [555]})
        peers = peers[:5]
        l = rng.random()
        if l < 0.06:
            local = None
        else:
            local = dict(control, tokens=list(control['tokens']))
            if l < 0.12:
                local['partitioner'] = False
            elif l < 0.16:
                local['tokens'] = None
        steps.append({'force': rng.random() < 0.12, 'preloaded': rng.random() < 0.5, 'local': local, 'peers': peers})
    return {'v2': v2, 'token_meta': token_meta, 'init': init, 'steps': steps, 'live': rng.random() < 0.5}


def corpus_cases():
    d = os.path.join(core.VERIF, 'corpus', 'C42')
    out = []
    if os.path.isdir(d):
        for fn in sorted(os.listdir(d)):
            if fn.endswith('.json'):
                with open(os.path.join(d, fn)) as f:
                    out.append(json.load(f)['case'])
    return out


THEOREM_OF = {'exact': 'C42_exact', 'added-once': 'C42_added_once', 'removed-once': 'C42_removed_once',
              'location': 'C42_location_reaches_lbp', 'token': 'C42_token_rebuild_iff_changed', 'refresh': 'C42_exact'}


def run(ctx):
    ok = ctx.prove('Props/C42.v')
    if ctx.tier == 'thorough' and ok:
        ctx.coqchk('Props/C42.v')
    ctx.trust('harness fakes (lib/vf/nodes_harness.py, nodes_c42.py): never-connected Cluster, recording listener / load-balancing policy, '
              'fake connection answering the peers / local queries with exactly the columns asked for, recording rebuild_token_map',
              'hand-written model Model/NodeList.v tied to the source by correspondence only')
    ctx.assume('the control node is in the metadata before the first refresh (the driver connects to a known host)',
               'identity address translator, DefaultEndPointFactory; no Session exists; half of the histories run with a live control '
               'connection (ControlConnection.on_remove re-enters the refresh, model refresh_live), half without (model refresh)',
               'each built-in execution profile has its own load-balancing policy (a policy shared by n profiles is notified n times)')
    ctx.rule = ('sequences of 1-5 snapshots over a ring of <= 5 peers evolving by joins, leaves, dc/rack moves and token moves; rows in every '
                'address form (native/rpc address, bind-all and null falling back to peer, v2 ports), each required field missing in turn, '
                'duplicate endpoints, a peers row for the control node, no / partial system.local row; peers v1 and v2, token metadata on/off, '
                'preloaded results and the query path, force_token_rebuild. non-trivial = some refresh changes membership, a location or the '
                'token map, or sees an invalid / duplicate row; distinct = canonical JSON of the case')
    ctx.exhaustive = False
    cases, meta = [], []
    todo = list(corpus_cases())
    n = 450 if ctx.tier == 'quick' else 4000
    for _ in range(n):
        todo.append(gen_case(ctx.rng))
    for case in todo:
        obs = N.run_impl(case)
        probs = N.check_case(case, obs)
        nontriv = any(o['events'] for o in obs) or any(
            (not N.row_valid(r, case['token_meta'])) for s in case['steps'] for r in s['peers'])
        ctx.case(case, nontrivial=nontriv,
                 sample={'case': case, 'observed': [{'hosts': o['hosts'], 'events': o['events']} for o in obs]} if len(case['steps']) >= 2 and nontriv else None)
        ctx.count('steps', len(case['steps']))
        ctx.count('peers_table', 'v2' if case['v2'] else 'v1')
        ctx.count('token_meta', str(case['token_meta']))
        ctx.count('control_connection', 'live (nested refresh on removal)' if case.get('live') else 'none')
        for s, o in zip(case['steps'], obs):
            ctx.count('rows_per_snapshot', len(s['peers']))
            ctx.count('hosts_removed_in_one_refresh', sum(1 for e in o['events'] if e[0] == 'l_remove'))
            ctx.count('invalid_rows', sum(1 for r in s['peers'] if not N.row_valid(r, case['token_meta'])))
            ctx.count('local_row', 'none' if s['local'] is None else ('no-partitioner' if not s['local']['partitioner'] else 'full'))
            for e in o['events']:
                ctx.count('notifications', e[0])
        for i, key, what in probs:
            ctx.violation(key, 'refresh %d of the sequence: %s' % (i, what), case=case,
                          expected='statement of C42 (lib/vf/nodes_c42.py: check_step)',
                          actual={'step': i, 'observed': obs[i]}, theorem=THEOREM_OF.get(key.split('.')[0], 'C42_exact'), kind='history')
        if any(o['error'] for o in obs):
            ctx.disagreement('refresh-raised', 'refresh raised: %s' % [o['error'] for o in obs if o['error']][0], case=case)
            continue
        cases.append(N.g_case(case, obs))
        meta.append((case, obs))
    try:
        bad = ctx.coq_filter(['NodeList'], '(fun b : bool => b)', cases, shard=60)
    except RuntimeError as e:
        ctx.proof_broken.append(('correspondence:NodeList', str(e)[-600:]))
        bad = []
    for i in bad[:10]:
        case, obs = meta[i]
        ctx.disagreement('model-vs-impl', 'model differs from the driver on %s' % json.dumps(case, sort_keys=True)[:500],
                         case=case, actual=[{'hosts': o['hosts'], 'events': o['events']} for o in obs])
    ctx.extra['model_disagreements'] = len(bad)


def replay(ctx, rp):
    case = rp.get('case')
    if not case:
        print('nothing to replay: %s' % rp.get('theorem'))
        return 1
    obs = N.run_impl(case)
    probs = N.check_case(case, obs)
    for i, o in enumerate(obs):
        print('refresh %d -> hosts %s events %s%s' % (i, o['hosts'], o['events'], (' ERROR ' + o['error']) if o['error'] else ''))
    for i, key, what in probs:
        print('  refresh %d: %s: %s' % (i, key, what))
    want = rp.get('key')
    hit = [p for p in probs if want is None or p[1] == want] or probs
    print(('VIOLATION property=C42 replay=%s' % ctx.replay_path) if hit else 'not reproduced')
    return 1 if hit else 0
