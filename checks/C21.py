"""C21 -- load-balancing plans reflect the live cluster membership.

Proof: Props/C21.v over the hand-written model Model/LBP.v (RoundRobin / WhiteList / DCAware state machines over
membership events; HostFilter and Default as functions of the child's plan), for every history and every parameter.
Tie (C): real policy objects from cassandra/policies.py with real Host objects are driven through generated and
exhaustively enumerated histories; state, distance() of every host and plans are compared with the model after
EVERY event; the statement itself is checked on the implementation's plans by a Python oracle (lib/vf/lbp_impl.py).
"""
import ast, itertools, json, os
from vf import core
from vf.impl import import_cluster
from vf import lbp_impl as I, lbp_gen as G

META = {
    'technique': 'Coq proof (invariants over all event histories) on an executable model of the policies + differential '
                 'execution of the real policy objects against the model after every event',
    'level_text': 'C21_nodup / C21_exact / C21_dc_order / C21_whitelist / C21_filter / C21_default proved for every event '
                  'history delivered as the cluster delivers it (populate first, possibly repeated), every constructor parameter, every '
                  'set-iteration order and every rotation position, over Model/LBP.v; the model is compared with the real '
                  'RoundRobin/WhiteList/DCAware/HostFilter/Default policy objects step by step.',
    'level_note': 'Tie is by correspondence (hand-written model). Trusted: Coq kernel, the Python harness/oracle. A query plan is '
                  'consumed atomically (no membership event while a generator is being drained). DefaultLoadBalancingPolicy: '
                  'an explicitly targeted host that is_up is yielded first whatever the child thinks of it (reading fixed in docs/C21.md).',
    'design_ref': 'DESIGN.md section 4, C21',
}


def zl(v):
    return '(%d)' % v if v < 0 else '%d' % v


def zlist(l):
    return '[' + '; '.join(zl(x) for x in l) + ']'


def zlists(ll):
    return '[' + '; '.join(zlist(l) for l in ll) + ']'


def coq_base(spec):
    if spec['kind'] == 'rr':
        return 'BRR'
    if spec['kind'] == 'wl':
        st = spec.get('wl_names') or [0] * len(spec['allowed'])
        names = [a + 100 if st[j] else a for j, a in enumerate(spec['allowed'])]     # name 100+a: the short spelling of address a
        addrs = spec.get('addrs') or list(range(len(spec['dcs'])))
        return ('(BWL %s (fun n : Z => if 100 <=? n then [n - 100] else [n]) (fun h : Z => nth (Z.to_nat h) %s (-1)))'
                % (zlist(names), zlist(addrs)))
    return '(BDCA %s %s %s)' % (zl(spec['local']), zl(spec['used']), zlist(spec.get('contact', [])))


def coq_env(spec):
    return '{| e_dc := [%s]; e_rack := [] |}' % '; '.join('(%d, %d)' % (i, d) for i, d in enumerate(spec['dcs']))


def coq_pred(pred):
    if pred['dc'] == 0:
        return '(fun (e : env) (h : Z) => mem h %s)' % zlist(pred['hosts'])
    return '(fun (e : env) (h : Z) => mem h %s || (aget (e_dc e) h =? %d))' % (zlist(pred['hosts']), pred['dc'])


def coq_event(ev, pord=None):
    k = ev[0]
    if k == 'P':
        return '(Populate %s %s %s)' % (zlist(ev[1]), zlist(pord or []), zl(ev[2]))
    if k == 'L':
        return '(SetLocation %d %d %d)' % (ev[1], ev[2], ev[3])
    return '(%s %d)' % ({'U': 'Up', 'D': 'Down', 'A': 'Add', 'R': 'Remove'}[k], ev[1])


def coq_case(spec, trace):
    """Gallina boolean: the model reproduces every observation of this run."""
    items, plans, sts, ds = [], [], [], []
    pred = coq_pred(spec['pred'])
    for rec in trace:
        if rec.get('delivered', True):       # a location "change" to the same dc and rack is not delivered at all
            items.append('Ev ' + coq_event(rec['ev'], rec.get('pord')))
            st = rec['state']
            if spec['kind'] == 'dca':
                sts.append('([%s], %s, %s)' % ('; '.join('(%d, %s)' % (d, zlist(t)) for d, t in st['live']), zl(st['local']), zl(st['pos'])))
            else:
                sts.append('([(0, %s)], 0, %s)' % (zlist(st['live']), zl(st['pos'])))
            ds.append(zlist(rec['dist']))
        for p in rec['plans']:
            if p['q'] == 'base':
                w = 'WBase'
            elif p['q'] == 'filter':
                w = '(WFilter %s)' % pred
            elif p['q'] == 'token':
                w = '(WToken %s (fun h : Z => mem h %s) %s)' % ('true' if spec['ta']['routed'] else 'false', zlist(p['ups']),
                                                               zlist(spec['ta']['replicas']))
            else:
                t = p['target']
                w = '(WDefault %s)' % ('(Some %d)' % t[0] if (t is not None and t[1]) else 'None')
            items.append('Q %s %s' % (w, zlist(p['ord'])))
            plans.append(zlist(p['plan']))
    n = len(spec['dcs'])
    return 'check_history %s %s %s [%s] %s [%s] %s' % (coq_base(spec), coq_env(spec), zlist(range(n)), '; '.join(items),
                                                       '[' + '; '.join(plans) + ']', '; '.join(sts), '[' + '; '.join(ds) + ']')


EXH_SPECS = [
    # (spec, populate) pairs for the exhaustive scope: 4 hosts, DCs interleaved in the initial list, one host without a DC,
    # local_dc inferred late from contact point 1
    ({'kind': 'dca', 'dcs': [1, 2, 1, 0], 'local': 0, 'used': 1, 'contact': [1, 3], 'pred': {'hosts': [0, 3], 'dc': 2},
      'ta': {'replicas': [2, 1, 3], 'routed': True, 'up': [True, True, None, True]}}, ['P', [0, 1, 2, 3], 1]),
    ({'kind': 'dca', 'dcs': [1, 2, 1, 2], 'local': 1, 'used': 1, 'contact': [0], 'pred': {'hosts': [1], 'dc': 1},
      'ta': {'replicas': [1, 0], 'routed': True, 'up': [None, True, True, True]}}, ['P', [0, 1, 2], 2]),
    ({'kind': 'dca', 'dcs': [0, 0, 0, 0], 'local': 0, 'used': 2, 'contact': [0, 1], 'pred': {'hosts': [0, 1, 2], 'dc': 0}}, ['P', [0, 1], 0]),
    ({'kind': 'rr', 'dcs': [1, 2, 1, 0], 'pred': {'hosts': [0, 2], 'dc': 0}}, ['P', [0, 1, 2], 1]),
    ({'kind': 'wl', 'dcs': [1, 2, 1, 0], 'allowed': [0, 3], 'wl_names': [1, 0], 'addrs': [0, 1, 0, 3], 'pred': {'hosts': [0, 1, 2, 3], 'dc': 0},
      'ta': {'replicas': [2, 0], 'routed': True, 'up': [False, True, True, True]}}, ['P', [0, 1, 2], 1]),
]


def corpus_cases():
    d = os.path.join(core.VERIF, 'corpus', 'C21')
    out = []
    if os.path.isdir(d):
        for fn in sorted(os.listdir(d)):
            if fn.endswith('.json'):
                with open(os.path.join(d, fn)) as f:
                    c = json.load(f)
                out.append((c['spec'], c['history'], c.get('targets')))
    return out


LOCKED = {'DCAwareRoundRobinPolicy': ('_dc_live_hosts', ('on_up', 'on_down')),
          'RoundRobinPolicy': ('_live_hosts', ('on_up', 'on_down', 'on_add', 'on_remove'))}


def audit(src):
    """Atomicity assumed by the model (one membership event = one step): inside the event handlers every read, write and delete
    of the membership table happens lexically inside `with self._hosts_lock:`.  Returns the list of problems."""
    probs = []
    tree = ast.parse(src)
    for cls in [n for n in tree.body if isinstance(n, ast.ClassDef) and n.name in LOCKED]:
        field, meths = LOCKED[cls.name]
        found = set()
        for m in [n for n in cls.body if isinstance(n, ast.FunctionDef) and n.name in meths]:
            found.add(m.name)

            def walk(node, locked):
                if isinstance(node, ast.With):
                    holds = any(isinstance(i.context_expr, ast.Attribute) and i.context_expr.attr == '_hosts_lock' and
                                isinstance(i.context_expr.value, ast.Name) and i.context_expr.value.id == 'self' for i in node.items)
                    for c in node.body:
                        walk(c, locked or holds)
                    return
                if isinstance(node, ast.Attribute) and node.attr == field and not locked:
                    probs.append('%s.%s line %d: self.%s accessed outside `with self._hosts_lock`' % (cls.name, m.name, node.lineno, field))
                for c in ast.iter_child_nodes(node):
                    walk(c, locked)
            for st in m.body:
                walk(st, False)
        for name in meths:
            if name not in found:
                probs.append('%s.%s not found' % (cls.name, name))
    return probs


RACE_EVENTS = 'UDAR'


def run_race(ctx, spec, hist, e1, e2, tag):
    def report(key, what, thm):
        ctx.violation(key, '%s (spec %r, history %r, then %r racing %r: the second runs while the first waits for _hosts_lock)' % (what, spec, hist, e1, e2),
                      case={'spec': spec, 'history': hist, 'race': [e1, e2]}, expected='statement of %s' % thm, actual=what, theorem=thm,
                      kind='interleaving')
    res = I.run_race(spec, hist, e1, e2, report)
    ctx.case([spec, hist, e1, e2], nontrivial=res['fired'], sample=None)
    ctx.count('source', tag)
    ctx.count('race_hook_fired', 'yes' if res['fired'] else 'no')


def run_during(ctx, spec, hist, ev, fire_at, cases3, meta3, tag):
    def report(key, what, thm):
        ctx.violation(key, '%s (spec %r, history %r)' % (what, spec, hist), case={'spec': spec, 'history': hist, 'during_plan': ev, 'fire_at': fire_at},
                      expected='statement of %s' % thm, actual=what, theorem=thm, kind='interleaving')
    res = I.run_plan_during_event(spec, hist, ev, fire_at, report)
    ctx.case([spec, hist, ev, fire_at], nontrivial=res['fired'], sample=None)
    ctx.count('source', tag)
    ctx.count('event_during_plan_fired', 'yes' if res['fired'] else 'no')
    if res['fired'] and res['exception'] is None and not any(e[0] == 'P' for e in hist):
        # (histories here bring hosts up one by one: bucket order is deterministic, no populate set order to read back)
        evs = [coq_event(e) for e in hist]
        cases3.append('check_plan3 %s %s [%s] %s %s' % (coq_base(spec), coq_env(spec), '; '.join(evs), coq_event(ev), zlist(res['plan'])))
        meta3.append((spec, hist, ev, fire_at))


def run_one(ctx, spec, hist, targets, cases, meta, tag):
    def report(key, what, thm, step=None, query=None):
        ctx.violation(key, '%s (spec %r, history %r, after event #%s, asked through %s)' % (what, spec, hist, step, query),
                      case={'spec': spec, 'history': hist, 'targets': targets}, expected='statement of %s' % thm,
                      actual=what, theorem=thm, kind='history')
    tg = (None,) + tuple(tuple(t) for t in (targets or ()))
    trace = I.run_history(spec, hist, report, targets=tg)
    big = any(len(p['plan']) >= 2 for rec in trace for p in rec['plans'])
    ctx.case([spec, hist, targets], nontrivial=big,
             sample={'spec': spec, 'history': hist, 'last_plans': [p['plan'] for p in trace[-1]['plans']] if trace else []})
    ctx.count('policy', spec['kind'])
    ctx.count('history_len', len(hist))
    ctx.count('source', tag)
    for ev in hist:
        ctx.count('event', ev[0])
    cases.append(coq_case(spec, trace))
    meta.append((spec, hist, targets))


def run(ctx):
    ok = ctx.prove('Props/C21.v')
    if ctx.tier == 'thorough' and ok:
        ctx.coqchk('Props/C21.v')
    import_cluster()
    rng = ctx.rng
    cases, meta = [], []
    for spec, hist, targets in corpus_cases():
        run_one(ctx, spec, hist, targets, cases, meta, 'corpus')
    nrand = 800 if ctx.tier == 'quick' else 6000
    for _ in range(nrand):
        spec = G.gen_spec(rng)
        hist = G.gen_history(rng, spec, rng.randint(0, 7), populate=rng.random() < 0.95)
        n = len(spec['dcs'])
        targets = [[rng.randrange(n), rng.choice([True, True, None, False])]]
        run_one(ctx, spec, hist, targets, cases, meta, 'random')
    nex = 0
    for k, (spec, pop) in enumerate(EXH_SPECS):
        if ctx.tier == 'quick' and k not in (0, 3, 4):
            continue
        L = 3 if (ctx.tier == 'thorough' and k in (0, 3, 4)) else 2
        for evs in G.exhaustive_histories(4, L):
            run_one(ctx, spec, [pop] + [list(e) for e in evs], [[1, True]], cases, meta, 'exhaustive')
            nex += 1
    # two membership events delivered by two threads (atomicity of the handlers: audited on the source and forced here)
    src = open(os.path.join(core.REPO, 'cassandra/policies.py')).read()
    probs = audit(src)
    ctx.extra['lock_audit'] = probs or 'ok: membership tables are read and written only inside `with self._hosts_lock` in the event handlers'
    ctx.trust('lock-region audit of the on_up/on_down/on_add/on_remove handlers (checks/C21.py:audit)')
    if probs:
        ctx.proof_broken.append(('atomicity-audit', '; '.join(probs)))
    nrace = 0
    race_spec = {'kind': 'dca', 'dcs': [1, 1, 1, 2], 'local': 1, 'used': 2, 'contact': [], 'pred': {'hosts': [], 'dc': 0}}
    for rspec in (race_spec, {'kind': 'rr', 'dcs': [1, 1, 1, 2], 'pred': {'hosts': [], 'dc': 0}}):
        for a in range(4):
            for b in range(4):
                if a != b:
                    for ka in RACE_EVENTS:
                        for kb in RACE_EVENTS:
                            run_race(ctx, rspec, [['P', [0, 3], 0]], [ka, a], [kb, b], 'race-exhaustive')
                            nrace += 1
    for _ in range(200 if ctx.tier == 'quick' else 3000):
        spec = G.gen_spec(rng)
        if spec['kind'] == 'dca' and spec['local'] == 0:
            spec['local'] = rng.randint(1, 3)      # the source documents late local_dc inference as single-threaded (startup)
        n = len(spec['dcs'])
        if n < 2:
            continue
        hist = G.gen_history(rng, spec, rng.randint(0, 4))
        a, b = rng.sample(range(n), 2)
        run_race(ctx, spec, hist, [rng.choice(RACE_EVENTS), a], [rng.choice(RACE_EVENTS), b], 'race-random')
        nrace += 1
    # a plan being drained while another thread delivers an event (the remote-DC names must come from a copy of the dict)
    cases3, meta3 = [], []
    nduring = 0
    p3 = {'kind': 'dca', 'dcs': [1, 1, 2, 2, 3, 3], 'local': 1, 'used': 1, 'contact': [], 'pred': {'hosts': [], 'dc': 0}}
    for pop in ([0], [0, 2], [0, 2, 4], [2], [0, 1, 2, 3]):
        hist0 = [['U', h] for h in pop]          # hosts come up one by one: deterministic bucket order, no populate set order
        for ev in G.all_events(6, (1, 2, 3)):
            for fire_at in (0, 1):
                run_during(ctx, p3, hist0, ev, fire_at, cases3, meta3, 'plan-during-event-exhaustive')
                nduring += 1
    for _ in range(200 if ctx.tier == 'quick' else 3000):
        spec = G.gen_spec(rng, kind='dca')
        spec['local'] = rng.randint(1, 3)
        n = len(spec['dcs'])
        hist = [e for e in G.gen_history(rng, spec, rng.randint(0, 6), populate=False)]
        ev = G.gen_history(rng, spec, 1, populate=False)[0]
        run_during(ctx, spec, hist, ev, rng.randint(0, 2), cases3, meta3, 'plan-during-event-random')
        nduring += 1
    ctx.exhaustive = True
    ctx.rule = ('plans during events: %d cases where one event is delivered by another thread at the k-th datacenter comparison of a plan being '
                'drained (every event of the alphabet x 5 populations x k in {0,1} over 6 hosts x 3 DCs + random), compared with dca_plan3; ' % nduring +
                'races: %d pairs of up/down/add/remove events for two different hosts, the second delivered entirely while the first waits for '
                '_hosts_lock (all pairs over 4 hosts for a DC-aware and a round-robin policy + random ones), plans checked by the oracle; ' % nrace +'random: policy kind/parameters/initial DCs (incl. hosts without a DC, late local_dc inference), populate + up to 7 events over '
                '<= 6 hosts x <= 3 DCs; exhaustive: for %d fixed (policy, populate) pairs over 4 hosts x 2 DCs EVERY sequence of %s events from '
                '{up,down,add,remove,set-location dc1,set-location dc2} x 4 hosts (%d histories). After every event the state, distance() of '
                'every host and the plans (policy itself, through HostFilterPolicy with truthy/falsy non-bool predicates, through DefaultLoadBalancingPolicy '
                'with/without target, through TokenAwarePolicy with scripted replicas/is_up; white lists written as names, hosts sharing addresses) are '
                'observed. Non-trivial = distinct history in which some plan has at least 2 hosts.' % (len(EXH_SPECS), '2 (thorough: 3 for three of the pairs)', nex))
    try:
        bad = ctx.coq_filter(['LBP'], '(fun b : bool => b)', cases, shard=500)
        for i in bad[:10]:
            spec, hist, targets = meta[i]
            ctx.disagreement('model-vs-impl.%s' % spec['kind'], 'Model/LBP.v and cassandra/policies.py differ on spec %r history %r' % (spec, hist),
                             case={'spec': spec, 'history': hist, 'targets': targets}, actual=cases[i][:1500])
        bad3 = ctx.coq_filter(['LBP'], '(fun b : bool => b)', cases3, shard=500)
        for i in bad3[:10]:
            spec, hist, ev, k = meta3[i]
            ctx.disagreement('model-vs-impl.dca.plan-during-event', 'dca_plan3 and make_query_plan differ: spec %r history %r event %r during the plan' % (spec, hist, ev),
                             case={'spec': spec, 'history': hist, 'during_plan': ev, 'fire_at': k}, actual=cases3[i][:1500])
    except RuntimeError as e:
        ctx.proof_broken.append(('correspondence:LBP', str(e)[-600:]))
    ctx.trust('Python harness lib/vf/lbp_impl.py: fake cluster (endpoints_resolved, metadata.get_host), real cassandra.pool.Host objects, '
              'datacenter/rack changes delivered by the real ControlConnection._update_location_info through a real ProfileManager, '
              'HostFilter predicates answering with truthy/falsy non-bool values, '
              'scripted randint in populate, frozenset / tuple(set()) iteration orders read back from the object and fed to the model')
    ctx.assume('a query plan is consumed atomically with respect to membership events',
               'membership = the events delivered to the policy (DESIGN 4.0): populated/added/up minus down/removed; '
               '_update_location_info = on_down; set_location_info; on_up',
               'populate hands over every host the cluster knows: it is the first event a policy object receives (Cluster.connect / '
               'add_execution_profile), possibly repeated with the same list (legacy policy in Cluster.connect)')


def replay(ctx, rp):
    import_cluster()
    case = rp.get('case') or {}
    if 'spec' not in case:
        probs = audit(open(os.path.join(core.REPO, 'cassandra/policies.py')).read())
        print('nothing to replay: %s; lock audit: %s' % (rp.get('theorem'), probs or 'ok'))
        return 1
    found = []
    if case.get('during_plan'):
        res = I.run_plan_during_event(case['spec'], case['history'], case['during_plan'], case.get('fire_at', 0), lambda key, what, thm: found.append((key, what, thm)))
        print('history %r, %r delivered while the plan is drained: %r' % (case['history'], case['during_plan'], res))
        for f in found:
            print('  fails %s: %s' % (f[2], f[1]))
        print(('VIOLATION property=C21 replay=%s' % ctx.replay_path) if found else 'not reproduced')
        return 1 if found else 0
    if case.get('race'):
        res = I.run_race(case['spec'], case['history'], case['race'][0], case['race'][1], lambda key, what, thm: found.append((key, what, thm)))
        print('after %r then %r racing %r: state %r plans %r' % (case['history'], case['race'][0], case['race'][1], res['state'], res['plans']))
        for f in found:
            print('  fails %s: %s' % (f[2], f[1]))
        print(('VIOLATION property=C21 replay=%s' % ctx.replay_path) if found else 'not reproduced')
        return 1 if found else 0

    def report(key, what, thm, step=None, query=None):
        found.append((key, what, thm, step, query))
    tg = (None,) + tuple(tuple(t) for t in (case.get('targets') or ()))
    trace = I.run_history(case['spec'], case['history'], report, targets=tg)
    for rec in trace:
        print('after %r: state %r distances %r plans %r' % (rec['ev'], rec['state'], rec['dist'], [(p['q'], p['plan']) for p in rec['plans']]))
    for f in found:
        print('  fails %s: %s (after event #%s through %s)' % (f[2], f[1], f[3], f[4]))
    print(('VIOLATION property=C21 replay=%s' % ctx.replay_path) if found else 'not reproduced')
    return 1 if found else 0
