"""C15 -- requests with a timeout always finish in bounded time (cassandra/cluster.py, ResponseFuture timers).

Proof: Props/C15.v over Model/FutureOnce.v with a virtual clock: under the explicit fairness hypothesis (no live timer is
left overdue), an unfinished page fetch is never older than timeout + 3 x 10 ms, for first and later pages.
Tie (C): the REAL ResponseFuture with fake timers and a virtual clock (exact rational seconds), compared with the model
after every step; the bound itself is checked on the real object in punctual histories.
"""
from vf import core, futa_gen as G, futa_harness as H, futa_check as FC

META = {
    'technique': 'Coq proof (timer invariants over all punctual histories of a state-machine model of ResponseFuture with a virtual '
                 'clock) + per-step correspondence of the real class with the model + executable bound on the real class',
    'level_text': 'C15_bounded proved for every configuration with a finite timeout T >= 0 and every punctual history (silent, late, failing '
                  'servers; retries; speculative executions; page fetches): while the current page fetch has no outcome the clock is at most '
                  'T + 30 ms past its start, for the first page and every later page. C15_fairness_satisfiable: the hypothesis never stops '
                  'the clock. C15_without_page_reset_refuted: the code before the fix gives later pages no timeout at all.',
    'level_note': 'Partial by design (DESIGN C15): that the reactor really fires due timers (fairness) and wall-clock drift are hypotheses. '
                  'execute_async is modelled as __init__ immediately followed by send_request(). Model tied by correspondence. The 10 ms / '
                  '3-times constants of _on_timeout are read by the correspondence (timer due times are compared).',
    'design_ref': 'DESIGN.md section 4 C15, Appendix A.3',
}

KINDS = [('rows', True, None), ('retry', 1, 'ReadTimeout'), ('retry', 0, 'Overloaded')]


def nontrivial(ft, cfg, ops, en):
    return cfg.get('timeout') is not None and (ft['fires'] >= 1 or ft['pages'] >= 1)


def histories(ctx):
    rng = ctx.rng
    for item in FC.load_corpus('C15'):
        yield item
    for item in FC.directed(ctx):
        yield item
    if ctx.tier == 'quick':
        scopes = [(KINDS[:2], [], 9, 3000), (KINDS[:2], [100], 8, 3000)]
    else:
        scopes = [(KINDS, [], 12, 40000), (KINDS, [100], 11, 40000), (KINDS[:2], [100, 100], 10, 30000)]
    capped = False
    for kinds, specs, depth, budget in scopes:
        # host 3 cannot be reached: sends skip it; timeout shorter than the speculative delay in one scope member
        cfg = {'plan': [1, 2, 3], 'timeout': 500, 'specs': specs, 'pools': {1: 'ok', 2: 'ok', 3: 'noconn'}, 'now': 0}
        for ops in G.enumerate_orderings(cfg, kinds, depth, budget, allow_nextpage=True):
            yield (cfg, ops, True, 'exhaustive')
        capped = capped or G.enumerate_orderings.capped
    ctx.exhaustive = not capped
    n = 700 if ctx.tier == 'quick' else 8000
    for i in range(n):
        cfg = G.random_cfg(rng, timeout_p=1.0)
        ops = G.random_walk(rng, cfg, rng.randint(4, 20), True, resp_weight=rng.choice([0, 1, 1, 3]))
        yield (cfg, ops, True, 'random')


def run(ctx):
    ok = ctx.prove('Props/C15.v')
    if ctx.tier == 'thorough' and ok:
        ctx.coqchk('Props/C15.v')
    ctx.trust('single-threaded harness with fake timers and a virtual clock returning exact Fractions (lib/vf/futa_harness.py)')
    ctx.assume('fairness: no live timer is left overdue (punctual histories); the check only evaluates the bound on such histories',
               'execute_async = __init__ immediately followed by send_request(), timeout T >= 0, query plans are finite lists',
               'one history op = one call into ResponseFuture, executed atomically')
    ctx.rule = ('corpus (pre-fix failing page-2 histories) + exhaustive punctual orderings (responses incl. rows-with-paging-state, retries, '
                'next due timer, executor runs, one page fetch) for a 3-host plan + random punctual walks with finite timeouts (servers '
                'silent / late / failing, pools failing, up to 3 speculative executions, page fetches); non-trivial = distinct history '
                'with a finite timeout in which a timer fired or a later page was fetched')
    b = FC.Batch(ctx, 'C15')
    for cfg, ops, punctual, source in histories(ctx):
        if punctual and not G.is_punctual(FC.norm_cfg(cfg), ops):
            punctual = False      # generator slip: do not apply the bound, still compare with the model
            ctx.count('source', 'not-punctual')
        b.add(cfg, ops, punctual, source, nontrivial)
    b.compare()


def replay(ctx, rp):
    return FC.replay(ctx, rp, 'C15')
