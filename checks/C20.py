"""C20 -- switching the session keyspace is applied everywhere or reported.

Coq: Model/Keyspace.v, Props/C20.v (all outcome vectors, all completion orders, any number of pools).
(C) the REAL Session._set_keyspace_for_all_pools (unbound, fake session), REAL HostConnection pools, REAL
Connection.set_keyspace_async/send_msg/defunct on socket-less connections; per-pool outcome vectors x completion
permutations (exhaustive for <= 3 pools quick, <= 4 thorough, plus random larger ones); after Start and after every
completion the callback arguments, session/pool/connection keyspaces and in_flight are compared with the model, and the
statement itself is evaluated on the implementation.
"""
import itertools, json, os
from vf import core
from vf import pool_harness as H

META = {
    'technique': 'Coq proof (inductive invariant over all completion orders) on a hand-written model of the keyspace switch + '
                 'exhaustive small-scope differential execution against the real Session/HostConnection/Connection code',
    'level_text': 'C20_success_means_all, C20_any_error_reported, C20_always_completes proved for every list of pools/outcomes and every '
                  'sequence of completion events over Model/Keyspace.v (repaired code); tied by correspondence after every event, '
                  'exhaustively for <= 3 pools x 6 outcomes x all completion orders.',
    'level_note': 'Trusted: Coq kernel; harness lib/vf/pool_ks.py. Not modelled: HostConnectionPool (v1/v2) variant; a _replace running '
                  'concurrently with the switch (it reads pool._keyspace before installing its connection); USE quoting; add_or_renew_pool.',
    'design_ref': 'DESIGN.md section 4 C20',
}


def run(ctx):
    from vf.impl import import_cluster
    import_cluster()
    from vf import pool_ks as K
    ok = ctx.prove('Props/C20.v')
    if ctx.tier == 'thorough' and ok:
        ctx.coqchk('Props/C20.v')
    ctx.trust('correspondence harness lib/vf/pool_ks.py (fake session/cluster, scripted responses delivered to the real callbacks)')
    ctx.assume('Session._set_keyspace_for_all_pools runs to its end before the first response is processed (it is called on the event-loop thread)',
               'each connection answers its USE at most once')
    maxk = 3 if ctx.tier == 'quick' else 4
    ctx.exhaustive = True
    ctx.rule = ('all outcome vectors over {ok, invalid, connerr, noconn, shut, same} for 0..%d pools x all completion orders of the pending pools '
                '(exhaustive), plus random vectors of 5-7 pools with random orders and partial completions; non-trivial = at least two pools '
                'and at least one pending completion' % maxk)
    todo = []
    for k in range(0, maxk + 1):
        for outs in itertools.product(K.OUTCOMES, repeat=k):
            for order in itertools.permutations(K.pending_of(outs)):
                todo.append((list(outs), list(order)))
    for _ in range(150 if ctx.tier == 'quick' else 3000):
        outs = [ctx.rng.choice(K.OUTCOMES) for _ in range(ctx.rng.randint(5, 7))]
        order = K.pending_of(outs)
        ctx.rng.shuffle(order)
        if ctx.rng.random() < 0.3:
            order = order[:ctx.rng.randint(0, len(order))]
        todo.append((outs, order))
    cdir = os.path.join(core.VERIF, 'corpus', 'C20')
    if os.path.isdir(cdir):
        for fn in sorted(os.listdir(cdir)):
            c = json.load(open(os.path.join(cdir, fn)))
            todo.insert(0, (c['outcomes'], c['order']))
    cases, meta = [], []
    for outs, order in todo:
        try:
            r = K.run_case(outs, order)
        except Exception as e:
            ctx.violation('keyspace-switch.exception', 'the driver raised %r for outcomes %s order %s' % (e, outs, order),
                          case={'outcomes': outs, 'order': order}, theorem='C20_always_completes', kind='history')
            continue
        ctx.case([outs, order], nontrivial=len(outs) >= 2 and len(order) >= 1,
                 sample={'outcomes': outs, 'completion_order': order, 'final_callback_args': r.calls})
        ctx.count('pools', len(outs))
        for o in outs:
            ctx.count('outcome', o)
        for key, what, thm in K.oracle(r, order):
            ctx.violation(key, what, case={'outcomes': outs, 'order': order}, expected='C20 statement', actual={'callback_args': r.calls}, theorem=thm, kind='history')
        o, p = K.coq_case(outs, order)
        cases.append('tr_eqb (ktrace (kinit %s) (KStart :: map KComplete %s)) %s' % (o, p, H.trace_coq(r.obs)))
        meta.append((outs, order, r.obs))
    try:
        bad = ctx.coq_filter(['Pool', 'Keyspace'], '(fun b : bool => b)', cases, shard=120)
    except RuntimeError as e:
        ctx.proof_broken.append(('correspondence:Keyspace', str(e)[-600:]))
        bad = []
    for i in bad[:5]:
        outs, order, obs = meta[i]
        ctx.disagreement('model-vs-impl.keyspace-switch', 'Model/Keyspace.v and the real code differ for outcomes %s completion order %s' % (outs, order),
                         case={'outcomes': outs, 'order': order}, actual=obs)


def replay(ctx, rp):
    from vf.impl import import_cluster
    import_cluster()
    from vf import pool_ks as K
    case = rp.get('case') or {}
    if 'outcomes' not in case:
        print('nothing to replay: %s' % rp.get('theorem'))
        return 1
    r = K.run_case(case['outcomes'], case['order'])
    found = K.oracle(r, case['order'])
    print('outcomes %s order %s -> final callback args %s' % (case['outcomes'], case['order'], r.calls))
    for f in found:
        print('  %s: %s' % (f[0], f[1]))
    print(('VIOLATION property=C20 replay=%s' % ctx.replay_path) if found else 'not reproduced')
    return 1 if found else 0
