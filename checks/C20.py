"""C20 -- switching the session keyspace is applied everywhere or reported.

Coq: Model/Keyspace.v, Props/C20.v (all outcome vectors, all completion orders, any number of pools).
(C) the REAL Session._set_keyspace_for_all_pools (unbound, fake session), REAL HostConnection pools, REAL
Connection.set_keyspace_async/send_msg/defunct on socket-less connections; per-pool outcome vectors x completion
permutations (exhaustive for <= 3 pools quick, <= 4 thorough, plus random larger ones); after Start and after every
completion the callback arguments, session/pool/connection keyspaces and in_flight are compared with the model, and the
statement itself is evaluated on the implementation.
"""
import itertools, json, os
from vf import core
from vf import pool_harness as H

META = {
    'technique': 'Coq proof (inductive invariant over all completion orders) on a hand-written model of the keyspace switch + '
                 'exhaustive small-scope differential execution against the real Session/HostConnection/Connection code',
    'level_text': 'C20_success_means_all, C20_any_error_reported, C20_always_completes, C20_new_pool_matches_session (pool creation racing with any number of switches) proved for every list of pools/outcomes and every '
                  'sequence of completion events over Model/Keyspace.v (repaired code); tied by correspondence after every event, '
                  'exhaustively for <= 3 pools x 6 outcomes x all completion orders.',
    'level_note': 'Trusted: Coq kernel; harness lib/vf/pool_ks.py. Not modelled: HostConnectionPool (v1/v2) variant; a _replace running '
                  'concurrently with the switch (it reads pool._keyspace before installing its connection); USE quoting; the failure branch of add_or_renew_pool\'s catch-up (pool shut down, not registered).',
    'design_ref': 'DESIGN.md section 4 C20',
}


def run(ctx):
    from vf.impl import import_cluster
    import_cluster()
    from vf import pool_ks as K
    ok = ctx.prove('Props/C20.v')
    if ctx.tier == 'thorough' and ok:
        ctx.coqchk('Props/C20.v')
    ctx.trust('correspondence harness lib/vf/pool_ks.py (fake session/cluster, scripted responses delivered to the real callbacks)')
    ctx.assume('Session._set_keyspace_for_all_pools runs to its end before the first response is processed (it is called on the event-loop thread)',
               'each connection answers its USE at most once')
    maxk = 3 if ctx.tier == 'quick' else 4
    ctx.exhaustive = True
    ctx.rule = ('all outcome vectors over {ok, invalid, connerr, noconn, shut, same, emptyv2 (HostConnectionPool without connection)} for '
                '0..%d pools x all completion orders of the pending pools, each followed by the reconnection of every pool that lost its '
                'connection (exhaustive); two-switch histories (same keyspace again after the first switch, second-round outcomes over '
                '{ok, invalid, connerr}) exhaustive for <= 2 pools and sampled above; random vectors of 5-7 pools with partial completions; '
                'non-trivial = at least two pools and at least one pending completion' % maxk)
    todo = []     # (outcomes, order, reconnect, round2 outcomes or None)
    for k in range(0, maxk + 1):
        vecs = list(itertools.product(K.OUTCOMES, repeat=k))
        if ctx.tier == 'quick' and k >= 3:
            ctx.rng.shuffle(vecs)
            vecs = vecs[:260]
            ctx.exhaustive = False
        for outs in vecs:
            for order in itertools.permutations(K.pending_of(outs)):
                todo.append((list(outs), list(order), True, None))
            if 'lost' in outs:
                todo.append((list(outs), 'race', False, None))
    R2 = ['ok', 'invalid', 'connerr']
    first = [o for o in K.OUTCOMES if o not in ('emptyv2', 'lost')]
    for k in (1, 2):
        for outs in itertools.product(first, repeat=k):
            for order in itertools.permutations(K.pending_of(outs)):
                for r2 in itertools.product(R2, repeat=k):
                    todo.append((list(outs), list(order), False, list(r2)))
    for _ in range(150 if ctx.tier == 'quick' else 3000):
        outs = [ctx.rng.choice(first) for _ in range(ctx.rng.randint(3, 4))]
        order = K.pending_of(outs)
        ctx.rng.shuffle(order)
        todo.append((outs, order, ctx.rng.random() < 0.5, [ctx.rng.choice(R2) for _ in outs]))
    for _ in range(150 if ctx.tier == 'quick' else 3000):
        outs = [ctx.rng.choice(K.OUTCOMES) for _ in range(ctx.rng.randint(5, 7))]
        order = K.pending_of(outs)
        ctx.rng.shuffle(order)
        if ctx.rng.random() < 0.3:
            order = order[:ctx.rng.randint(0, len(order))]
        todo.append((outs, order, False, None))
    cdir = os.path.join(core.VERIF, 'corpus', 'C20')
    if os.path.isdir(cdir):
        for fn in sorted(os.listdir(cdir)):
            c = json.load(open(os.path.join(cdir, fn)))
            if 'outcomes' in c:
                todo.insert(0, (c['outcomes'], c['order'], c.get('reconnect', False), c.get('round2')))
    cases, meta = [], []
    for outs, order, rec, r2 in todo:
        case = {'outcomes': outs, 'order': order, 'reconnect': rec, 'round2': r2}
        if order == 'race':
            case['switch_lands_during_reconnect'] = True
        try:
            if order == 'race':
                r = K.run_race(outs)
                order = [i for i in range(len(outs)) if outs[i] in K.PENDING]
            else:
                r = K.run_case(outs, order, reconnect=rec, round2=r2)
        except Exception as e:
            ctx.violation('keyspace-switch.exception', 'the driver raised %r for %s' % (e, case), case=case, theorem='C20_always_completes', kind='history')
            continue
        ctx.case([outs, order, rec, r2], nontrivial=len(outs) >= 2 and len(order) >= 1,
                 sample=dict(case, final_callback_args=r.calls))
        ctx.count('pools', len(outs))
        ctx.count('rounds', 2 if r2 else 1)
        for o in outs:
            ctx.count('outcome', o)
        for key, what, thm in K.oracle(r, order, complete1=(sorted(order) == K.pending_of(outs))):
            ctx.violation(key, what + ' (%s)' % json.dumps(case), case=case, expected='C20 statement', actual={'callback_args': r.calls}, theorem=thm, kind='history')
        cases.append('tr_eqb (%s) %s' % (K.coq_run(r, outs, r2), H.trace_coq(r.obs)))
        meta.append((case, r.obs))
    try:
        bad = ctx.coq_filter(['Pool', 'Keyspace'], '(fun b : bool => b)', cases, shard=150)
    except RuntimeError as e:
        ctx.proof_broken.append(('correspondence:Keyspace', str(e)[-600:]))
        bad = []
    for i in bad[:5]:
        case, obs = meta[i]
        ctx.disagreement('model-vs-impl.keyspace-switch', 'Model/Keyspace.v and the real code differ for %s' % json.dumps(case), case=case, actual=obs)
    run_create(ctx, K)


def run_create(ctx, K):
    """pool creation (REAL Session.add_or_renew_pool body) racing with keyspace switches"""
    short = [[]] + [[a] for a in (1, 2, 3)]
    two = short + [[a, b] for a in (1, 2, 3) for b in (1, 2, 3) if a != b]
    todo = []
    for ks0 in (0, 1, 2):
        for s0 in short[:3]:
            for s1 in two:
                for r1 in short:
                    for r2 in (short if r1 else [[]]):
                        rs = [r for r in (r1, r2) if r]
                        todo.append((ks0, len(todo) % 3, s0, s1, [[False, r] for r in rs]))
                        if s1:
                            for f in range(len(rs) + 1):       # the f-th catch-up USE is refused by the new node
                                todo.append((ks0, len(todo) % 3, s0, s1, [[False, r] for r in rs[:f]] + [[True, (rs[f] if f < len(rs) else [])]]))
    if ctx.tier == 'quick':
        ctx.rng.shuffle(todo)
        todo = todo[:700]
    for _ in range(60 if ctx.tier == 'quick' else 600):
        rnd = lambda n: [ctx.rng.randint(1, 3) for _ in range(ctx.rng.randint(0, n))]
        todo.append((ctx.rng.randint(0, 3), ctx.rng.randint(0, 2), rnd(1), rnd(3), [[ctx.rng.random() < 0.2, rnd(2)] for _ in range(ctx.rng.randint(0, 4))]))
    todo.insert(0, (1, 1, [], [2], [[False, [3]]]))
    todo.insert(0, (1, 1, [], [2], [[True, []]]))
    cases, meta = [], []
    for ks0, n0, s0, s1, rounds in todo:
        case = {'create': True, 'ks0': ks0, 'registered_pools': n0, 'switches_before_read': s0, 'switches_after_read': s1, 'switches_per_catchup_round': rounds}
        try:
            r = K.CreateRun(ks0, n0, s0, s1, rounds).create()
        except Exception as e:
            ctx.violation('Session.add_or_renew_pool.exception', 'the driver raised %r for %s' % (e, case), case=case, theorem='C20_new_pool_matches_session', kind='history')
            continue
        ctx.case(['create', ks0, n0, s0, s1, rounds], nontrivial=bool(s1 or rounds), sample=dict(case, observed=r.observe()))
        ctx.count('create_round_trips', r.round_trips)
        for key, what, thm in r.oracle():
            ctx.violation(key, what + ' (%s)' % json.dumps(case), case=case, expected='registered pool keyspace == session keyspace', actual=r.observe(), theorem=thm, kind='history')
        cases.append('zl_eqb (%s) %s' % (K.create_coq(ks0, s0, s1, rounds), '[%s]' % '; '.join(H.zz(x) for x in r.observe())))
        meta.append((case, r.observe()))
    try:
        bad = ctx.coq_filter(['Pool', 'Keyspace'], '(fun b : bool => b)', cases, shard=150)
    except RuntimeError as e:
        ctx.proof_broken.append(('correspondence:Keyspace.create_pool', str(e)[-600:]))
        bad = []
    for i in bad[:5]:
        ctx.disagreement('model-vs-impl.add_or_renew_pool', 'Model/Keyspace.v create_pool and the real add_or_renew_pool differ for %s: impl %s' % meta[i],
                         case=meta[i][0], actual=meta[i][1])


def replay(ctx, rp):
    from vf.impl import import_cluster
    import_cluster()
    from vf import pool_ks as K
    case = rp.get('case') or {}
    if case.get('create'):
        r = K.CreateRun(case['ks0'], case['registered_pools'], case['switches_before_read'], case['switches_after_read'], case['switches_per_catchup_round']).create()
        found = r.oracle()
        print('pool creation %s -> %s' % (case, r.observe()))
        for f in found:
            print('  %s: %s' % (f[0], f[1]))
        print(('VIOLATION property=C20 replay=%s' % ctx.replay_path) if found else 'not reproduced')
        return 1 if found else 0
    if 'outcomes' not in case:
        print('nothing to replay: %s' % rp.get('theorem'))
        return 1
    if case['order'] == 'race':
        r = K.run_race(case['outcomes'])
        found = K.oracle(r, [])
    else:
        r = K.run_case(case['outcomes'], case['order'], reconnect=case.get('reconnect', False), round2=case.get('round2'))
        found = K.oracle(r, case['order'], complete1=(sorted(case['order']) == K.pending_of(case['outcomes'])))
    print('outcomes %s order %s -> final callback args %s' % (case['outcomes'], case['order'], r.calls))
    for f in found:
        print('  %s: %s' % (f[0], f[1]))
    print(('VIOLATION property=C20 replay=%s' % ctx.replay_path) if found else 'not reproduced')
    return 1 if found else 0
