"""C45 -- shutdown releases every connection and stops accepting work (partial).

(C) Model/Shutdown.v is run side by side with a REAL Cluster (real Session.__init__/shutdown/submit/add_or_renew_pool/
execute_async, ControlConnection.connect/reconnect/_reconnect/_try_connect/shutdown, HostConnection, reconnection handlers) with
fake connections, a manual executor and a manual scheduler; shutdown is injected at every position, including while a
connect is in progress.  The Python oracle (vf.cstate_c45.oracle45) evaluates the statement on the implementation only.
"""
import json, os
from vf import core
from vf import cstate_c45 as c45
from vf import cstate_legacy as leg

META = {
    'technique': 'Coq proof (invariant over all operation histories + step lemmas) on a hand-written shutdown model + per-step differential '
                 'correspondence with the real Cluster/Session/ControlConnection driven by a manual executor/scheduler',
    'level_text': 'C45_all_closed (full statement: in every state after Cluster.shutdown every connection ever opened is closed, including '
                  'replacements, control connections and connects finishing during/after the shutdown), C45_session_all_closed, '
                  'C45_shutdown_is_total, C45_no_new_connections and C45_requests_refused proved for any number of hosts and any history.',
    'level_note': 'Partial by design: interpreter-exit hooks, thread joins and concurrent.futures executor semantics are replaced by a manual '
                  'executor (tasks queued before shutdown still run, submit after shutdown raises); one connection per pool; the trashed-connection '
                  'path of HostConnection.shutdown is not exercised (C12).',
    'design_ref': 'DESIGN.md section 4, C45',
}
HERE = os.path.dirname(os.path.dirname(os.path.abspath(__file__)))


def lock_audit(repo):
    """The model treats "was it shut down while connecting?" + install as ONE atomic region.  Check on the source that the
    shutdown test that follows the connect and the install are inside the same `with self._lock:` block."""
    import ast
    probs = []

    def find(tree, cls, fn, inner=None):
        for n in ast.walk(tree):
            if isinstance(n, ast.ClassDef) and n.name == cls:
                for m in ast.walk(n):
                    if isinstance(m, ast.FunctionDef) and m.name == fn:
                        if inner is None:
                            return m
                        for k in ast.walk(m):
                            if isinstance(k, ast.FunctionDef) and k.name == inner:
                                return k
        return None

    def audit(fnode, what, is_install):
        if fnode is None:
            probs.append('%s: function not found' % what)
            return
        ok = False
        for w in ast.walk(fnode):
            if isinstance(w, ast.With) and any(isinstance(i.context_expr, ast.Attribute) and i.context_expr.attr == '_lock' for i in w.items):
                has_test = any(isinstance(t, ast.If) and any(isinstance(a, ast.Attribute) and a.attr == 'is_shutdown' and
                               isinstance(a.value, ast.Name) and a.value.id == 'self' for a in ast.walk(t.test)) for t in w.body)
                has_install = any(is_install(x) for x in ast.walk(w))
                if has_test and has_install:
                    ok = True
        if not ok:
            probs.append('%s: the is_shutdown test after the connect and the install are not in one `with self._lock` region' % what)

    def assigns_attr(name):
        return lambda x: isinstance(x, ast.Assign) and any(isinstance(t, ast.Attribute) and t.attr == name for t in x.targets)

    def assigns_pools(x):
        return isinstance(x, ast.Assign) and any(isinstance(t, ast.Subscript) and isinstance(t.value, ast.Attribute) and t.value.attr == '_pools' for t in x.targets)
    pool_t = ast.parse(open(os.path.join(repo, 'cassandra/pool.py')).read())
    cl_t = ast.parse(open(os.path.join(repo, 'cassandra/cluster.py')).read())
    audit(find(pool_t, 'HostConnection', '_replace'), 'HostConnection._replace', assigns_attr('_connection'))
    audit(find(cl_t, 'Session', 'add_or_renew_pool', 'run_add_or_renew_pool'), 'Session.add_or_renew_pool', assigns_pools)
    # the pool being replaced must be read in the locked region that installs the new one
    f = find(cl_t, 'Session', 'add_or_renew_pool', 'run_add_or_renew_pool')
    if f is not None:
        def reads_pools(x):
            return (isinstance(x, ast.Call) and isinstance(x.func, ast.Attribute) and x.func.attr == 'get' and
                    isinstance(x.func.value, ast.Attribute) and x.func.value.attr == '_pools')
        inside = set()
        for w in ast.walk(f):
            if isinstance(w, ast.With) and any(isinstance(i.context_expr, ast.Attribute) and i.context_expr.attr == '_lock' for i in w.items):
                inside |= set(id(x) for x in ast.walk(w))
        if any(reads_pools(x) and id(x) not in inside for x in ast.walk(f)):
            probs.append('Session.add_or_renew_pool: self._pools.get(host) is read outside the `with self._lock` region that installs the new pool')
    return probs


def run(ctx):
    ok = ctx.prove('Props/C45.v')
    probs = lock_audit(core.REPO)
    ctx.extra['lock_audit'] = probs or 'ok: shutdown test + install share one `with self._lock` region in HostConnection._replace and Session.add_or_renew_pool; previous pool read under the same lock'
    ctx.trust('lock-region audit (checks/C45.py:lock_audit) + forced interleaving through vf.cstate_harness.HookLock')
    if probs:
        ctx.proof_broken.append(('atomicity-audit', '; '.join(probs)))
    if ctx.tier == 'thorough' and ok:
        ctx.coqchk('Props/C45.v')
    ctx.trust('harness vf/cstate_harness.py + vf/cstate_c45.py: fake connection class, manual executor/scheduler; ControlConnection metadata refresh stubbed',
              'Python oracle vf/cstate_c45.py:oracle45 (statement of C45 on the implementation)')
    ctx.assume('each executor task / scheduler firing / API call runs to completion before the next, except that Cluster.shutdown may run while a connect is in progress',
               'pool creation never fails in these histories (failures belong to C25); hosts stay marked up')
    cases, meta, seen = [], [], {}

    def one(n, ops, encs, finds, sample=False):
        for (k, m, thm, upto) in finds:
            key = 'C45.' + k
            if key in seen and len(seen[key]) <= upto:
                continue
            seen[key] = ops[:upto]
            ctx.violation(key, '%s  [%d hosts, history %s]' % (m, n, json.dumps(ops[:upto])), case={'nhosts': n, 'ops': [list(o) for o in ops[:upto]]},
                          expected='statement of C45', actual=m, theorem=thm, kind='history')
        shut = [i for i, o in enumerate(ops) if o[0] in ('clshutdown', 'sessshutdown') or (o[0] in ('run', 'fire') and o[3])]
        ctx.case([n, ops], nontrivial=bool(shut) and shut[0] < len(ops) - 1, sample={'nhosts': n, 'ops': ops} if sample else None)
        ctx.count('hosts', n)
        ctx.count('shutdown_position', shut[0] if shut else -1)
        for o in ops:
            ctx.count('op', o[0] + ('-during' if o[0] in ('run', 'fire') and o[3] else ''))
        cases.append(c45.coq_case45(n, ops, encs))
        meta.append((n, ops, encs))

    with open(os.path.join(HERE, 'corpus', 'C45', 'cases.json')) as f:
        for item in json.load(f):
            ops, encs, finds = c45.gen_and_run45(ctx.rng, item['nhosts'], 0, script=item['ops'])
            one(item['nhosts'], ops, encs, finds, sample=True)
    total = 700 if ctx.tier == 'quick' else 6000
    for i in range(total):
        n = ctx.rng.randint(1, 3)
        ops, encs, finds = c45.gen_and_run45(ctx.rng, n, ctx.rng.choice([6, 8, 10, 12]))
        one(n, ops, encs, finds, sample=(i < 2))
    ctx.rule = ('histories of 6-12 operations on 1-2 hosts: submissions (pool creation, replacement, control reconnect, host reconnector), executor/'
                'scheduler steps with ok/err connects, a cluster or session shutdown injected at a uniformly chosen position or while a connect is '
                'in progress, then requests/submissions after it; non-trivial = work remains after the shutdown; distinct by history')
    ctx.exhaustive = False
    try:
        bad = ctx.coq_filter(['Shutdown'], '(fun b : bool => b)', cases)
    except RuntimeError as e:
        ctx.proof_broken.append(('correspondence:Shutdown', str(e)[-600:]))
        bad = []
    for i in bad[:10]:
        n, ops, encs = meta[i]
        lo = len(ops)
        for k in range(1, len(ops) + 1):
            if ctx.coq_filter(['Shutdown'], '(fun b : bool => b)', [c45.coq_case45(n, ops[:k], encs[:k])]):
                lo = k
                break
        ctx.disagreement('model-vs-impl', 'Shutdown model and driver differ after step %d of %s (%d hosts): impl %r' % (lo, json.dumps(ops[:lo]), n, encs[lo - 1]),
                         case={'nhosts': n, 'ops': [list(o) for o in ops[:lo]]}, actual=encs[lo - 1])


    # ---- native protocol v1/v2: the real legacy HostConnectionPool against Model/LegacyPool.v
    lcases, lmeta = [], []

    def lone(ops, encs, finds, sample=False):
        for (k, m, thm, upto) in finds:
            key = 'C45.' + k
            if key in seen and len(seen[key]) <= upto:
                continue
            seen[key] = ops[:upto]
            ctx.violation(key, '%s  [history %s]' % (m, json.dumps(ops[:upto])), case={'legacy': True, 'ops': [list(o) for o in ops[:upto]]},
                          expected='statement of C45 (legacy pool)', actual=m, theorem=thm, kind='history')
        ctx.case(['legacy', ops], nontrivial=any(o[0] in ('shutdown', 'racing') or (o[0] == 'run' and o[3]) for o in ops[:-1]),
                 sample={'legacy_pool_ops': ops} if sample else None)
        for o in ops:
            ctx.count('legacy_op', o[0] + ('-d%d' % o[3] if o[0] == 'run' and o[3] else ''))
        lcases.append(leg.coq_case(ops, encs))
        lmeta.append((ops, encs))
    with open(os.path.join(HERE, 'corpus', 'C45', 'legacy.json')) as f:
        for item in json.load(f):
            ops, encs, finds = leg.gen_and_run(ctx.rng, 0, script=item['ops'])
            lone(ops, encs, finds, sample=True)
    for i in range(300 if ctx.tier == 'quick' else 4000):
        ops, encs, finds = leg.gen_and_run(ctx.rng, ctx.rng.choice([5, 7, 9, 11]))
        lone(ops, encs, finds)
    try:
        lbad = ctx.coq_filter(['LegacyPool'], '(fun b : bool => b)', lcases)
    except RuntimeError as e:
        ctx.proof_broken.append(('correspondence:LegacyPool', str(e)[-600:]))
        lbad = []
    for i in lbad[:10]:
        ops, encs = lmeta[i]
        lo = len(ops)
        for k in range(1, len(ops) + 1):
            if ctx.coq_filter(['LegacyPool'], '(fun b : bool => b)', [leg.coq_case(ops[:k], encs[:k])]):
                lo = k
                break
        ctx.disagreement('legacy-model-vs-impl', 'LegacyPool model and HostConnectionPool differ after step %d of %s: impl %r' % (lo, json.dumps(ops[:lo]), encs[lo - 1]),
                         case={'legacy': True, 'ops': [list(o) for o in ops[:lo]]}, actual=encs[lo - 1])


def replay(ctx, rp):
    case = rp.get('case') or {}
    if not isinstance(case, dict) or 'ops' not in case:
        print('nothing to replay: %s' % rp.get('theorem'))
        return 1
    if case.get('legacy'):
        ops, encs, finds = leg.gen_and_run(ctx.rng, 0, script=case['ops'])
    else:
        ops, encs, finds = c45.gen_and_run45(ctx.rng, case['nhosts'], 0, script=case['ops'])
    for o, e in zip(ops, encs):
        print('%r -> %r' % (o, e))
    want = rp.get('key', '')
    hit = [f for f in finds if 'C45.' + f[0] == want] or finds
    for f in hit:
        print('property fails: %s (%s)' % (f[1], f[2]))
    print(('VIOLATION property=C45 replay=%s' % ctx.replay_path) if hit else 'not reproduced')
    return 1 if hit else 0
