"""C25 -- host state changes keep a single reconnector and notify listeners once.

(C) Model/HostState.v is run side by side with the REAL Cluster/Host/_HostReconnectionHandler/Session methods on
generated event histories (<= 3 hosts, <= 2 sessions, <= 10 events); observable state is compared after every step.
The Python oracle (vf.cstate_c25.Oracle) evaluates the statement on the implementation only.
"""
import json, os
from vf import core
from vf import cstate_c25 as c25

META = {
    'technique': 'Coq proof (inductive invariant over all event histories) on a hand-written state machine + per-step differential '
                 'correspondence with the real Cluster driven by a manual executor/scheduler',
    'level_text': 'C25_single_reconnector and C25_removed_never_reconnected proved for every configuration and every event history '
                  '(any length, any number of hosts/sessions); C25_up_once_per_transition proved for every state and step (a step that '
                  'marks a host up notifies listeners exactly once; after fix 626e3cb); the full "down => reconnector" and '
                  '"up => pools" statements are refuted in Coq by witnesses that replay on the driver (open findings C25-3, C25-4).',
    'level_note': 'Partial: one step = one whole call (executor task / scheduler firing / external event), except reconnection attempts, '
                  'which may be split into start / result with other events in between; other preemption inside a call is not modelled. Distances are fixed per '
                  'host; empty reconnection schedules and re-adding a removed endpoint are excluded.',
    'design_ref': 'DESIGN.md section 4, C25',
}

HERE = os.path.dirname(os.path.dirname(os.path.abspath(__file__)))


def report(ctx, cfg, evs, finds, seen):
    for (k, m, thm, n) in finds:
        key = 'C25.' + k
        if key in seen and len(seen[key]) <= n:
            continue
        seen[key] = evs[:n]
        ctx.violation(key, '%s  [cfg %s, history %s]' % (m, json.dumps(cfg), json.dumps(evs[:n])),
                      case={'cfg': cfg, 'events': [list(e) for e in evs[:n]]}, expected='statement of C25 (DESIGN 4.0 reading)',
                      actual=m, theorem=thm, kind='history')


def run(ctx):
    ok = ctx.prove('Props/C25.v')
    if ctx.tier == 'thorough' and ok:
        ctx.coqchk('Props/C25.v')
    ctx.trust('harness vf/cstate_harness.py: fake connection class, manual executor/scheduler, recording LBP/listener, no-op control connection',
              'Python oracle vf/cstate_c25.py:Oracle (statement of C25 on the implementation)')
    ctx.assume('each executor task, scheduler firing and external event runs to completion before the next (deterministic executor/scheduler)',
               'SimpleConvictionPolicy (every signalled failure convicts); host distance fixed; non-empty reconnection schedules',
               'a removed endpoint is not added again within one history')
    seen = {}
    cases, meta = [], []

    def one(cfg, evs, sample=False, pre=None):
        encs, finds, snaps = pre if pre is not None else c25.run_history(cfg, evs)
        report(ctx, cfg, evs, finds, seen)
        nontriv = any(s['recons'] for s in snaps)
        ctx.case([cfg, evs], nontrivial=nontriv, sample={'cfg': cfg, 'events': evs, 'final': snaps[-1]['hosts'] if snaps else None} if sample else None)
        ctx.count('history_len', len(evs))
        ctx.count('hosts', cfg['nhosts'])
        ctx.count('sessions', cfg['nsess'])
        for e in evs:
            ctx.count('event', e[0] + ('-' + str(e[2]) if len(e) > 2 else ''))
        cases.append(c25.coq_case(cfg, evs, encs))
        meta.append((cfg, evs, encs))

    # corpus first: the pre-fix failing histories and the witnesses of the refuted statements
    with open(os.path.join(HERE, 'corpus', 'C25', 'prefix-failures.json')) as f:
        for item in json.load(f):
            one(item['cfg'], [tuple(e) for e in item['events']], sample=True)
    # directed: reconnection attempts split into start / result with an event delivered in between
    for cfg, evs in c25.directed_split():
        one(cfg, evs)
        ctx.count('stream', 'directed-split')
    # exhaustive small scope: failed mark-up with two sessions, EVERY executor order and outcome of the next steps
    scope_cfg = {'nhosts': 1, 'hosts': ['up'], 'nsess': 2, 'sched': None}
    depth = 3 if ctx.tier == 'quick' else 4
    for evs in c25.enum_scope(scope_cfg, [('fail', 0), ('run', 0, 'ok'), ('recon', 0, 'ok')], depth):
        one(scope_cfg, evs)
        ctx.count('stream', 'scope-failed-markup')
    ctx.extra['exhaustive_scope'] = ('1 host, 2 sessions: fail; on_down; reconnect ok; then every sequence of <= %d executor/scheduler '
                                     'steps (any queue index, every outcome)' % depth)
    n = 800 if ctx.tier == 'quick' else 6000
    for i in range(n):
        cfg = c25.gen_cfg(ctx.rng)
        evs, encs, finds, snaps = c25.gen_and_run(ctx.rng, cfg, ctx.rng.choice([6, 8, 10, 10]))
        one(cfg, evs, sample=(i < 3), pre=(encs, finds, snaps))
    ctx.rule = ('histories of <= 10 events for 1-3 hosts (initially up / absent / ignored), 0-2 sessions, infinite or 1-2 step schedule, generated by '
                'walking the enabled events (55% bias to executor/scheduler steps, 5% illegal events: late events for removed hosts, '
                'out-of-range indices); non-trivial = at least one reconnector was created; distinct by (configuration, history)')
    ctx.exhaustive = False
    try:
        bad = ctx.coq_filter(['HostState'], '(fun b : bool => b)', cases)
    except RuntimeError as e:
        ctx.proof_broken.append(('correspondence:HostState', str(e)[-600:]))
        bad = []
    for i in bad[:10]:
        cfg, evs, encs = meta[i]
        # shortest diverging prefix
        lo = len(evs)
        for n_ in range(1, len(evs) + 1):
            if ctx.coq_filter(['HostState'], '(fun b : bool => b)', [c25.coq_case(cfg, evs[:n_], encs[:n_])]):
                lo = n_
                break
        ctx.disagreement('model-vs-impl', 'HostState model and driver differ after step %d of %s (cfg %s): impl %r' % (lo, json.dumps(evs[:lo]), json.dumps(cfg), encs[lo - 1]),
                         case={'cfg': cfg, 'events': [list(e) for e in evs[:lo]]}, actual=encs[lo - 1])
    # the refuted full statements must stay refuted on the implementation too (their witnesses are in the corpus):
    for key in ('C25.down-without-reconnector.discounted-down', 'C25.up-without-pool.concurrent-up-and-add'):
        if key not in seen:
            ctx.disagreement('witness-not-reproduced', 'the Coq witness of %s no longer reproduces on the driver (model is stale)' % key, case=key)


def replay(ctx, rp):
    case = rp.get('case') or {}
    if not isinstance(case, dict) or 'events' not in case:
        print('nothing to replay: %s' % rp.get('theorem'))
        return 1
    evs = [tuple(e) for e in case['events']]
    encs, finds, snaps = c25.run_history(case['cfg'], evs)
    for i, (e, s) in enumerate(zip(evs, snaps)):
        print('step %d %r -> hosts %r queue %r timers %r log %r' % (i + 1, e, s['hosts'], s['queue'], s['timers'], s['log']))
    want = rp.get('key', '')
    hit = [f for f in finds if 'C25.' + f[0] == want] or finds
    for f in hit:
        print('property fails: %s (%s)' % (f[1], f[2]))
    print(('VIOLATION property=C25 replay=%s' % ctx.replay_path) if hit else 'not reproduced')
    return 1 if hit else 0
