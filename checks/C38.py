"""C38 -- cqlengine routing keys equal the partition key Cassandra hashes.

(C) Model/CompositeMapper.v (metaclass partition-key index assignment incl. inheritance/overriding/db_field,
partition_key_values, _execute_statement, _set_routing_key) is proved in Props/C38.v to attach composite_spec of
the serialized key values in table order.  Every run generates cqlengine models (flat, abstract-base + subclass
with overriding and additional key columns, db_field renames, 18 key-capable column types) and operations
(create/save/select/update/delete through the public API), records the SimpleStatement handed to
cassandra.cqlengine.connection.execute (replaced by a recorder: no cluster), checks the statement itself with an
independent oracle and compares index map + routing key with the model.
"""
import json, os, time
from vf import core
from vf import bind_mapper_impl as M

META = {
    'technique': 'Coq proof (invariant over the metaclass loop for every definition list + routing theorem) on a hand-written executable '
                 'model + differential execution against generated cqlengine models with a recording connection.execute',
    'level_text': 'C38_index_dense (partition-key indexes are 0..n-1 in table order for every inherited/overriding definition list), '
                  'C38_routing (whole key fixed by equality clauses/assignments => routing key = composite_spec of the serialized values in '
                  'table order), C38_gap_refuted (the pre-fix loop) proved; model tied to the repaired source by correspondence on every run.',
    'level_note': 'Trusted: Coq kernel; transcription of models.py/statements.py/query.py into Model/CompositeMapper.v; composite_spec; '
                  'column to_database/to_binary abstract (C36/C01). Not covered: overriding a key column WITHOUT repeating its key flag (cqlengine '
                  'then builds an inconsistent model), polymorphic models, batches, token computation (C08).',
    'design_ref': 'DESIGN.md section 4, C38',
}

NAMES = ['a', 'b', 'c', 'd', 'e', 'f', 'g', 'h']


def col(rng, name, pk=False, prim=False, typ=None, rename=None):
    return {'name': name, 'type': typ or rng.choice(M.KEY_TYPES), 'pk': pk, 'prim': prim,
            'dbf': ('x_' + name) if (rng.random() < 0.3 if rename is None else rename) else None}


def gen_spec(rng):
    names = list(NAMES)
    rng.shuffle(names)
    shape = rng.choice(['flat', 'flat', 'inherit', 'inherit', 'inherit', 'auto', 'mixins', 'mixins'])
    if shape == 'mixins':
        # 2-3 abstract mixins, each contributing partition key columns, listed as bases in an order that differs from the
        # order they were defined in; key types in pairs that accept each other's values (int/bigint, text/ascii)
        k = rng.choice([2, 2, 3])
        pairs = [('Integer', 'BigInt'), ('BigInt', 'Integer'), ('Text', 'Ascii'), ('Ascii', 'Text'), ('SmallInt', 'BigInt'), ('Integer', 'VarInt')]
        pair = list(rng.choice(pairs)) + [rng.choice(M.KEY_TYPES)]
        mixins = []
        for i in range(k):
            m = [col(rng, names[i], pk=True, typ=pair[i] if rng.random() < 0.85 else rng.choice(M.KEY_TYPES))]
            if rng.random() < 0.3:
                m.append(col(rng, names[3 + i], prim=True) if rng.random() < 0.5 else col(rng, names[3 + i], typ='Text'))
            mixins.append(m)
        def_order = list(range(k))
        while def_order == list(range(k)) and rng.random() < 0.9:
            rng.shuffle(def_order)
        own = [col(rng, names[7], typ='Text')] if rng.random() < 0.6 else []
        if rng.random() < 0.3:
            own.append(col(rng, names[6], prim=True))
        return {'base': None, 'mixins': mixins, 'mixin_def_order': def_order, 'own': own}
    if shape == 'auto':
        own = [col(rng, names[0], prim=True)] + [col(rng, n, typ='Text') for n in names[1:1 + rng.randint(0, 2)]]
        if rng.random() < 0.5:
            own.insert(1, col(rng, names[4], prim=True))
        return {'base': None, 'own': own}
    if shape == 'flat':
        own = [col(rng, n, pk=True) for n in names[:rng.choice([1, 1, 2, 2, 3])]]
        own += [col(rng, n, prim=True) for n in names[3:3 + rng.randint(0, 2)]]
        rng.shuffle(own)
        own += [col(rng, n, typ=rng.choice(['Text', 'Integer'])) for n in names[5:5 + rng.randint(0, 2)]]
        return {'base': None, 'own': own}
    base = [col(rng, n, pk=True) for n in names[:rng.choice([1, 1, 2])]]
    if rng.random() < 0.4:
        base.append(col(rng, names[2], prim=True))
    if rng.random() < 0.4:
        base.append(col(rng, names[3], typ='Text'))
    own = []
    for d in base:
        if d['pk'] and rng.random() < 0.45:          # override an inherited key column, key flag repeated, maybe another type / db name
            own.append(col(rng, d['name'], pk=True, typ=rng.choice([d['type'], rng.choice(M.KEY_TYPES)]), rename=bool(d['dbf'])))
    if len([d for d in base if d['pk']]) < 3 and rng.random() < 0.55:
        own.append(col(rng, names[4], pk=True))
    if rng.random() < 0.4:
        own.append(col(rng, names[5], prim=True))
    if rng.random() < 0.5:
        own.append(col(rng, names[6], typ='Text'))
    rng.shuffle(own)
    if not own:
        own.append(col(rng, names[6], typ='Text'))
    return {'base': base, 'own': own}


def analyse(spec):
    """independent reading of the spec: effective columns, partition key names in table order, clustering names, data names"""
    order, eff = M.final_columns(spec)
    first = {}
    for d in M.all_defs(spec):
        first.setdefault(d['name'], d)
    any_pk = any(d['pk'] for d in first.values())
    part, clus, data = [], [], []
    auto_done = any_pk
    for n in order:
        f = first[n]
        is_prim = f['pk'] or f['prim']
        is_part = f['pk']
        if not auto_done and is_prim:
            is_part = True
            auto_done = True
        if is_part:
            part.append(n)
        elif is_prim:
            clus.append(n)
        else:
            data.append(n)
    return order, eff, part, clus, data


def gen_ops(rng, spec):
    order, eff, part, clus, data = analyse(spec)
    vals = dict((n, M.gen_value(rng, eff[n]['type'])) for n in order)
    ops = []
    for _ in range(3):
        kind = rng.choice(['create', 'save', 'select', 'select', 'update', 'delete', 'inst_update', 'inst_delete', 'select_partial', 'select_in'])
        vals = dict((n, M.gen_value(rng, eff[n]['type'])) for n in order)
        full_where = [[n, 'eq', vals[n]] for n in part] + [[n, 'eq', vals[n]] for n in clus if rng.random() < 0.7]
        rng.shuffle(full_where)
        if kind in ('create', 'save', 'inst_delete'):
            ops.append({'kind': kind, 'set': [[n, vals[n]] for n in order if n in part or n in clus or rng.random() < 0.8]})
        elif kind == 'inst_update':
            if not data:
                continue
            new = M.gen_value(rng, eff[data[0]]['type'])
            if new == vals[data[0]]:
                new = ['str', 'changed'] if new[0] == 'str' else ['int', 424242]      # an update that changes nothing executes nothing
            ops.append({'kind': kind, 'set': [[n, vals[n]] for n in order], 'set2': [[data[0], new]]})
        elif kind == 'update':
            if not data:
                continue
            ops.append({'kind': 'update', 'where': [[n, 'eq', vals[n]] for n in part + clus], 'set': [[data[0], vals[data[0]]]]})
        elif kind in ('select', 'delete'):
            ops.append({'kind': kind, 'where': full_where})
        elif kind == 'select_partial':
            if len(part) < 2:
                continue
            drop = rng.choice(part)
            ops.append({'kind': 'select', 'where': [w for w in full_where if w[0] != drop]})
        else:
            tgt = rng.choice(part)
            ops.append({'kind': 'select', 'where': [([n, 'in', [v, v]] if n == tgt else [n, o, v]) for n, o, v in full_where]})
    return ops


def spec_composite(parts):
    if len(parts) == 1:
        return list(parts[0])
    out = []
    for p in parts:
        out += [len(p) >> 8, len(p) & 0xff] + list(p) + [0]
    return out


def fixed_values(spec, op):
    """name -> last value fixed by an equality clause / assignment (what the statement says about each column)"""
    order, eff, part, clus, data = analyse(spec)
    fixed = {}
    if op['kind'] in ('select', 'update', 'delete'):
        for n, o, v in op['where']:
            if o == 'eq':
                fixed[n] = v
            else:
                fixed.setdefault(n, None)
        if op['kind'] == 'update':
            for n, v in op['set']:
                fixed[n] = v
    elif op['kind'] in ('create', 'save'):
        fixed = dict((n, v) for n, v in op['set'])
    else:
        fixed = dict((n, v) for n, v in op['set'] if n in part or n in clus)
        if op['kind'] == 'inst_update':
            for n, v in op['set2']:
                fixed[n] = v
    return fixed


def evaluate(spec, op, model=None):
    model = model or M.build_model(spec)
    order, eff, part, clus, data = analyse(spec)
    res = M.run_op(model, op)
    probs = []
    fixed = fixed_values(spec, op)
    full = all(fixed.get(n) is not None for n in part)
    comps = [M.serialize_key(model, n, fixed[n]) for n in part] if full else []
    too_big = len(comps) > 1 and any(len(c) >= 65536 for c in comps)
    exp = spec_composite(comps) if full and not too_big else None
    shape = 'mixins' if spec.get('mixins') else ('inherit' if spec.get('base') else 'flat')
    if too_big:
        if not res['err']:
            probs.append(('routing.oversized-component-accepted', 'a %d-byte component was packed into a routing key' % max(len(c) for c in comps), 'C38_routing'))
    elif res['err']:
        cls = res['err'].split(':')[0]
        probs.append(('routing.raised.%s.%s' % (cls, 'override+new-partition-key' if shape == 'inherit' and cls == 'IndexError' else shape),
                      '%s on a valid %s raised %s; partition key index map %r' % (op['kind'], shape, res['err'], dict(model._partition_key_index)), 'C38_routing'))
    else:
        for st in res['stmts']:
            if too_big:
                break
            if full and st['rk'] != exp:
                probs.append(('routing.wrong-key.%s' % shape, '%s: routing key %r but Cassandra hashes %r (partition key %r)  [%s]' %
                              (op['kind'], st['rk'], exp, part, st['q'][:120]), 'C38_routing'))
                break
            if not full and st['rk'] is not None:
                probs.append(('routing.key-without-full-partition-key', '%s: routing key %r although the partition key is not fixed  [%s]' %
                              (op['kind'], st['rk'], st['q'][:120]), 'C38_routing'))
                break
    res['expected'] = exp
    res['index_map'] = [[k, v] for k, v in model._partition_key_index.items()]
    res['table_pk'] = M.create_table_pk(model)
    res['part'] = [eff[n]['dbf'] or n for n in part]
    return res, probs, model


# ------------------------------------------------------------------ Gallina
def ident(s):
    """attribute / db names -> integer ids (x_<name> is a different id from <name>)"""
    base = NAMES.index(s[2:]) + 101 if s.startswith('x_') else NAMES.index(s) + 1
    return base


def zlist(l):
    from vf import bind_impl
    return bind_impl.zlist(l)          # run-length literal for long constant runs


def g_case(spec, op, res, model):
    order, eff, part, clus, data = analyse(spec)
    defs = '[' + '; '.join('c38_def %d %d %s %s' % (ident(d['name']), ident(d['dbf'] or d['name']), 'true' if d['pk'] else 'false',
                                                    'true' if d['prim'] else 'false') for d in M.all_defs(spec)) + ']'

    def clause(n, eq, v):
        dbf = eff[n]['dbf'] or n
        val = 'None' if v is None or not eq else '(Some %s)' % zlist(M.serialize_key(model, n, v))
        return 'mkclause %d %s %s' % (ident(dbf), 'true' if eq else 'false', val)
    wheres, assigns = [], []
    k = op['kind']
    if k in ('select', 'update', 'delete'):
        wheres = [clause(n, o == 'eq', v if o == 'eq' else None) for n, o, v in op['where']]
        if k == 'update':
            assigns = [clause(n, True, v) for n, v in op['set']]
    elif k in ('create', 'save'):
        assigns = [clause(n, True, v) for n, v in op['set']]
    else:
        wheres = [clause(n, True, v) for n, v in op['set'] if n in part or n in clus]
        if k == 'inst_update':
            assigns = [clause(n, True, v) for n, v in op['set2']]
    imap = '[' + '; '.join('(%d, %d%%nat)' % (ident(kf), i) for kf, i in res['index_map']) + ']'
    if res['err']:
        r = 'RErr'
    elif res['stmts'] and res['stmts'][0]['rk'] is not None:
        r = 'RBytes ' + zlist(res['stmts'][0]['rk'])
    else:
        r = 'RNone'
    return 'c38_eqb (c38_run %s [%s] [%s]) (%s, %s)' % (defs, '; '.join(wheres), '; '.join(assigns), imap, r)


def short(x):
    s = repr(x)
    return s if len(s) < 500 else s[:500] + '...'


def run(ctx):
    ok = ctx.prove('Props/C38.v')
    if ctx.tier == 'thorough' and ok:
        ctx.coqchk('Props/C38.v')
    M.install()
    ctx.trust('transcription of cqlengine/models.py (ModelMetaClass partition-key bookkeeping), statements.py (partition_key_values), query.py '
              '(_execute_statement), cassandra/query.py (_set_routing_key) into Model/CompositeMapper.v, tied by correspondence',
              'composite_spec (Model/CompositeSpec.v): Cassandra CompositeType partition-key encoding, transcribed',
              'column to_database / cql_type serialization abstract (C36/C01); the oracle serializes with the CQL type named by the column db_type',
              'recorder replacing cassandra.cqlengine.connection.execute / get_cluster (protocol 4)')
    ctx.assume('an overriding key column repeats its partition_key flag', 'no batch, no polymorphic model')
    rng = ctx.rng
    nmodels = 150 if ctx.tier == 'quick' else 1500
    items = []
    corpus = os.path.join(core.VERIF, 'corpus', 'C38')
    if os.path.isdir(corpus):
        for fn in sorted(os.listdir(corpus)):
            with open(os.path.join(corpus, fn)) as f:
                c = json.load(f)['case']
                items.append((c['spec'], [c['op']]))
    for _ in range(nmodels):
        spec = gen_spec(rng)
        items.append((spec, gen_ops(rng, spec)))
    # composite key components around the signed / unsigned 16-bit limits (run-length Gallina literals); 65536 must be refused
    for ln in (32767, 32768, 40000, 65535, 65536):
        spec = {'base': None, 'own': [{'name': 'a', 'type': 'Blob', 'pk': True, 'prim': False, 'dbf': None},
                                      {'name': 'b', 'type': 'Integer', 'pk': True, 'prim': False, 'dbf': 'x_b'}]}
        items.append((spec, [{'kind': 'select', 'where': [['a', 'eq', ['bytes', ('%02x' % rng.randrange(256)) * ln]], ['b', 'eq', ['int', 5]]]}]))
    ctx.rule = ('generated cqlengine models: flat (1-3 partition keys, clustering, data), abstract base + subclass that overrides inherited key '
                'columns (flag repeated, possibly another type/db_field) and/or adds partition/clustering/data columns in random declaration '
                'order, 2-3 abstract mixins listed as bases in another order than they were defined (int/bigint, text/ascii key pairs), single primary_key (implicit partition key); 30% db_field renames; 18 key-capable column types x up to 3 operations '
                '(create/save/select/update/delete/instance update/delete, partial-key and IN selects); non-trivial = distinct (model, '
                'operation) whose partition key is fully fixed')
    ctx.exhaustive = False
    t1 = time.time()
    gall, meta = [], []
    for spec, ops in items:
        try:
            model = M.build_model(spec)
        except Exception as e:
            ctx.disagreement('harness.model-rejected', 'generated model rejected by cqlengine: %r %s' % (e, short(spec)), case={'spec': spec})
            continue
        order, eff, part, clus, data = analyse(spec)
        for op in ops:
            res, probs, _ = evaluate(spec, op, model)
            case = {'spec': spec, 'op': op}
            ctx.case(case, nontrivial=res['expected'] is not None, sample={'case': case, 'routing_key': res['stmts'][0]['rk'] if res['stmts'] else None,
                                                                           'index_map': res['index_map'], 'error': res['err']})
            ctx.count('shape', 'mixins' if spec.get('mixins') else 'inherit' if spec.get('base') else ('auto' if not any(d['pk'] for d in spec['own']) else 'flat'))
            ctx.count('partition_keys', len(part))
            ctx.count('operation', op['kind'])
            ctx.count('outcome', 'error' if res['err'] else ('routing-key' if res['stmts'] and res['stmts'][0]['rk'] is not None else 'no-routing-key'))
            for d in part:
                ctx.count('key_type', eff[d]['type'])
            if res['table_pk'] != res['part']:
                ctx.disagreement('harness.table-order', 'CREATE TABLE partition key %r, expected %r for %s' % (res['table_pk'], res['part'], short(spec)), case=case)
            for key, what, thm in probs:
                ctx.violation(key, what + '  [case %s]' % short(case), case=case, expected=res['expected'], actual=short(res), theorem=thm)
            gall.append(g_case(spec, op, res, model))
            meta.append((case, res))
    t2 = time.time()
    try:
        bad = ctx.coq_filter(['CompositeSpec', 'CompositeMapper'], '(fun b : bool => b)', gall, shard=150)
        for i in bad[:10]:
            case, res = meta[i]
            ctx.disagreement('model-vs-impl', 'Model/CompositeMapper.v differs from cqlengine at %s: impl index map %r routing %s error %s' %
                             (short(case), res['index_map'], short(res['stmts'][0]['rk'] if res['stmts'] else None), res['err']), case=case, actual=short(res))
    except RuntimeError as e:
        ctx.proof_broken.append(('correspondence:CompositeMapper', str(e)[-800:]))
    ctx.extra['timing_s'] = {'prove': round(t1 - ctx.t0, 1), 'drive_impl': round(t2 - t1, 1), 'model_eval': round(time.time() - t2, 1)}


def replay(ctx, rp):
    case = rp.get('case')
    if not case or 'op' not in case:
        print('nothing to replay: %s' % rp.get('theorem'))
        return 1
    M.install()
    res, probs, _ = evaluate(case['spec'], case['op'])
    print('replay %s\n -> %s' % (short(case), short(res)))
    for key, what, thm in probs:
        print('  %s: %s (%s)' % (key, what[:300], thm))
    print(('VIOLATION property=C38 replay=%s' % ctx.replay_path) if probs else 'not reproduced')
    return 1 if probs else 0
