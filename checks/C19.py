"""C19 -- Unknown prepared statements are transparently re-prepared.

Coq: Model/FutB.v (PreparedQueryNotFound branch of _set_result, _reprepare, _execute_after_prepare as executor tasks),
Props/C19.v.  (T) ProtocolVersion.uses_keyspace_flag regenerated from cassandra/__init__.py.
Tie (C): the REAL ResponseFuture with real PreparedStatement/BoundStatement/PrepareMessage/ExecuteMessage objects and real
protocol responses around UNPREPARED; per-step comparison with the model; the statement itself is checked on the
implementation by futb_check.Oracle(which='C19').
"""
import itertools
from vf import futb_model as M, futb_check as K, futb_harness as H

PID = 'C19'
META = {
    'technique': 'Coq proof over an executable ResponseFuture model (re-prepare path) + per-step correspondence with the real class on all response sequences around UNPREPARED',
    'level_text': 'C19_reprepare / C19_resend / C19_mismatch_fails_and_stops / C19_prepare_error_fails_and_stops / '
                  'C19_prepare_only_after_unprepared proved for every configuration and state of the FutB model (hence every history); '
                  'keyspace rule uses uses_keyspace_flag regenerated from source; model = driver after the fix of finding C19-1; tied '
                  'to cluster.py by step-by-step differential execution.',
    'level_note': 'Trusted: Coq kernel, py2coq (uses_keyspace_flag), harness fakes. All connections of the fake session share one '
                  'keyspace (the source reads self._connection.keyspace, the last borrowed connection). UNPREPARED for a statement the '
                  'driver has no record of, or carrying a foreign id, is modelled (AttributeError / AssertionError outcome) but outside '
                  'the statement. _reprepare does not look at _final_exception: with concurrent attempts a PREPARE can follow a failure '
                  '(modelled; the statement\'s "nothing further" is proved for the failing step itself).',
    'design_ref': 'DESIGN.md section 4, C19; section 5.2',
}


def gen(ctx):
    M.gen(ctx)


def base(**kw):
    sc = {'n': 2, 'plan': [1, 0], 'target': None, 'pools': [6, 6], 'idem': False, 'spec': [False, 0], 'cl': 1,
          'pv': 4, 'ks': None, 'ps': [7, 3, None], 'known': [], 'script': [[3, None], [1, None]], 'ops': []}
    sc.update(kw)
    return sc


PREP_RESPONSES = [[2, 7], [2, 8], [2, 6], [0], [1], [3, 3, 21], [3, 6, 21], [3, 0, 21], [3, 7, 21], [3, 8, 21], [4, 7, 21], [5, 21], [5, 22],
                  [6, 21], [7]]
AFTER = [[0], [1], [3, 2, 31], [4, 7, 31], [5, 31]]


def sequences(ctx):
    """all response sequences around UNPREPARED: protocol version x statement keyspace x connection keyspace x
    statement known to the cluster? x answer to PREPARE x pool state of the host when the task runs x answer to the re-sent request"""
    items = []
    for pv in (3, 4, 5, 65, 66):
        for pks in (None, 1):
            for cks in (None, 1, 2):
                for known in ([], [[7, 3, pks]], [[7, 4, 2]], [[7, 3, pks], [8, 3, 1], [6, 3, 2]]):   # last: other cached ids
                    for has_ps in (True, False):
                        if not has_ps and not known and pv != 4:
                            continue
                        for pr in PREP_RESPONSES:
                            for st in ((6, 2) if pr in ([2, 7], [3, 7, 21]) else (6,)):
                                if ctx.tier == 'quick' and ctx.rng.random() < 1 - 0.45 * K.SCALE and pr not in ([2, 7], [2, 8], [2, 6]):
                                    continue
                                sc = base(pv=pv, ks=cks, ps=[7, 3, pks] if has_ps else None, known=known,
                                          nids=[1, 4, 2][len(items) % 3], metrics=bool(len(items) % 2), markers=bool(has_ps and len(items) % 5 == 0))
                                run = H.Run(sc)
                                orc = K.Oracle(sc, run, PID)
                                obs = []
                                ops = [['start'], ['resp', 0, [4, 7, 10]]]
                                i = 0
                                for op in ops:
                                    sc['ops'].append(op); obs.append(orc.step(i, op)); i += 1
                                follow = [['run', 0], ['resp', 1, pr], ['pool', 1, st], ['run', 0]]
                                for op in follow:
                                    if op[0] == 'run' and not run.env.queue:
                                        continue
                                    if op[0] == 'resp' and op[1] not in run.open_attempts():
                                        continue
                                    sc['ops'].append(op); obs.append(orc.step(i, op)); i += 1
                                k = 0
                                while (run.open_attempts() or run.env.queue) and k < 4:
                                    if run.env.queue:
                                        op = ['run', 0]
                                    else:
                                        op = ['resp', run.open_attempts()[0], AFTER[(len(items) + k) % len(AFTER)]]
                                    sc['ops'].append(op); obs.append(orc.step(i, op)); i += 1; k += 1
                                items.append((sc, obs, orc.bad, {'nontrivial': len(sc['ops']) >= 4, 'sample': len(items) in (5, 400)}))
    return items


def reconnects(ctx):
    """the pool replaces its connection at every point of the re-prepare round trip (EXECUTE and PREPARE on different
    connections): every borrowed connection must be handed back exactly once"""
    items = []
    for where in range(5):
        for pr in ([2, 7], [2, 8], [3, 7, 21], [3, 3, 21], [0]):
            for nids in (1, 4):
                sc = base(nids=nids, script=[[0, None], [1, None]])
                run = H.Run(sc)
                orc = K.Oracle(sc, run, PID)
                obs = []
                seq = [['start'], ['resp', 0, [4, 7, 10]], ['run', 0], ['resp', 1, pr], ['run', 0], ['resp', 2, [0]]]
                seq.insert(where + 1, ['pool', 1, 6])
                for op in seq:
                    if op[0] == 'run' and not run.env.queue:
                        continue
                    if op[0] == 'resp' and op[1] not in run.open_attempts():
                        continue
                    sc['ops'].append(op)
                    obs.append(orc.step(len(sc['ops']) - 1, op))
                items.append((sc, obs, orc.bad, {'nontrivial': True, 'sample': len(items) == 3}))
    return items


def shutdowns(ctx):
    """Session.shutdown() at every point of the re-prepare round trip: refused follow-up work fails the request"""
    items = []
    for where in range(5):
        for pr in ([2, 7], [2, 8], [3, 7, 21]):
            sc = base(script=[[0, None], [1, None]])
            run = H.Run(sc)
            orc = K.Oracle(sc, run, PID)
            obs = []
            seq = [['start'], ['resp', 0, [4, 7, 10]], ['run', 0], ['resp', 1, pr], ['run', 0], ['resp', 2, [0]]]
            seq.insert(where + 1, ['shutdown'])
            for op in seq:
                if op[0] == 'run' and not run.env.queue:
                    continue
                if op[0] == 'resp' and op[1] not in run.open_attempts():
                    continue
                sc['ops'].append(op)
                obs.append(orc.step(len(sc['ops']) - 1, op))
            items.append((sc, obs, orc.bad, {'nontrivial': True}))
    return items


def concurrent(ctx):
    """two executions of one request in flight (speculative), both in the re-prepare phase: every pair of answers to the two
    PREPAREs, in both orders; once one of them failed the request, the other must not cause anything to be sent"""
    items = []
    answers = [[2, 7], [2, 8], [3, 7, 41], [3, 8, 41], [3, 3, 41], [5, 41], [0], [7]]
    for a in answers:
        for b in answers:
            for order in (0, 1):
                for known in ([], [[7, 3, None], [8, 3, 1]]):
                    sc = base(n=3, plan=[1, 0, 2], pools=[6, 6, 6], idem=True, spec=[True, 1], known=known)
                    run = H.Run(sc)
                    orc = K.Oracle(sc, run, PID)
                    obs = []
                    first, second = (2, 3) if order == 0 else (3, 2)
                    ra = a
                    rb = [b[0], b[1], 42] if b[0] == 3 else ([5, 42] if b[0] == 5 else b)      # distinct response tags
                    ops = [['start'], ['spec'], ['resp', 0, [4, 7, 10]], ['resp', 1, [4, 7, 11]], ['run', 0], ['run', 0],
                           ['resp', first, ra], ['run', 0], ['resp', second, rb], ['run', 0]]
                    for op in ops:
                        if op[0] == 'run' and not run.env.queue:
                            continue
                        if op[0] == 'resp' and op[1] not in run.open_attempts():
                            continue
                        if op[0] == 'spec' and not run.spec_armed():
                            continue
                        sc['ops'].append(op)
                        obs.append(orc.step(len(sc['ops']) - 1, op))
                    items.append((sc, obs, orc.bad, {'nontrivial': True, 'sample': len(items) == 50}))
    return items


def randoms(ctx, count):
    items = []
    for i in range(count):
        sc = M.random_scenario(ctx.rng)
        if sc['ps'] is None and not sc['known']:
            sc['ps'] = [7, 3, ctx.rng.choice([None, 1, 2])]
        obs, bad, run = K.grow(sc, ctx.rng, PID, max_ops=16, weights={'retryable': 0.25, 'unprepared': 0.5})
        items.append((sc, obs, bad, {'sample': i == 7}))
    return items


def run(ctx):
    gen(ctx)
    ok = ctx.prove('Props/C19.v')
    if ctx.tier == 'thorough' and ok:
        ctx.coqchk('Props/C19.v')
    items = []
    for name, sc in K.load_corpus(PID):
        sc = dict(sc)
        obs, bad, run_ = K.replay_scenario(sc, PID)
        items.append((sc, obs, bad, {'nontrivial': True}))
        ctx.count('source', 'corpus')
    sq = sequences(ctx)
    items += sq
    ctx.count('source', 'sequences_around_unprepared', len(sq))
    sd = shutdowns(ctx)
    items += sd
    ctx.count('source', 'session_shutdown', len(sd))
    rc = reconnects(ctx)
    items += rc
    ctx.count('source', 'reconnect_during_reprepare', len(rc))
    cc = concurrent(ctx)
    items += cc
    ctx.count('source', 'two_concurrent_reprepares', len(cc))
    rd = randoms(ctx, int((700 if ctx.tier == 'quick' else 8000) * K.SCALE))
    items += rd
    ctx.count('source', 'random_history', len(rd))
    for sc, obs, bad, tags in items:
        ctx.count('protocol_version', sc['pv'])
    ctx.exhaustive = ctx.tier == 'thorough'
    ctx.rule = ('sequences around UNPREPARED: protocol version {3,4,5,DSE_V1,DSE_V2} x statement keyspace x connection keyspace x '
                'statement known to cluster._prepared_statements (same / different text / absent) x future carries the prepared '
                'statement? x 15 answers to the PREPARE (same id, larger id, smaller id, rows, void, 5 server/connection errors, UNPREPARED, two '
                'other errors, other exception, junk) x pool state when the task runs x answer to the re-sent request (complete in the '
                'thorough tier, 45% sample of the non-PREPARED answers in quick); plus two concurrent re-prepares (speculative execution) x all pairs of 8 answers x both orders; cluster cache with other '
                'statements\' ids (mismatch id = another cached id); plus random legal histories biased to UNPREPARED. '
                'Non-trivial = at least 4 operations (2 for random); distinct = distinct scenario incl. history.')
    K.evaluate(ctx, PID, items)
    ctx.trust('fake session / pools / connections / executor queue (lib/vf/futb_harness.py)',
              'Python oracle of the C19 statement (lib/vf/futb_check.py, which=C19); keyspace-flag rule of the oracle: v5+ except DSE_V1')
    ctx.assume('each response delivery and each session.submit task is one atomic step',
               'all connections of the session report the same keyspace')


def replay(ctx, rp):
    return K.do_replay(ctx, rp, PID)
