"""C41 -- protocol version negotiation only steps down and terminates.

(T) ProtocolVersion.get_lower_supported, the version tables, the feature predicates and Cluster.protocol_downgrade are
regenerated from source; Props/C41.v proves descent/termination of the connect loop for every server.
(C) the real Cluster.protocol_downgrade + ControlConnection._try_connect run against scripted servers
(all starting versions x all subsets of accepted versions x explicit/implicit x beta behaviour), compared with the
model's trace and outcome, and checked against the property directly.
"""
import itertools
from vf import py2coq, core
from vf.specs import protover

META = {
    'technique': 'Coq proof (well-founded descent on the version table) over source-translated get_lower_supported/protocol_downgrade + exhaustive correspondence of the connect loop',
    'level_text': 'C41_lower, C41_explicit_never_downgraded, C41_never_up, C41_terminates proved for every integer version and every server '
                  'behaviour over Gallina regenerated from cassandra/__init__.py and cluster.py; the hand model of the _try_connect loop is '
                  'compared with the real loop exhaustively over server-support subsets.',
    'level_note': 'Trusted: Coq kernel, py2coq, the hand model of the retry loop in ControlConnection._try_connect (Model/Negotiation.v, '
                  'tied by exhaustive correspondence). Connection-level detection of "unsupported version" (Connection.factory) is an input.',
    'design_ref': 'DESIGN.md section 4, C41',
}


def gen(ctx):
    ctx.generate('ProtoConsts.v', lambda: py2coq.emit_consts(core.REPO, protover.consts()))
    ctx.generate('ProtoVersion.v', lambda: py2coq.Translator(core.REPO, protover.fns(),
                                                            imports=['From Verif Require Import ProtoConsts.']).emit())


class Stop(Exception):
    pass


_CLUSTER_CACHE = {}


def make_cluster(start, explicit):
    """A REAL Cluster built by its own __init__ (no scheduler thread, executor shut down at once), so that the way the
    constructor derives `_protocol_version_explicit` from its arguments is part of what is checked: explicit means
    `protocol_version=start` was passed, implicit means it was not (the version is then set as negotiation would)."""
    from vf.impl import import_cluster
    cl = import_cluster()
    from cassandra.connection import Connection

    class FakeConnClass(Connection):
        @classmethod
        def initialize_reactor(cls):
            pass

        @classmethod
        def handle_fork(cls):
            pass

    class NoSched(object):
        is_shutdown = False

        def __init__(self, *a, **k):
            pass

        def schedule(self, *a, **k):
            pass

        schedule_unique = schedule

        def shutdown(self):
            pass
    real = cl._Scheduler
    cl._Scheduler = NoSched
    try:
        kw = dict(contact_points=['127.0.0.1'], connection_class=FakeConnClass, monitor_reporting_enabled=False,
                  idle_heartbeat_interval=0, executor_threads=1)
        if explicit:
            kw['protocol_version'] = start
        c = cl.Cluster(**kw)
    finally:
        cl._Scheduler = real
    c.executor.shutdown()
    if not explicit:
        c.protocol_version = start
    return cl, c


def run_impl(start, explicit, accept, beta_err_versions):
    """Drive the real loop.  Returns (versions tried, outcome) with outcome 'connected:v' | 'failed'."""
    cl, cluster = make_cluster(start, explicit)
    from cassandra.connection import ProtocolVersionUnsupported
    from cassandra.protocol import ProtocolException
    from cassandra import DriverException
    tried = []

    class FakeConn(object):
        def __init__(self, v):
            self.v = v
            self.closed = False

        def close(self):
            self.closed = True

        def register_watchers(self, *a, **k):
            raise Stop()      # the loop under test is over: a connection was established

    conns = []

    def factory(endpoint, *a, **k):
        v = cluster.protocol_version
        tried.append(v)
        if len(tried) > 50:
            raise Stop()
        if v in accept:
            c = FakeConn(v)
            conns.append(c)
            return c
        if v in beta_err_versions:
            raise ProtocolException(code=0x000A, info=None,
                                    message='Beta version of the protocol used (%d), but USE_BETA flag is unset' % v)
        raise ProtocolVersionUnsupported(endpoint, v)
    cluster.connection_factory = factory
    cc = cluster.control_connection
    cc._is_shutdown = False
    cc._protocol_version = cluster.protocol_version     # what ControlConnection.connect() records before it starts negotiating

    class H(object):
        endpoint = 'h1'
    try:
        cc._try_connect(H())
        out = 'returned'
    except Stop:
        out = 'connected:%d' % conns[-1].v if (conns and len(tried) <= 50) else 'loop'
    except (DriverException, ProtocolException, ProtocolVersionUnsupported) as e:
        out = 'failed'
    return tried, out, cluster.protocol_version


def unsupported_visible_before_wakeup():
    """Connection.factory() wakes up on connected_event and then reads is_unsupported_proto_version to decide whether to
    raise ProtocolVersionUnsupported (the only error the negotiation loop steps down on).  So when the server answers
    STARTUP/OPTIONS with the 'unsupported protocol version' ProtocolException, the flag must already be set at the
    moment connected_event is set.  Drives the real process_msg on a socket-less connection and snapshots the flag
    inside Event.set().  Returns None when fine, else a description."""
    import threading, struct
    from cassandra.connection import Connection, _Frame

    snap = []

    class Ev(object):
        def __init__(self, conn):
            self._e = threading.Event()
            self.conn = conn

        def set(self):
            snap.append(bool(self.conn.is_unsupported_proto_version))
            self._e.set()

        def is_set(self):
            return self._e.is_set()

        def wait(self, t=None):
            return self._e.wait(t)

        def clear(self):
            self._e.clear()

    class NoSock(Connection):
        def __init__(self):
            Connection.__init__(self, '127.0.0.1', protocol_version=4)
            self.connected_event = Ev(self)

        def defunct(self, exc):
            self.last_error = self.last_error or exc
            return Connection.defunct(self, exc)

        def close(self):
            self.is_closed = True
            self.connected_event.set()

        def push(self, data):
            pass
    import cassandra.protocol as PR
    problems = []
    # the rejection is framed in the SERVER's own highest version (8-byte header below v3, 9-byte from v3 on), whatever
    # version the connection asked for: every (requested, server) pair, through the real process_io_buffer
    for pv in (1, 2, 3, 4, 5, 6, 65, 66):
        for sv in (1, 2, 3, 4, 5):
            del snap[:]
            c = NoSock()
            c.protocol_version = pv
            got = []
            c._requests[0] = (got.append, PR.ProtocolHandler.decode_message, None)
            # the wording differs between servers (Cassandra 1.2/2.0 and ScyllaDB; 2.1-4.x; ...): all carry the same phrase
            msg = [b'Invalid or unsupported protocol version: %d' % pv,
                   b'Invalid or unsupported protocol version (%d); supported versions are (3/v3, 4/v4, 5/v5-beta)' % pv,
                   b'Invalid or unsupported protocol version %d. Supported versions are between 3 and 4.' % pv][(pv + sv) % 3]
            body = struct.pack('>i', 0x000A) + struct.pack('>H', len(msg)) + msg
            if sv < 3:
                frame = struct.pack('>BBbB', 0x80 | sv, 0, 0, 0) + struct.pack('>i', len(body)) + body
            else:
                frame = struct.pack('>BBhB', 0x80 | sv, 0, 0, 0) + struct.pack('>i', len(body)) + body
            try:
                c._iobuf.write(frame)
                c.process_io_buffer()
            except Exception as e:
                problems.append('requested v%d, server answers in v%d: process_io_buffer raised %r' % (pv, sv, e))
                continue
            where = 'requested v%d, rejection framed in v%d' % (pv, sv)
            if not c.is_unsupported_proto_version:
                problems.append('%s: is_unsupported_proto_version not set (frames parsed: %d, buffered %d bytes): the negotiation cannot step down'
                                % (where, len(got), c._iobuf.io_buffer.tell() if hasattr(c._iobuf, 'io_buffer') else -1))
            elif not snap:
                problems.append('%s: connected_event not set after the unsupported-version ERROR (factory() would hang until its timeout)' % where)
            elif not snap[0]:
                problems.append('%s: connected_event was set before is_unsupported_proto_version: a waiter in Connection.factory() can see the raw '
                                'ProtocolException instead of ProtocolVersionUnsupported and the negotiation never steps down' % where)
    if problems:
        return '; '.join(problems[:3]) + (' (+%d more)' % (len(problems) - 3) if len(problems) > 3 else '')
    return None


def reactor_rejection_probe():
    """What Connection.factory() finds when it wakes up, per reactor class whose close() can run without an event loop
    (gevent, eventlet; asyncio and twisted are driven by C10/C11/C47): defunct() records the server's rejection in last_error,
    then calls the reactor's close(), then sets connected_event.  The negotiation loop needs, at the moment the event fires,
    the unsupported-version flag for an ordinary rejection and the ProtocolException itself (is_beta_protocol_error) for a
    beta rejection -- a close() that overwrites last_error loses the latter.  Returns None or a description."""
    import importlib, struct, threading
    from cassandra.connection import Connection
    import cassandra.protocol as PR
    problems = []
    for modname, clsname in (('cassandra.io.geventreactor', 'GeventConnection'), ('cassandra.io.eventletreactor', 'EventletConnection')):
        try:
            cls = getattr(importlib.import_module(modname), clsname)
        except Exception:
            continue
        for kind, msg in (('unsupported', b'Invalid or unsupported protocol version (5); supported versions are (3/v3, 4/v4)'),
                          ('beta', b'Beta version of the protocol used (5/v5-beta), but USE_BETA flag is unset')):
            snap = []

            class Ev(object):
                def __init__(self, conn):
                    self._e = threading.Event()
                    self.conn = conn

                def set(self):
                    if not snap:
                        snap.append((self.conn.last_error, bool(self.conn.is_unsupported_proto_version)))
                    self._e.set()

                def is_set(self):
                    return self._e.is_set()

                def wait(self, t=None):
                    return self._e.wait(t)

                def clear(self):
                    self._e.clear()
            try:
                c = cls.__new__(cls)
                Connection.__init__(c, '127.0.0.1', protocol_version=5)
                c._read_watcher = c._write_watcher = None
                c._socket = None
                c.connected_event = Ev(c)
                c._requests[0] = (c._handle_startup_response, PR.ProtocolHandler.decode_message, None)
                body = struct.pack('>i', 0x000A) + struct.pack('>H', len(msg)) + msg
                c._iobuf.write(struct.pack('>BBhB', 0x84, 0, 0, 0) + struct.pack('>i', len(body)) + body)
                c.process_io_buffer()
            except Exception as e:
                problems.append('%s, %s rejection: probe raised %r' % (clsname, kind, e))
                continue
            if not snap:
                problems.append('%s, %s rejection: connected_event never set' % (clsname, kind))
                continue
            err, flag = snap[0]
            if kind == 'unsupported' and not flag:
                problems.append('%s: unsupported-version flag not set when connected_event fires' % clsname)
            if kind == 'beta' and not (isinstance(err, PR.ProtocolException) and getattr(err, 'is_beta_protocol_error', False)):
                problems.append('%s: after a beta-version rejection the waiter of connected_event finds last_error=%r instead of the '
                                'server\'s ProtocolException (is_beta_protocol_error): _try_connect cannot step down' % (clsname, err))
    return '; '.join(problems[:3]) if problems else None


def zl(v):
    return '(%d)' % v if v < 0 else '%d' % v


def run(ctx):
    gen(ctx)
    ok = ctx.prove('Props/C41.v')
    if ctx.tier == 'thorough' and ok:
        ctx.coqchk('Props/C41.v')
    from cassandra import ProtocolVersion as PV
    from cassandra.protocol import ProtocolException
    sup = sorted(PV.SUPPORTED_VERSIONS)
    beta = set(PV.BETA_VERSIONS)
    nonbeta_desc = sorted([v for v in sup if v not in beta], reverse=True)
    # does the implementation use the attribute we script for beta errors?
    starts = sup + [7, 0x43, 0]
    subsets = []
    for r in range(len(sup) + 1):
        for s in itertools.combinations(sup, r):
            subsets.append(set(s))
    if ctx.tier == 'quick':
        ctx.rng.shuffle(subsets)
        subsets = subsets[:40] + [set(), set(sup), {1}, {sup[0], sup[-1]}]
        ctx.exhaustive = False
    else:
        ctx.exhaustive = True
    ctx.rule = ('starting version in SUPPORTED_VERSIONS + {7, 0x43, 0} x subsets of versions the server accepts (all 2^%d in thorough) x explicit/implicit '
                'x beta versions answered with a beta ProtocolException or plain unsupported; non-trivial = distinct run with at least one downgrade' % len(sup))
    cases, meta = [], []
    for start in starts:
        for acc in subsets:
            for explicit in (False, True):
                # a server may know as beta a version the driver regards as released (Cassandra 3.10/3.11: v5 beta): 'beta' answers
                # for the driver's own beta versions, for v5, and for v5 + the driver's beta versions
                for beta_mode in (False, True, 5, 55):
                    beta_err = {False: set(), True: beta, 5: {5}, 55: beta | {5}}[beta_mode]
                    tried, out, final_pv = run_impl(start, explicit, acc, beta_err)
                    ctx.case([start, sorted(acc), explicit, beta_mode], nontrivial=len(tried) > 1,
                             sample={'start': start, 'server_accepts': sorted(acc), 'explicit': explicit, 'beta_error': beta_mode,
                                     'tried': tried, 'outcome': out})
                    ctx.count('attempts', len(tried))
                    ctx.count('outcome', out.split(':')[0])
                    case = {'start': start, 'accept': sorted(acc), 'explicit': explicit, 'beta_error': beta_mode}
                    # ---- the property on the implementation
                    key = None
                    if out in ('loop', 'returned'):
                        key = 'does-not-terminate'
                    elif not tried or tried[0] != start:
                        key = 'first-attempt-not-configured-version'
                    elif explicit and len(tried) != 1:
                        key = 'explicit-version-downgraded'
                    else:
                        for a, b in zip(tried, tried[1:]):
                            exp = [v for v in nonbeta_desc if v < a]
                            if b >= a:
                                key = 'steps-up'
                                break
                            if not exp or b != exp[0]:
                                key = 'not-next-lower-non-beta'
                                break
                        if key is None:
                            if out.startswith('connected:'):
                                v = int(out.split(':')[1])
                                if v not in acc or v != tried[-1]:
                                    key = 'connected-at-unaccepted-version'
                            elif out == 'failed':
                                if tried[-1] in acc:
                                    key = 'failed-despite-accept'
                                # must have given up only when nothing lower is left, or explicit, or non-downgradable
                                lower = [v for v in nonbeta_desc if v < tried[-1]]
                                if not explicit and lower and tried[-1] not in acc:
                                    key = 'gave-up-early'
                    if key:
                        ctx.violation('negotiation.' + key, 'start=%d accept=%r explicit=%s beta_error=%s: tried %r -> %s (%s)'
                                      % (start, sorted(acc), explicit, beta_mode, tried, out, key),
                                      case=case, expected=key, actual={'tried': tried, 'outcome': out}, theorem='C41_terminates')
                    srv = 'fun v => ' + ''.join('if v =? %s then Accept else ' % zl(v) for v in sorted(acc)) + \
                          ''.join('if v =? %s then BetaError else ' % zl(v) for v in sorted(beta_err)) + 'Unsupported'
                    o = 'Connected %s' % zl(int(out.split(':')[1])) if out.startswith('connected:') else 'Failed'
                    cases.append('(let r := try_connect enough_fuel (%s) %s %s in py_list_eqb (fst r) [%s] && outcome_eqb (snd r) (%s))'
                                 % (srv, 'true' if explicit else 'false', zl(start), '; '.join(zl(v) for v in tried), o))
                    meta.append((case, tried, out))
    # the hand-off from the connection layer: the unsupported-version verdict must be visible before the waiter wakes up
    try:
        prob = unsupported_visible_before_wakeup()
    except Exception as e:
        prob = None
        ctx.proof_broken.append(('harness:unsupported_visible_before_wakeup', repr(e)[:300]))
    ctx.case(['wakeup-order'], nontrivial=True)
    if prob:
        ctx.violation('connection.unsupported-flag-after-wakeup' if 'was set before' in prob else 'connection.rejection-frame-not-recognised', prob, case={'probe': 'unsupported_visible_before_wakeup'},
                      kind='interleaving', expected='flag set before connected_event', actual=prob, theorem='C41 (input of the loop model)')
    try:
        prob = reactor_rejection_probe()
    except Exception as e:
        prob = None
        ctx.proof_broken.append(('harness:reactor_rejection_probe', repr(e)[:300]))
    ctx.case(['reactor-rejection'], nontrivial=True)
    if prob:
        ctx.violation('connection.rejection-lost-by-reactor-close', prob, case={'probe': 'reactor_rejection_probe'}, kind='interleaving',
                      expected='the server rejection is what the waiter of connected_event finds', actual=prob, theorem='C41 (input of the loop model)')
    # get_lower_supported / predicates: translation validation on a range of integers
    pcases, pmeta = [], []
    for v in list(range(-3, 80)) + [127, 128, 255, 256, 2**31]:
        got = PV.get_lower_supported(v)
        pcases.append('(get_lower_supported %s =? %s)' % (zl(v), zl(got)))
        pmeta.append(('get_lower_supported', v, got))
        for p in protover.PREDS:
            g = bool(getattr(PV, p)(v))
            pcases.append('(Bool.eqb (pv_%s %s) %s)' % (p, zl(v), 'true' if g else 'false'))
            pmeta.append((p, v, g))
        ctx.case(['fn', v], nontrivial=False)
    if any(x[0].startswith('translate:') for x in ctx.proof_broken):
        return
    try:
        bad = ctx.coq_filter(['PyBase', 'ProtoConsts', 'ProtoVersion', 'Negotiation'], '(fun b : bool => b)', cases)
        for i in bad[:10]:
            case, tried, out = meta[i]
            ctx.disagreement('loop-model-vs-impl', 'model of the connect loop differs from _try_connect at %r: impl tried %r -> %s' % (case, tried, out),
                             case=case, actual={'tried': tried, 'outcome': out})
        bad = ctx.coq_filter(['PyBase', 'ProtoConsts', 'ProtoVersion'], '(fun b : bool => b)', pcases)
        for i in bad[:10]:
            ctx.disagreement('translation:%s' % pmeta[i][0], 'generated %s differs from Python at %r (python %r)' % pmeta[i], case=list(pmeta[i]))
    except RuntimeError as e:
        ctx.proof_broken.append(('correspondence:Negotiation', str(e)[-600:]))


def replay(ctx, rp):
    c = rp.get('case')
    if c and c.get('probe') == 'reactor_rejection_probe':
        prob = reactor_rejection_probe()
        print('replay probe: %s' % (prob or 'ok'))
        print(('VIOLATION property=C41 replay=%s' % ctx.replay_path) if prob else 'not reproduced')
        return 1 if prob else 0
    if c and c.get('probe'):
        prob = unsupported_visible_before_wakeup()
        print('replay probe: %s' % (prob or 'ok'))
        print(('VIOLATION property=C41 replay=%s' % ctx.replay_path) if prob else 'not reproduced')
        return 1 if prob else 0
    if not c or 'start' not in c:
        print('nothing to replay: %s' % rp.get('theorem'))
        return 1
    from cassandra import ProtocolVersion as PV
    bm = c['beta_error']
    beta_err = {False: set(), True: set(PV.BETA_VERSIONS), 5: {5}, 55: set(PV.BETA_VERSIONS) | {5}}[bm]
    tried, out, _ = run_impl(c['start'], c['explicit'], set(c['accept']), beta_err)
    print('replay %r -> tried %r outcome %s (recorded %r)' % (c, tried, out, rp.get('actual')))
    same = {'tried': tried, 'outcome': out} == rp.get('actual')
    print(('VIOLATION property=C41 replay=%s' % ctx.replay_path) if same else 'not reproduced')
    return 1 if same else 0
