"""C02 -- value encodings are byte-exact with Cassandra's type serializers.

Proof: Props/C02.v: the model's to_binary equals the independent specification Model/CassandraSpec.v (+CassandraSpecInt.v)
on every value in range and refuses every kind-correct value out of range; encodings in the image of the spec decode
to the value.  Tie (C): the same model is compared with cassandra.cqltypes (bytes and decoded values) and the
hand-written marshal model with cassandra.marshal.  The property itself is checked on the implementation by
comparing the driver's bytes with the Coq specification evaluated on the same value.
"""
import json, os, time
from vf import core
from vf import codec_gen as G
from vf import codec_run as R
from vf import marshal_validation as MV

META = {
    'technique': 'Coq proof (induction over type trees; marshal.py translated from source + bridge lemmas) that the model of cqltypes.to_binary equals an '
                 'independent specification of Cassandra\'s serializers + differential correspondence of model and spec with the real driver',
    'level_text': 'C02_full (to_binary = spec_result: exact bytes on every value that has an encoding, an exception otherwise, for every type tree, '
                  'protocol version and kind-correct value, by induction over types), C02_exact, C02_rejects, C02_decodes_spec_image, C02_scalar_exact, '
                  'C02_never_another_value, plus the source-level C02_source_* theorems (varint = BigInteger.toByteArray incl. minimality, vints/uvint = VIntCoding '
                  'incl. rejection) and C02_bridge_source_eq_model, proved over Model/CqlCodec.v and Gallina regenerated from cassandra/marshal.py.',
    'level_note': 'The specification is my transcription of Cassandra\'s serializers (trusted). Fixed-width table for vectors is the driver\'s own. '
                  'float32 rounding of Python floats is struct\'s (floats are quantified as bit patterns). The type-directed codec (cqltypes.py) is a hand-written '
                  'model tied by correspondence; marshal.py is translated (T) and bridged to the model.',
    'design_ref': 'DESIGN.md section 4, C02',
}


def classify(c):
    t, v = c['t'], c['v']
    tail = G.kind_of(t)
    if G.has_coll_null(t, v):
        tail = 'collection-null-element'
    return tail


def gen(ctx):
    # (T) cassandra/marshal.py regenerated into coq/Gen/MarshalGen.v; MarshalBridge.v proves it equal to MarshalModel.v
    return MV.gen(ctx, parts=('marshal',))


def run(ctx):
    T = ctx.extra.setdefault('timings_s', {})
    t0 = time.time()
    gen(ctx)
    ok = ctx.prove('Props/C02.v')
    T['prove'] = round(time.time() - t0, 1); t0 = time.time()
    if ctx.tier == 'thorough' and ok:
        ctx.coqchk('Props/C02.v')
    quick = ctx.tier == 'quick'
    cases = R.gen_cases(ctx, 1500 if quick else 20000, 400 if quick else 4000, 500 if quick else 8000, 4 if quick else 6)
    cases += R.image_cases()
    R.record(ctx, cases)
    ctx.rule = ('random type trees (depth <= %d) x protocol versions x typed values (boundary pools, nulls at every level), special shapes, corpus, '
                '16-40 KiB vector elements, hand-built Cassandra encodings (tuples/UDTs with empty fields), '
                'range-boundary stream (min-1, min, max, max+1 of every ranged type, alone and inside containers), shape-error stream, '
                'mutated-bytes decode stream, direct marshal.py stream; non-trivial = nested type or non-zero scalar; distinct by (stream, pv, type, value)'
                % (4 if quick else 6))
    ctx.exhaustive = False
    enc_cases = [c for c in cases if 'bs' not in c]
    T['cases'] = round(time.time() - t0, 1); t0 = time.time()
    # ---- the property on the implementation: driver bytes == specification (or both refuse)
    try:
        bad = ctx.coq_filter(R.MODEL_REQ, '(fun b : bool => b)', R.spec_exprs(enc_cases), shard=200)
        if bad:
            want = ctx.coq_eval(R.MODEL_REQ, ['spec_result %s %s %s' % (G.gz(enc_cases[i]['pv']), G.gtype(enc_cases[i]['t']), G.gvalue(enc_cases[i]['v'])) for i in bad[:40]])
        for n, i in enumerate(bad[:40]):
            c = enc_cases[i]
            spec = want[n]
            if c['enc'] is None:
                key, what = 'refuses.' + classify(c), 'driver raises %s but Cassandra has an encoding' % c['enc_exc']
            elif spec.strip() == 'None':
                key, what = 'accepts.' + classify(c), 'value outside the type\'s range is encoded instead of raising'
            else:
                key, what = 'exact.' + classify(c), 'driver bytes differ from Cassandra\'s serializer'
            ctx.violation(key, '%s: %s at protocol v%d value %s -> driver %s, specification %s'
                          % (what, json.dumps(c['t']), c['pv'], json.dumps(c['v'])[:200], bytes(c['enc']).hex() if c['enc'] is not None else c['enc_exc'], spec[:200]),
                          case={'pv': c['pv'], 't': c['t'], 'v': c['v']}, expected=spec, actual=c['enc'] if c['enc'] is not None else c['enc_exc'],
                          theorem='C02_exact_or_rejects')
        ctx.extra['spec_mismatches'] = len(bad)
        # "any encoding Cassandra produces decodes to the value Cassandra means by it": where the driver's bytes ARE the
        # specification's bytes (just checked), what the driver decodes from them must be the value
        badset = set(bad)
        for i, c in enumerate(enc_cases):
            if i not in badset:
                R.decode_oracle(ctx, c, 'decodes-image', 'C02_decodes_image', 'Cassandra\'s encoding of x does not decode to x', api=False)
    except RuntimeError as e:
        ctx.proof_broken.append(('oracle:CassandraSpec', str(e)[-800:]))
    T['spec_oracle'] = round(time.time() - t0, 1); t0 = time.time()
    for c in cases:
        if c['stream'] == 'image':
            R.image_oracle(ctx, c)
    # ---- cassandra.marshal against the specification (BigInteger.toByteArray, VIntCoding) and against itself
    R.marshal_impl_oracle(ctx, ctx.rng, 40 if quick else 1000)
    try:
        exprs, meta = R.marshal_spec_exprs(ctx.rng, 40 if quick else 1000)
        ctx.count('stream', 'marshal-spec', len(exprs))
        bad = ctx.coq_filter(R.MODEL_REQ, '(fun b : bool => b)', exprs, shard=200)
        want = ctx.coq_eval(R.MODEL_REQ, [meta[i][3] for i in bad[:10]]) if bad else []
        for n, i in enumerate(bad[:10]):
            fn, arg, got, _ = meta[i]
            ctx.violation('marshal.%s.exact' % fn, 'cassandra.marshal.%s(%r) = %s but the specification says %s'
                          % (fn, arg, bytes(got).hex() if got is not None else 'raises', want[n][:200]),
                          case={'fn': fn, 'arg': arg}, expected=want[n], actual=got, theorem='C02_source_%s' % fn)
    except RuntimeError as e:
        ctx.proof_broken.append(('oracle:CassandraSpecInt', str(e)[-800:]))
    T['model+marshal'] = round(time.time() - t0, 1); t0 = time.time()
    # ---- util.Date(datetime): the calendar day containing the instant (floor), against calendar and model
    try:
        exprs, meta = R.date_input_cases(ctx, ctx.rng, 20 if quick else 400)
        bad = ctx.coq_filter(R.MODEL_REQ, '(fun b : bool => b)', exprs, shard=200)
        for i in bad[:5]:
            ctx.disagreement('model-vs-impl.date_days_of_seconds', 'Model date_days_of_seconds differs from util.Date at %r' % (meta[i],), case={'fn': meta[i][0], 'secs': meta[i][1]}, actual=meta[i][2])
    except RuntimeError as e:
        ctx.proof_broken.append(('correspondence:date_days_of_seconds', str(e)[-600:]))
    try:
        MV.validate(ctx, parts=('marshal',))
    except Exception as e:
        ctx.proof_broken.append(('T-marshal validation', repr(e)[-400:]))
    # ---- the model against the implementation (bytes and decoded values, decode stream included)
    try:
        bad = ctx.coq_filter(R.MODEL_REQ, '(fun b : bool => b)', R.model_exprs(cases), shard=200)
        for i in bad[:20]:
            c = cases[i]
            ctx.disagreement('model-vs-impl.' + c['stream'] + '.' + G.kind_of(c['t']),
                             'model differs from cassandra.cqltypes: %s' % json.dumps({k: c.get(k) for k in ('pv', 't', 'v', 'bs', 'enc', 'dec', 'enc_exc', 'dec_exc')})[:600],
                             case={k: c.get(k) for k in ('pv', 't', 'v', 'bs')}, actual={'enc': c.get('enc'), 'dec': c.get('dec')})
        ctx.extra['model_disagreements'] = len(bad)
    except RuntimeError as e:
        ctx.proof_broken.append(('correspondence:CqlCodec', str(e)[-800:]))
    # ---- marshal.py against MarshalModel.v
    try:
        exprs, meta = R.marshal_cases(ctx.rng, 150 if quick else 2000)
        ctx.count('stream', 'marshal', len(exprs))
        bad = ctx.coq_filter(R.MODEL_REQ, '(fun b : bool => b)', exprs, shard=200)
        for i in bad[:10]:
            ctx.disagreement('model-vs-impl.marshal.' + meta[i][0], 'MarshalModel.%s differs from cassandra.marshal at %r' % (meta[i][0], meta[i][1]),
                             case={'fn': meta[i][0], 'arg': meta[i][1]})
        for fn, arg in meta[:3]:
            pass
    except RuntimeError as e:
        ctx.proof_broken.append(('correspondence:MarshalModel', str(e)[-800:]))
    T['t_validate'] = round(time.time() - t0, 1)
    ctx.trust('independent specification Model/CassandraSpec.v + CassandraSpecInt.v (transcribed from the protocol spec / Cassandra sources from memory)',
              'hand-written model Model/CqlCodec.v + MarshalModel.v + Utf8Model.v (tied by correspondence only)',
              'harness conversions model value <-> Python object (lib/vf/codec_gen.py)',
              'vector fixed-width table = the driver\'s serial_size (not independently verified)')
    ctx.assume('"raises" = any Python exception (DESIGN 4.0)',
               'time: the driver also accepts negative nanoseconds, duration: months/days beyond int32 -- Cassandra rejects them on arrival; '
               'encoding stays injective (C01), so no other value is written instead (docs/C02.md)',
               'float/double values are bit patterns; binary32 signalling NaNs cannot be held by a Python float')


def replay(ctx, rp):
    case = rp.get('case') or {}
    if case.get('fn') == 'date-of-datetime':
        import datetime
        from cassandra import util
        dt = G.EPOCH + datetime.timedelta(days=case['days'], seconds=case['tod'])
        got, want = util.Date(dt).days_from_epoch, (dt.date() - datetime.date(1970, 1, 1)).days
        print('replay util.Date(%s).days_from_epoch = %d, calendar day %d' % (dt.isoformat(), got, want))
        print(('VIOLATION property=C02 replay=%s' % ctx.replay_path) if got != want else 'not reproduced')
        return 1 if got != want else 0
    if 'v' not in case:
        print('nothing to replay against the driver: %s' % rp.get('theorem'))
        return 1
    import random
    # a `date` can be handed over as util.Date, datetime (any time of day), date or string: try the input kinds in turn
    tries = [R.run_case(case['pv'], case['t'], case['v'], random.Random(k)) for k in range(12)] if G.contains_scalar(case['t'], 'date') \
        else [R.run_case(case['pv'], case['t'], case['v'])]
    verdicts = ctx.coq_eval(R.MODEL_REQ, R.spec_exprs(tries))
    same = all(x.strip() == 'true' for x in verdicts)
    c = tries[[x.strip() == 'true' for x in verdicts].index(False)] if not same else tries[0]
    spec = ctx.coq_eval(R.MODEL_REQ, ['spec_result %s %s %s' % (G.gz(c['pv']), G.gtype(c['t']), G.gvalue(c['v']))])[0]
    print('replay pv=%s type=%s value=%s' % (case['pv'], json.dumps(case['t']), json.dumps(case['v'])[:300]))
    print('  driver: %s\n  specification: %s' % (bytes(c['enc']).hex() if c['enc'] is not None else 'raises ' + c['enc_exc'], spec[:400]))
    print(('VIOLATION property=C02 replay=%s' % ctx.replay_path) if not same else 'not reproduced')
    return 0 if same else 1
