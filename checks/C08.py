"""C08 -- partition tokens equal those of Cassandra's partitioners.

(T) rotl64, fmix, truncate_int64, _murmur3, Murmur3Token.hash_fn, BytesToken.hash_fn are regenerated from source into
coq/Gen/Murmur3Gen.v; Props/C08.v proves, for EVERY byte string, equality with the independent Java-semantics spec
(Model/Murmur3Spec.v).  Hand-modelled pieces (body_and_tail = struct.unpack_from; MD5Token.hash_fn) are tied by
correspondence here.  (C) spec and generated code are evaluated inside Coq against the real functions; an independent
Python transcription of the Java algorithm is the oracle for the directed search.
"""
import hashlib, json, os, subprocess
from vf import py2coq, core, cybuild
from vf.specs import murmur

META = {
    'technique': 'Coq proof (congruence mod 2^64 through the source-translated hash, induction over blocks and tail) + correspondence of spec/translation with the real functions',
    'level_text': 'C08_murmur3 / C08_murmur3_token: for every byte string the Gallina regenerated from cassandra/murmur3.py and '
                  'Murmur3Token.hash_fn equals the independent spec of Cassandra MurmurHash.hash3_x64_128 + Murmur3Partitioner normalisation '
                  '(closed under the global context); C08_md5, C08_bytes for the other partitioners.',
    'level_note': 'Trusted: Coq kernel; py2coq; the transcription of MurmurHash/Murmur3Partitioner/RandomPartitioner (Model/Murmur3Spec.v); '
                  'hand model of body_and_tail (struct.unpack_from) and of MD5Token.hash_fn, tied by correspondence; hashlib.md5 is an abstract function; '
                  'assumption `murmur3 is not None` (cassandra/murmur3.py always falls back to _murmur3). cassandra/cmurmur3.c (used by Murmur3Token.hash_fn whenever the '
                  'extension is built): hand model Model/Murmur3C.v with C integer semantics, proved equal to the spec for every key (C08_c_extension_*) and '
                  'tied to the extension compiled from the working tree by correspondence on the same keys; gcc itself is not modelled.',
    'design_ref': 'DESIGN.md section 4, C08',
}

M = (1 << 64) - 1


def java_murmur3(key):
    """Independent transcription of org.apache.cassandra.utils.MurmurHash.hash3_x64_128 (seed 0), first word, as a signed long."""
    def rotl(x, r):
        return ((x << r) | (x >> (64 - r))) & M

    def fmix(k):
        k ^= k >> 33
        k = (k * 0xff51afd7ed558ccd) & M
        k ^= k >> 33
        k = (k * 0xc4ceb9fe1a85ec53) & M
        k ^= k >> 33
        return k
    c1, c2 = 0x87c37b91114253d5, 0x4cf5ad432745937f
    n = len(key)
    nb = n // 16
    h1 = h2 = 0
    for i in range(nb):
        k1 = int.from_bytes(key[16 * i:16 * i + 8], 'little')
        k2 = int.from_bytes(key[16 * i + 8:16 * i + 16], 'little')
        k1 = (k1 * c1) & M; k1 = rotl(k1, 31); k1 = (k1 * c2) & M; h1 ^= k1
        h1 = rotl(h1, 27); h1 = (h1 + h2) & M; h1 = (h1 * 5 + 0x52dce729) & M
        k2 = (k2 * c2) & M; k2 = rotl(k2, 33); k2 = (k2 * c1) & M; h2 ^= k2
        h2 = rotl(h2, 31); h2 = (h2 + h1) & M; h2 = (h2 * 5 + 0x38495ab5) & M
    t = key[16 * nb:]
    k1 = k2 = 0

    def sb(b):
        return (b - 256 if b >= 128 else b) & M    # (long) byte, sign-extended
    for i in range(len(t) - 1, 7, -1):
        k2 ^= (sb(t[i]) << (8 * (i - 8))) & M
    if len(t) > 8:
        k2 = (k2 * c2) & M; k2 = rotl(k2, 33); k2 = (k2 * c1) & M; h2 ^= k2
    for i in range(min(len(t), 8) - 1, -1, -1):
        k1 ^= (sb(t[i]) << (8 * i)) & M
    if len(t) > 0:
        k1 = (k1 * c1) & M; k1 = rotl(k1, 31); k1 = (k1 * c2) & M; h1 ^= k1
    h1 ^= n; h2 ^= n
    h1 = (h1 + h2) & M; h2 = (h2 + h1) & M
    h1 = fmix(h1); h2 = fmix(h2)
    h1 = (h1 + h2) & M
    return h1 - (1 << 64) if h1 >= (1 << 63) else h1


def java_token(key):
    h = java_murmur3(key)
    return (1 << 63) - 1 if h == -(1 << 63) else h


def gen(ctx):
    ctx.generate('Murmur3Gen.v', lambda: py2coq.Translator(core.REPO, murmur.token_fns() + murmur.bytes_token_fns(),
                                                          imports=['From Verif Require Import Murmur3Ext.']).emit())


def zl(v):
    return '(%d)' % v if v < 0 else '%d' % v


def blist(b):
    return '[' + '; '.join(str(x) for x in b) + ']'


def keys(ctx):
    rng = ctx.rng
    out = [b'', b'\x00', b'\xff', b'\x80' * 16, b'\xff' * 15, b'\xff' * 17, bytes(range(256))]
    # corpus: 16-byte keys (obtained by inverting the hash for one block) whose raw hash is exactly Long.MIN_VALUE,
    # MIN_VALUE + 1 and MAX_VALUE: the only inputs on which the MIN_LONG -> MAX_LONG normalisation is visible
    out += [bytes.fromhex(h) for h in ('dfe76f52023fad4c82b861c2c65c7a6b', '0d68d15960efee13f50aaac4a49090e1',
                                       '1aaebd2d9c3a9d7e66513b2c91fcf940')]
    maxlen = 64 if ctx.tier == 'quick' else 200
    reps = 3 if ctx.tier == 'quick' else 12
    for n in range(0, maxlen + 1):
        for _ in range(reps):
            out.append(bytes(rng.randrange(256) for _ in range(n)))
    # every tail length with high-bit tail bytes in every tail position
    for tl in range(1, 16):
        for pos in range(tl):
            for hi in ((0x80, 0xff) if ctx.tier == 'quick' else (0x80, 0x81, 0xc3, 0xfe, 0xff)):
                base = bytearray(rng.randrange(128) for _ in range(16 + tl))
                base[16 + pos] = hi
                out.append(bytes(base))
    for n in ((1000,) if ctx.tier == 'quick' else (1000, 4096, 65537)):
        out.append(bytes(rng.randrange(256) for _ in range(n)))
    return out


def run(ctx):
    gen(ctx)
    ok = ctx.prove('Props/C08.v')
    if ctx.tier == 'thorough' and ok:
        ctx.coqchk('Props/C08.v')
    from cassandra.murmur3 import _murmur3, body_and_tail
    from cassandra import metadata as MD
    ctx.rule = ('random keys of every length 0..N, every tail length x tail position with a byte >= 0x80, long keys; non-trivial = distinct key of length >= 1; '
                'for each key: real _murmur3 / Murmur3Token.hash_fn / body_and_tail / MD5Token.hash_fn / BytesToken.hash_fn vs the Coq spec, the generated '
                'Gallina and an independent Python transcription of the Java algorithm')
    cases, meta = [], []
    ks_all = keys(ctx)
    for k in ks_all:
        got = _murmur3(k)
        tok = MD.Murmur3Token.hash_fn(k)
        ctx.case(k.hex(), nontrivial=len(k) > 0, sample={'key_hex': k.hex()[:80], 'len': len(k), 'murmur3': got, 'token': tok})
        ctx.count('len_mod_16', len(k) % 16)
        ctx.count('tail_has_high_byte', str(any(b >= 0x80 for b in k[16 * (len(k) // 16):])))
        exp = java_murmur3(k)
        if got != exp:
            ctx.violation('murmur3._murmur3.differs-from-cassandra', '_murmur3(%s) = %d, Cassandra MurmurHash gives %d' % (k.hex()[:64], got, exp),
                          case={'key_hex': k.hex()}, expected=exp, actual=got, theorem='C08_murmur3')
        if tok != java_token(k):
            ctx.violation('Murmur3Token.hash_fn.differs-from-partitioner', 'Murmur3Token.hash_fn(%s) = %d, Murmur3Partitioner gives %d' % (k.hex()[:64], tok, java_token(k)),
                          case={'key_hex': k.hex()}, expected=java_token(k), actual=tok, theorem='C08_murmur3_token')
        md5tok = MD.MD5Token.hash_fn(k)
        dig = hashlib.md5(k).digest()
        expmd5 = abs(int.from_bytes(dig, 'big', signed=True))
        if md5tok != expmd5:
            ctx.violation('MD5Token.hash_fn.differs-from-partitioner', 'MD5Token.hash_fn(%s) = %d, RandomPartitioner gives %d' % (k.hex()[:64], md5tok, expmd5),
                          case={'key_hex': k.hex()}, expected=expmd5, actual=md5tok, theorem='C08_md5')
        if MD.BytesToken.hash_fn(k) != k:
            ctx.violation('BytesToken.hash_fn.not-identity', 'BytesToken.hash_fn changes the key', case={'key_hex': k.hex()}, theorem='C08_bytes')
        # the public constructor Token.from_key (what Metadata.get_replicas calls), for the three partitioners on the SAME key, in
        # both orders: the token of one partitioner must not depend on what another partitioner computed for that key before
        for order in ((MD.Murmur3Token, MD.MD5Token, MD.BytesToken), (MD.BytesToken, MD.MD5Token, MD.Murmur3Token)):
            for cls_ in order:
                t_ = cls_.from_key(k)
                want = {MD.Murmur3Token: java_token(k), MD.MD5Token: expmd5, MD.BytesToken: k}[cls_]
                if type(t_) is not cls_ or t_.value != want:
                    ctx.violation('%s.from_key.differs-from-partitioner' % cls_.__name__,
                                  '%s.from_key(%s) = %s(%r), the partitioner gives %r (asked in the order %s)'
                                  % (cls_.__name__, k.hex()[:64], type(t_).__name__, t_.value if not isinstance(t_.value, bytes) else t_.value.hex()[:64],
                                     want if not isinstance(want, bytes) else want.hex()[:64], '/'.join(c.__name__ for c in order)),
                                  case={'key_hex': k.hex(), 'from_key': True}, theorem='C08_murmur3_token')
                    break
        if len(k) <= 300:
            bl = blist(k)
            body, tail, total = body_and_tail(k)
            cases.append('(res_eqb (murmur3_py %s) %s) && (murmur3_token %s =? %s) && (res_eqb (murmur3_hash_fn %s) %s) && '
                         '(let r := body_and_tail %s in py_list_eqb (fst (fst r)) %s && py_list_eqb (snd (fst r)) %s && (snd r =? %d)) && '
                         '(md5_hash_fn (fun _ => %s) [] =? %s)'
                         % (bl, zl(got), bl, zl(tok), bl, zl(tok), bl, '[' + '; '.join(zl(x) for x in body) + ']',
                            '[' + '; '.join(zl(x) for x in tail) + ']', total, blist(dig), zl(md5tok)))
            meta.append(k)
    # helper functions: translation validation on boundary integers
    from cassandra import murmur3 as MM
    ints = [0, 1, -1, 2**63 - 1, -2**63, 2**63, 2**64 - 1, 2**64, -2**64 - 5, 2**127 + 12345, -(2**100) + 7]
    ints += [ctx.rng.randrange(-2**130, 2**130) for _ in range(40)]
    for x in ints:
        cases.append('(truncate_int64 %s =? %s) && (fmix %s =? %s) && (rotl64 %s 31 =? %s) && (rotl64 %s 27 =? %s) && (rotl64 %s 33 =? %s)'
                     % (zl(x), zl(MM.truncate_int64(x)), zl(x), zl(MM.fmix(x)), zl(x), zl(MM.rotl64(x, 31)), zl(x), zl(MM.rotl64(x, 27)),
                        zl(x), zl(MM.rotl64(x, 33))))
        meta.append(('int', x))
        ctx.case(['int', x], nontrivial=False)
    if any(x[0].startswith('translate:') for x in ctx.proof_broken):
        return
    prelude = 'Definition res_eqb (r : res Z) (v : Z) : bool := match r with Ok x => x =? v | _ => false end.'
    try:
        bad = ctx.coq_filter(['PyBase', 'ByteWords', 'Murmur3Ext', 'Murmur3Spec', 'Murmur3Gen', 'TokenModels'], '(fun b : bool => b)',
                             cases, shard=60, prelude=prelude)
        for i in bad[:10]:
            k = meta[i]
            ctx.disagreement('model-vs-impl', 'Coq spec / generated code / hand models disagree with the implementation at %r'
                             % ((k.hex()[:80] if isinstance(k, bytes) else k),), case={'key_hex': k.hex()} if isinstance(k, bytes) else list(k))
    except RuntimeError as e:
        ctx.proof_broken.append(('correspondence:Murmur3', str(e)[-600:]))
    c_extension(ctx, ks_all)


def c_extension(ctx, ks):
    """cassandra/cmurmur3.c compiled from the working tree (content-hash cache shared with C07): the tokens it yields through
    Murmur3Token.hash_fn for the same keys, against the Java-semantics oracle and against the Coq model of the C code."""
    try:
        built, sos, cached = cybuild.build_cached(core.REPO)
    except Exception as e:
        ctx.proof_broken.append(('build-extensions', str(e)[-800:]))
        return
    inp, outp = os.path.join(ctx.scratch, 'c08_keys.json'), os.path.join(ctx.scratch, 'c08_out.json')
    json.dump([{'kind': 'murmur', 'key': k.hex()} for k in ks], open(inp, 'w'))
    env = dict(os.environ, PYTHONPATH=built + ':' + os.path.join(core.VERIF, 'lib'), PYTHONHASHSEED='0')
    p = subprocess.run(['/venv/bin/python', '-W', 'ignore', '-m', 'vf.c07_worker', inp, outp], env=env, cwd=ctx.scratch,
                       stdout=subprocess.PIPE, stderr=subprocess.STDOUT, text=True, timeout=1800)
    if p.returncode != 0:
        ctx.violation('cmurmur3.crash', 'the compiled cmurmur3 extension kills the interpreter on the key corpus: %s' % p.stdout[-300:],
                      case={'keys': [k.hex() for k in ks[:50]]}, theorem='C08_c_extension_token')
        return
    out = json.load(open(outp))
    ctx.extra['c_extension'] = {'murmur3': out['build']['murmur3'], 'build_cached': cached, 'keys': len(ks)}
    if 'cmurmur3' not in out['build']['murmur3']:
        ctx.proof_broken.append(('build-identity', 'cassandra.murmur3.murmur3 is not the C extension in the compiled build: %r' % (out['build'],)))
        return
    cases, meta = [], []
    for k, r in zip(ks, out['results']):
        ctx.count('c_extension_keys', 'len%%16=%d' % (len(k) % 16))
        if r and r[0] == 'exc':
            ctx.violation('cmurmur3.raises', 'cmurmur3.murmur3(%s) raises %s' % (k.hex()[:64], r[1]), case={'key_hex': k.hex(), 'c_extension': True})
            continue
        h, tok = int(r[0]), int(r[1])
        if h != java_murmur3(k):
            ctx.violation('cmurmur3.differs-from-cassandra', 'cmurmur3.murmur3(%s) = %d, Cassandra MurmurHash gives %d' % (k.hex()[:64], h, java_murmur3(k)),
                          case={'key_hex': k.hex(), 'c_extension': True}, expected=java_murmur3(k), actual=h, theorem='C08_c_extension_hash')
        if tok != java_token(k):
            ctx.violation('Murmur3Token.hash_fn.c-extension.differs-from-partitioner',
                          'with the C extension Murmur3Token.hash_fn(%s) = %d, Murmur3Partitioner gives %d' % (k.hex()[:64], tok, java_token(k)),
                          case={'key_hex': k.hex(), 'c_extension': True}, expected=java_token(k), actual=tok, theorem='C08_c_extension_token')
        if len(k) <= 300:
            cases.append('(murmur3_c %s =? %s) && (murmur3_token %s =? %s)' % (blist(k), zl(h), blist(k), zl(tok)))
            meta.append(k)
    try:
        bad = ctx.coq_filter(['ByteWords', 'Murmur3Spec', 'Murmur3C'], '(fun b : bool => b)', cases, shard=80)
        for i in bad[:10]:
            ctx.disagreement('c-model-vs-extension', 'Coq model of cmurmur3.c disagrees with the compiled extension at key %s' % meta[i].hex()[:80],
                             case={'key_hex': meta[i].hex(), 'c_extension': True})
    except RuntimeError as e:
        ctx.proof_broken.append(('correspondence:Murmur3C', str(e)[-600:]))


def replay(ctx, rp):
    c = rp.get('case') or {}
    if 'key_hex' not in c:
        print('nothing to replay: %s' % rp.get('theorem'))
        return 1
    from cassandra.murmur3 import _murmur3
    from cassandra import metadata as MD
    k = bytes.fromhex(c['key_hex'])
    if c.get('from_key'):
        from cassandra import metadata as MD
        bad = False
        for order in ((MD.Murmur3Token, MD.MD5Token, MD.BytesToken), (MD.BytesToken, MD.MD5Token, MD.Murmur3Token)):
            for cls_ in order:
                t_ = cls_.from_key(k)
                want = {MD.Murmur3Token: java_token(k), MD.MD5Token: abs(int.from_bytes(hashlib.md5(k).digest(), 'big', signed=True)), MD.BytesToken: k}[cls_]
                print('replay %s.from_key -> %s(%r), partitioner %r' % (cls_.__name__, type(t_).__name__, t_.value, want))
                bad = bad or type(t_) is not cls_ or t_.value != want
        print(('VIOLATION property=C08 replay=%s' % ctx.replay_path) if bad else 'not reproduced')
        return 1 if bad else 0
    if c.get('c_extension'):
        built, sos, cached = cybuild.build_cached(core.REPO)
        code = ('import sys; from cassandra import murmur3 as M; from cassandra.metadata import Murmur3Token as T; k = bytes.fromhex(sys.argv[1]); '
                'print(M.murmur3.__module__, M.murmur3(k), T.hash_fn(k))')
        p = subprocess.run(['/venv/bin/python', '-W', 'ignore', '-c', code, k.hex()], env=dict(os.environ, PYTHONPATH=built), cwd=ctx.scratch,
                           stdout=subprocess.PIPE, stderr=subprocess.STDOUT, text=True, timeout=600)
        print('replay (compiled cmurmur3) key=%s: %s; cassandra=%d partitioner=%d' % (k.hex()[:64], p.stdout.strip()[-200:], java_murmur3(k), java_token(k)))
        f = p.stdout.split()
        bad = p.returncode != 0 or len(f) < 3 or int(f[-2]) != java_murmur3(k) or int(f[-1]) != java_token(k)
        print(('VIOLATION property=C08 replay=%s' % ctx.replay_path) if bad else 'not reproduced')
        return 1 if bad else 0
    got, exp = _murmur3(k), java_murmur3(k)
    tok, etok = MD.Murmur3Token.hash_fn(k), java_token(k)
    md5tok, emd5 = MD.MD5Token.hash_fn(k), abs(int.from_bytes(hashlib.md5(k).digest(), 'big', signed=True))
    print('replay key=%s: _murmur3=%d cassandra=%d; token=%d partitioner=%d; md5 token ok=%s' % (k.hex()[:64], got, exp, tok, etok, md5tok == emd5))
    bad = got != exp or tok != etok or md5tok != emd5
    print(('VIOLATION property=C08 replay=%s' % ctx.replay_path) if bad else 'not reproduced')
    return 1 if bad else 0
