"""C24 -- reconnection schedules respect their delay bounds and attempt limits.

Model/Reconnect.v (exact rationals) mirrors ConstantReconnectionPolicy / ExponentialReconnectionPolicy.new_schedule and
_add_jitter; Props/C24.v proves bounds, curve, jitter band and attempt limits for EVERY index.
(C) the real policies are run with fractions.Fraction parameters (duck-typed code, exact results) and a scripted randint,
and compared item by item with the model; int and float parameters are checked against the exact values too; the
property's statement is evaluated directly on the implementation (first 2000 items in thorough, 1100 in quick: past
index 1024 where float powers overflow).
"""
import itertools
from fractions import Fraction as F
from vf import core

META = {
    'technique': 'Coq proof over exact rationals (every index) + exact correspondence with the real policies run on Fraction parameters',
    'level_text': 'C24_constant, C24_limit, C24_unbounded, C24_exp_bounds, C24_exp_curve proved for all rational delays, all jitter '
                  'sequences in 85..115 and every attempt index; hand model tied to cassandra/policies.py by exact item-by-item '
                  'comparison (Fractions), plus float/int runs compared with the exact values.',
    'level_note': 'Trusted: Coq kernel; correspondence harness; Python float rounding is outside the model (floats compared to the exact '
                  'rational within 1e-12 relative). What _ReconnectionHandler.start does with an empty schedule is outside the statement (DESIGN 4.0).',
    'design_ref': 'DESIGN.md section 4, C24',
}


def q(x):
    x = F(x)
    return '(%s # %d)' % (('(%d)' % x.numerator) if x.numerator < 0 else str(x.numerator), x.denominator)


class Jit(object):
    def __init__(self, seq):
        self.seq, self.i = seq, 0

    def __call__(self, a, b):
        v = self.seq[self.i % len(self.seq)]
        self.i += 1
        return v


def take(it, n):
    """First n items (None once exhausted); ('exc', repr) if the iterator raises."""
    out = []
    it = iter(it)
    for _ in range(n):
        try:
            out.append(next(it))
        except StopIteration:
            out.append(None)
            break
        except Exception as e:
            out.append(('exc', repr(e)))
            break
    return out


def clamp(lo, hi, x):
    return min(max(lo, x), hi)


def close(a, exact):
    if isinstance(a, float):
        if a != a or a in (float('inf'), float('-inf')):
            return False
        return abs(F(a) - exact) <= abs(exact) * F(1, 10**12) + F(1, 10**300)
    return F(a) == exact


def run(ctx):
    ok = ctx.prove('Props/C24.v')
    if ctx.tier == 'thorough' and ok:
        ctx.coqchk('Props/C24.v')
    import cassandra.policies as P
    N = 2000 if ctx.tier == 'thorough' else 1100
    ctx.rule = ('(delay | base, max) from a pool incl. 0 as int/float/Fraction x max_attempts in {None,0,1,2,3,5,64} x scripted jitter sequences; '
                'Fraction runs compared exactly with the Coq model; every run checked against the statement for the first %d items; '
                'non-trivial = distinct parameter tuple with a non-zero base or a finite limit' % N)
    old = P.randint
    cases, meta = [], []
    try:
        # ---------------- constant
        for delay in (0, 1, 2.5, F(1, 3), 0.0, 10**9):
            for ma in (None, 0, 1, 2, 64):
                pol = P.ConstantReconnectionPolicy(delay, max_attempts=ma)
                got = take(pol.new_schedule(), (ma + 2) if ma is not None else N)
                ctx.case(['const', str(delay), ma], nontrivial=True, sample={'policy': 'constant', 'delay': str(delay), 'max_attempts': ma, 'first': [str(x) for x in got[:3]]})
                ctx.count('policy', 'constant')
                case = {'policy': 'constant', 'delay': str(delay), 'max_attempts': ma}
                n_items = len([x for x in got if x is not None and not isinstance(x, tuple)])
                if any(isinstance(x, tuple) for x in got):
                    ctx.violation('Constant.new_schedule.raises', 'constant schedule raised: %r' % (got[-1],), case=case, actual=str(got[-1]))
                elif ma is not None and n_items != ma:
                    ctx.violation('Constant.new_schedule.length.max_attempts=%s' % ('0' if ma == 0 else 'n'),
                                  'ConstantReconnectionPolicy(%r, max_attempts=%r) yields %s delays instead of %d'
                                  % (delay, ma, ('>= %d' % n_items), ma), case=case, expected=ma, actual=n_items, theorem='C24_limit')
                elif ma is None and n_items < N:
                    ctx.violation('Constant.new_schedule.ends', 'unlimited constant schedule ended after %d items' % n_items, case=case, actual=n_items)
                elif any(x != delay for x in got if x is not None):
                    ctx.violation('Constant.new_schedule.value', 'constant schedule yields a delay other than %r' % (delay,), case=case)
                # state left over from an earlier schedule: every new_schedule() of the SAME policy object is a fresh schedule
                s2, s3 = pol.new_schedule(), pol.new_schedule()
                n_more = (ma + 2) if ma is not None else 50
                inter = [[], []]
                for _i in range(n_more):
                    for w, sch in enumerate((s2, s3)):
                        try:
                            inter[w].append(next(sch))
                        except StopIteration:
                            inter[w].append(None)
                first = [x for x in got if x is not None][:n_more]
                for w in (0, 1):
                    if [x for x in inter[w] if x is not None] != first and not any(isinstance(x, tuple) for x in got):
                        ctx.violation('Constant.new_schedule.shared-between-schedules',
                                      'ConstantReconnectionPolicy(%r, max_attempts=%r): schedule #%d of the same policy object yields %r, the first one yielded %r'
                                      % (delay, ma, w + 2, [str(x) for x in inter[w][:6]], [str(x) for x in got[:6]]),
                                      case=dict(case, schedules=3), expected=[str(x) for x in got[:6]], actual=[str(x) for x in inter[w][:6]], theorem='C24_limit')
                        break
                if ma is not None or True:
                    exp = ['(Some %s)' % q(delay)] * (ma if ma is not None else 5) + (['None'] if ma is not None else [])
                    cases.append('prefix_eqb (constant_schedule %s %s) 0 [%s]' % (q(delay), 'None' if ma is None else '(Some %d%%nat)' % ma, '; '.join(exp)))
                    # compare the model's prediction with what the implementation did
                    impl = [('None' if x is None else '(Some %s)' % q(x)) for x in got[:len(exp)] if not isinstance(x, tuple)]
                    cases[-1] = 'prefix_eqb (constant_schedule %s %s) 0 [%s]' % (q(delay), 'None' if ma is None else '(Some %d%%nat)' % ma, '; '.join(impl))
                    meta.append(case)
        # ---------------- exponential
        bases = [0, 0.0, F(0), 1, 0.5, F(1, 2), F(3, 7), 2, 1e-3, 5.0]
        maxes = [0, 0.0, 1, 2.0, F(10), 600, 600.0, F(7, 2), 1e9]
        jits = [[100], [85], [115], [85, 115, 100, 97, 103]]
        combos = [(b, m) for b in bases for m in maxes if F(b) <= F(m)]
        if ctx.tier == 'quick':
            ctx.rng.shuffle(combos)
            combos = combos[:28] + [(0.0, 600.0), (0, 600), (F(1, 2), F(10)), (1e-3, 1e9)]
        # boundary ratios, every tier and every jitter script: max an exact power-of-two multiple of base (the curve reaches max exactly),
        # and base*2^k < max < 1.15*base*2^k (an upward jitter on the last ramp item would overshoot max without the clamp)
        special = [(1, 64), (1, 2), (F(1, 2), F(32)), (5, 10), (2.0, 128.0), (3, 100), (1, 9), (F(5), F(42)), (2, 70), (F(3), F(200))]
        combos = combos + special
        for (b, m) in combos:
            for ma in ((None, 0, 1, 3, 64) if ctx.tier == 'thorough' else (None, 0, 3)):
                for js in (jits if (ctx.tier == 'thorough' or (b, m) in special) else jits[::3] + [jits[-1]]):
                    P.randint = Jit(js)
                    pol = P.ExponentialReconnectionPolicy(b, m, max_attempts=ma)
                    n = (ma + 2) if ma is not None else N
                    got = take(pol.new_schedule(), n)
                    case = {'policy': 'exponential', 'base': repr(b), 'max': repr(m), 'max_attempts': ma, 'jitter': js}
                    ctx.case(['exp', repr(b), repr(m), ma, js], nontrivial=(F(b) != 0 or ma is not None),
                             sample=dict(case, first=[str(x) for x in got[:4]]))
                    ctx.count('policy', 'exponential')
                    ctx.count('param_kind', type(b).__name__ + '/' + type(m).__name__)
                    items = [x for x in got if x is not None]
                    key = None
                    if any(isinstance(x, tuple) for x in items):
                        key, what = 'raises', 'schedule raised %r at index %d' % (items[-1], len(items) - 1)
                    elif ma is not None and len(items) != ma:
                        key, what = 'length', 'yields %d delays instead of %d' % (len(items), ma)
                    elif ma is None and len(items) < n:
                        key, what = 'ends', 'unlimited schedule ended after %d items' % len(items)
                    else:
                        for i, d in enumerate(items):
                            c = min(F(b) * 2 ** i, F(m))
                            j = js[i % len(js)]
                            exact = clamp(F(b), F(m), F(j) * c / 100)
                            lo = clamp(F(b), F(m), F(85) * c / 100)
                            hi = clamp(F(b), F(m), F(115) * c / 100)
                            tol = abs(hi) * F(1, 10**12)
                            if isinstance(d, float) and (d != d or d in (float('inf'), float('-inf'))):
                                key, what = 'not-finite', 'item %d = %r' % (i, d)
                                break
                            if not (F(b) <= F(d) <= F(m)):
                                key, what = 'out-of-bounds', 'item %d = %r outside [%r, %r]' % (i, d, b, m)
                                break
                            # the statement: within the jitter band around the doubling curve (clamped)
                            if not (lo - tol <= F(d) <= hi + tol):
                                key, what = 'off-curve', 'item %d = %r outside the jitter band [%s, %s] of min(base*2^%d, max)' % (
                                    i, d, float(lo), float(hi), i)
                                break
                    if not key and js == [100] and ma != 0:
                        # a second and third schedule of the SAME policy object, consumed alternately, equal the first
                        s2, s3 = pol.new_schedule(), pol.new_schedule()
                        k2 = min(len(got), 12)
                        a2, a3 = [], []
                        for _i in range(k2):
                            a2.append(next(s2, None))
                            a3.append(next(s3, None))
                        first = [x for x in got if x is not None][:k2]
                        if [x for x in a2 if x is not None] != first or [x for x in a3 if x is not None] != first:
                            key, what = 'shared-between-schedules', 'later schedules of the same policy object yield %r / %r, the first one %r' % (
                                [str(x) for x in a2[:5]], [str(x) for x in a3[:5]], [str(x) for x in got[:5]])
                    if key:
                        ctx.violation('Exponential.new_schedule.' + key,
                                      'ExponentialReconnectionPolicy(%r, %r, max_attempts=%r): %s' % (b, m, ma, what),
                                      case=case, expected='C24 statement', actual=what, theorem='C24_exp_curve')
                    if isinstance(b, (int, F)) and isinstance(m, (int, F)) and not isinstance(b, bool):
                        # exact run: compare with the model item by item (ints divide to floats in _add_jitter: use Fractions only)
                        if isinstance(b, F) and isinstance(m, F):
                            k = min(len(got), 40)
                            impl = [('None' if x is None else '(Some %s)' % q(x)) for x in got[:k] if not isinstance(x, tuple)]
                            cases.append('prefix_eqb (exp_schedule %s %s %s (jit_of [%s])) 0 [%s]' % (
                                q(b), q(m), 'None' if ma is None else '(Some %d%%nat)' % ma,
                                '; '.join('%d%%Z' % (js[i % len(js)]) for i in range(k)), '; '.join(impl)))
                            meta.append(case)
    finally:
        P.randint = old
    handler_cases(ctx, P, cases, meta)
    # constructor validation (negative delays / max < base / negative attempts are rejected)
    for args, kw in (((-1,), {}), ((1,), {'max_attempts': -1})):
        try:
            P.ConstantReconnectionPolicy(*args, **kw)
            ctx.violation('Constant.init.accepts-invalid', 'ConstantReconnectionPolicy%r %r accepted' % (args, kw), case=[list(args), kw])
        except ValueError:
            pass
    for args, kw in (((-1, 5), {}), ((5, 1), {}), ((1, 5), {'max_attempts': -2})):
        try:
            P.ExponentialReconnectionPolicy(*args, **kw)
            ctx.violation('Exponential.init.accepts-invalid', 'ExponentialReconnectionPolicy%r %r accepted' % (args, kw), case=[list(args), kw])
        except ValueError:
            pass
    try:
        bad = ctx.coq_filter(['Reconnect'], '(fun b : bool => b)', cases,
                             prelude='From Coq Require Import QArith.\nLocal Open Scope Q_scope.')
        for i in bad[:10]:
            ctx.disagreement('model-vs-impl.%s' % meta[i]['policy'], 'schedule model differs from the implementation at %r' % (meta[i],),
                             case=meta[i], model=cases[i][:400])
    except RuntimeError as e:
        ctx.proof_broken.append(('correspondence:Reconnect', str(e)[-600:]))
    ctx.assume('jitter = randint(85, 115) is an arbitrary integer in 85..115 (scripted in the correspondence)')


class FakeScheduler(object):
    def __init__(self):
        self.calls = []     # (delay, fn)

    def schedule(self, delay, fn, *a, **k):
        self.calls.append((delay, fn))


def run_handler(schedule_items, outcomes):
    """Drive the real _HostReconnectionHandler: returns ('raise', name) or the list of delays passed to the scheduler,
    plus the number of reconnection attempts made."""
    from vf.impl import import_cluster
    import_cluster()
    from cassandra.pool import _HostReconnectionHandler
    from cassandra import AuthenticationFailed
    sched = FakeScheduler()
    attempts = [0]
    outs = list(outcomes)

    class Conn(object):
        def close(self):
            pass

    def factory():
        attempts[0] += 1
        o = outs.pop(0) if outs else 'fail'
        if o == 'fail':
            raise OSError('connection refused')
        if o == 'auth':
            raise AuthenticationFailed('bad credentials')
        return Conn()
    h = _HostReconnectionHandler('host1', factory, False, lambda host: None, lambda host: None,
                                 sched, iter(schedule_items), lambda *a, **k: None)
    try:
        h.start()
    except StopIteration:
        return 'raise', 0
    i = 0
    while i < len(sched.calls) and i < 500:
        fn = sched.calls[i][1]
        i += 1
        fn()
    return [d for d, _ in sched.calls], attempts[0]


def handler_cases(ctx, P, cases, meta):
    """_ReconnectionHandler consumes the whole schedule: attempts made == delays yielded, delays used in order."""
    scheds = [[F(0)] * 3, [F(0)], [F(1, 2), F(0), F(3)], [F(2)] * 5, [], [F(1), F(2), F(4), F(8)]]
    pol0 = P.ConstantReconnectionPolicy(0, max_attempts=3)
    for items in scheds:
        for outcomes in (['fail'] * 8, ['fail', 'ok'], ['fail', 'auth', 'fail'], ['ok'], ['fail', 'fail', 'ok']):
            got = run_handler(items, outcomes)
            case = {'policy': 'handler', 'schedule': [str(x) for x in items], 'outcomes': outcomes}
            ctx.case(['handler', [str(x) for x in items], outcomes], nontrivial=len(items) > 0,
                     sample=dict(case, scheduled=str(got[0]), attempts=got[1]))
            ctx.count('policy', 'handler')
            if got[0] != 'raise' and all(o == 'fail' for o in outcomes) and len(outcomes) >= len(items):
                delays, n_att = got
                if n_att != len(items) or [F(d) for d in delays] != list(items):
                    ctx.violation('_ReconnectionHandler.run.schedule-not-exhausted',
                                  'schedule %r allows %d reconnection attempts, the handler made %d (delays used %r)'
                                  % ([str(x) for x in items], len(items), n_att, [str(d) for d in delays]),
                                  case=case, expected=len(items), actual=n_att, theorem='C24_handler_uses_whole_schedule')
            oc = '[' + '; '.join({'fail': 'AFail', 'auth': 'AAuthFail', 'ok': 'ASucceed'}[o] for o in outcomes) + ']'
            impl = 'None' if got[0] == 'raise' else '(Some [%s])' % '; '.join(q(d) for d in got[0])
            cases.append('optlistQ_eqb (handler [%s] %s) %s' % ('; '.join(q(x) for x in items), oc, impl))
            meta.append(case)
    # and with a real policy schedule of zero delays
    got = run_handler(pol0.new_schedule(), ['fail'] * 10)
    if got[0] != 'raise' and got[1] != 3:
        ctx.violation('_ReconnectionHandler.run.schedule-not-exhausted',
                      'ConstantReconnectionPolicy(0, max_attempts=3): handler made %d attempts instead of 3' % got[1],
                      case={'policy': 'handler', 'schedule': ['0', '0', '0'], 'outcomes': ['fail'] * 10},
                      expected=3, actual=got[1], theorem='C24_handler_uses_whole_schedule')


def replay(ctx, rp):
    import cassandra.policies as P
    if (rp.get('case') or {}).get('policy') == 'handler':
        c = rp['case']
        got = run_handler([F(x) for x in c['schedule']], c['outcomes'])
        print('replay handler %r -> scheduled %r attempts %r' % (c, [str(d) for d in got[0]] if got[0] != 'raise' else got[0], got[1]))
        bad = got[0] != 'raise' and got[1] != len(c['schedule'])
        print(('VIOLATION property=C24 replay=%s' % ctx.replay_path) if bad else 'not reproduced')
        return 1 if bad else 0
    c = rp.get('case') or {}
    if c.get('policy') == 'constant':
        d = eval(c['delay'], {'Fraction': F})
        got = take(P.ConstantReconnectionPolicy(d, max_attempts=c['max_attempts']).new_schedule(), (c['max_attempts'] or 0) + 5)
        n = len([x for x in got if x is not None])
        print('replay constant %r -> %d items (limit %r)' % (c, n, c['max_attempts']))
        bad = c['max_attempts'] is not None and n != c['max_attempts']
    elif c.get('policy') == 'exponential':
        b, m = eval(c['base'], {'Fraction': F}), eval(c['max'], {'Fraction': F})
        old = P.randint
        P.randint = Jit(c['jitter'])
        try:
            got = take(P.ExponentialReconnectionPolicy(b, m, max_attempts=c['max_attempts']).new_schedule(), 1100)
        finally:
            P.randint = old
        bad = False
        for i, d in enumerate(x for x in got if x is not None):
            exact = clamp(F(b), F(m), F(c['jitter'][i % len(c['jitter'])]) * min(F(b) * 2 ** i, F(m)) / 100)
            if isinstance(d, tuple) or not close(d, exact):
                print('item %d = %r, exact %s' % (i, d, float(exact)))
                bad = True
                break
    else:
        print('nothing to replay: %s' % rp.get('theorem'))
        return 1
    print(('VIOLATION property=C24 replay=%s' % ctx.replay_path) if bad else 'not reproduced')
    return 1 if bad else 0
