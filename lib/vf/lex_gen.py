"""Generator of coq/Gen/CqlKeywords.v for C27/C29 (agent ag-lex): reserved words (py2coq.emit_consts), the shape of
valid_cql3_word_re / is_valid_name, and how connection.set_keyspace_* build the USE statement.  Fails closed
(py2coq.Unsupported) on anything it does not recognise."""
import ast, os, re
from . import py2coq

M = 'cassandra/metadata.py'
C = 'cassandra/connection.py'

# framework bug workaround (reported): Module.eval_const refers to self.SAFE_FUNCS, defined on ConstEnv only
if not hasattr(py2coq.Module, 'SAFE_FUNCS'):
    py2coq.Module.SAFE_FUNCS = py2coq.ConstEnv.SAFE_FUNCS


def _cls_ranges(body):
    """'a-z0-9_' -> [(97,122),(48,57),(95,95)]; only literal chars and ranges."""
    out, i = [], 0
    while i < len(body):
        c = body[i]
        if c in '\\^[]':
            raise py2coq.Unsupported('regex class %r' % body)
        if i + 2 < len(body) and body[i + 1] == '-':
            out.append((ord(c), ord(body[i + 2])))
            i += 3
        else:
            out.append((ord(c), ord(c)))
            i += 1
    return out


def parse_word_re(pat, flags_ok=True):
    m = re.fullmatch(r'\^\[([^\]]+)\]\[([^\]]+)\]\*(\$|\\Z|)', pat)
    if not m or not flags_ok:
        raise py2coq.Unsupported('valid_cql3_word_re pattern %r is not ^[..][..]*($|\\Z)' % pat)
    return _cls_ranges(m.group(1)), _cls_ranges(m.group(2)), m.group(3)


def _func(tree, name, cls=None):
    body = tree.body
    if cls:
        cs = [n for n in body if isinstance(n, ast.ClassDef) and n.name == cls]
        if not cs:
            raise py2coq.Unsupported('class %s not found' % cls)
        body = cs[0].body
    fs = [n for n in body if isinstance(n, ast.FunctionDef) and n.name == name]
    if not fs:
        raise py2coq.Unsupported('function %s not found' % name)
    return fs[0]


def word_re_info(repo):
    tree = ast.parse(open(os.path.join(repo, M)).read())
    pat = None
    for n in tree.body:
        if isinstance(n, ast.Assign) and any(isinstance(t, ast.Name) and t.id == 'valid_cql3_word_re' for t in n.targets):
            c = n.value
            if not (isinstance(c, ast.Call) and isinstance(c.func, ast.Attribute) and c.func.attr == 'compile'
                    and len(c.args) == 1 and not c.keywords and isinstance(c.args[0], ast.Constant)
                    and isinstance(c.args[0].value, str)):
                raise py2coq.Unsupported('valid_cql3_word_re is not re.compile(<literal>) without flags')
            pat = c.args[0].value
    if pat is None:
        raise py2coq.Unsupported('valid_cql3_word_re not found')
    first, rest, end = parse_word_re(pat)
    f = _func(tree, 'is_valid_name')
    meths = [n.func.attr for n in ast.walk(f) if isinstance(n, ast.Call) and isinstance(n.func, ast.Attribute)
             and isinstance(n.func.value, ast.Name) and n.func.value.id == 'valid_cql3_word_re']
    if len(meths) != 1 or meths[0] not in ('match', 'fullmatch'):
        raise py2coq.Unsupported('is_valid_name does not call valid_cql3_word_re.match/fullmatch exactly once')
    if meths[0] == 'fullmatch':
        dollar = (end == '$')      # `$` still matches before a final newline under fullmatch
    else:
        if end == '':
            raise py2coq.Unsupported('unanchored pattern with match()')
        dollar = (end == '$')
    return first, rest, dollar, pat, meths[0]


def _use_arg_escapes(fn):
    """Looks at every `'USE ...' % (...)` in the function: True if the argument doubles embedded double quotes."""
    found = []
    for n in ast.walk(fn):
        if isinstance(n, ast.BinOp) and isinstance(n.op, ast.Mod) and isinstance(n.left, ast.Constant) \
                and isinstance(n.left.value, str) and n.left.value.upper().startswith('USE'):
            fmt = n.left.value
            arg = n.right
            if isinstance(arg, ast.Tuple) and len(arg.elts) == 1:
                arg = arg.elts[0]
            if fmt == 'USE "%s"':
                if isinstance(arg, ast.Name):
                    found.append(False)
                    continue
                if isinstance(arg, ast.Call) and isinstance(arg.func, ast.Attribute) and arg.func.attr == 'replace' \
                        and isinstance(arg.func.value, ast.Name) and len(arg.args) == 2 \
                        and all(isinstance(a, ast.Constant) for a in arg.args) \
                        and arg.args[0].value == '"' and arg.args[1].value == '""':
                    found.append(True)
                    continue
            if fmt == 'USE %s' and isinstance(arg, ast.Call) and isinstance(arg.func, ast.Name) \
                    and arg.func.id == 'escape_name' and len(arg.args) == 1 and isinstance(arg.args[0], ast.Name):
                found.append(True)
                continue
            raise py2coq.Unsupported('unrecognised USE statement construction: %s' % ast.dump(n)[:120])
    if not found:
        raise py2coq.Unsupported('no USE statement built in %s' % fn.name)
    return found


def use_info(repo):
    tree = ast.parse(open(os.path.join(repo, C)).read())
    res = []
    for name in ('set_keyspace_blocking', 'set_keyspace_async'):
        res += _use_arg_escapes(_func(tree, name, 'Connection'))
    return all(res)


def zpairs(rs):
    return '[' + '; '.join('(%d, %d)' % r for r in rs) + ']'


def emit(repo):
    text = py2coq.emit_consts(repo, [('cql_keywords_reserved', M, 'cql_keywords_reserved'),
                                     ('cql_keywords_unreserved', M, 'cql_keywords_unreserved')],
                               header='From Coq Require Import String.  (* for the %string key; emit_consts only Requires it *)')
    first, rest, dollar, pat, meth = word_re_info(repo)
    esc = use_info(repo)
    text += '(* valid_cql3_word_re = %s used with .%s() *)\n' % (pat.replace('*)', '* )'), meth)
    text += 'Definition word_re_first : list (Z * Z) := %s.\n' % zpairs(first)
    text += 'Definition word_re_rest : list (Z * Z) := %s.\n' % zpairs(rest)
    text += 'Definition word_re_dollar : bool := %s.\n' % ('true' if dollar else 'false')
    text += '(* Connection.set_keyspace_blocking/async: is the keyspace escaped inside USE "..." ? *)\n'
    text += 'Definition use_escapes : bool := %s.\n' % ('true' if esc else 'false')
    return text
