"""bin/t-marshal: regenerate the T-marshal Gen files, build the proofs about them, run the translation validation.

Not a registered property check (only checks/C*.py are); it is the stand-alone driver of the shared source-translated
layer that C01/C02 (marshal), C06 (segment) and C34 (time) plug in.  Prints one summary line; exit code 1 when the
translation fails closed, a proof no longer compiles, an axiom appears, or generated code and implementation disagree.
"""
import argparse, os, re, shutil, sys, time
from . import core, marshal_validation as mv


def main(argv=None):
    ap = argparse.ArgumentParser(prog='bin/t-marshal')
    ap.add_argument('--tier', default='quick', choices=['quick', 'thorough'])
    ap.add_argument('--seed', type=int, default=int(os.environ.get('VERIF_SEED', '1')))
    ap.add_argument('--no-proofs', action='store_true', help='only regenerate + validate')
    a = ap.parse_args(argv)
    t0 = time.time()
    ctx = core.Ctx('Tmarshal', a.tier, a.seed)
    try:
        sys.path.insert(0, core.REPO)
        ok_gen = mv.gen(ctx)
        ok_vo = ok_gen and mv.build(ctx, proofs=False)          # generated code + models: needed by the validation
        ok_build = ok_vo and (a.no_proofs or mv.build(ctx, proofs=True))
        closed = axioms = 0
        if ok_build and not a.no_proofs:
            # Print Assumptions of the four proof files (re-run them: cheap once their dependencies are built)
            for f in mv.PROOFS:
                v = f[:-1]
                rc, out = core.sh(['timeout', '1200', 'coqc', '-Q', '.', 'Verif', v], cwd=core.COQ, timeout=1230)
                if rc != 0:
                    ctx.proof_broken.append((v, out[-800:]))
                closed += len(re.findall(r'Closed under the global context', out))
                axioms += len(re.findall(r'^Axioms:', out, re.M))
        # the validation also runs when a proof broke: it is the search for a concrete input (spec vs implementation)
        summary = mv.validate(ctx, do_build=False) if ok_vo else {'cases': 0, 'disagreements': 0, 'skipped': 'gen/build failed'}
        bad = bool(ctx.proof_broken or ctx.corr_broken or axioms)
        print('T-marshal tier=%s seed=%d gen=%s proofs=%s closed_theorems=%d axioms=%d validation_cases=%d disagreements=%d wall=%.1fs -> %s'
              % (a.tier, a.seed, 'ok' if ok_gen else 'FAILED', ('skipped' if (a.no_proofs and ok_build) else 'ok' if (ok_build and not ctx.proof_broken) else 'BROKEN'),
                 closed, axioms, summary.get('cases', 0), max(summary.get('disagreements', 0), len(ctx.corr_broken)), time.time() - t0, 'FAIL' if bad else 'ok'))
        for x in ctx.proof_broken[:3]:
            print('  broken: %s: %s' % (x[0], x[1][:400].replace('\n', ' | ')))
        for c in ctx.corr_broken[:5]:
            print('  differs: %s' % c.what[:400])
        return 1 if bad else 0
    finally:
        shutil.rmtree(ctx.scratch, ignore_errors=True)


if __name__ == '__main__':
    sys.exit(main())
