"""C40 harness: value specs (JSON-able) -> Python values, Gallina literals of Python values and of the GraphSON the
real serializers produce, real round trips through GraphSON1/2/3 (incl. json.dumps/json.loads)."""
import datetime as dtm
import decimal, ipaddress, json, re, uuid

TAGS = {'g:Int32': 'GInt32', 'g:Int64': 'GInt64', 'gx:Int16': 'GxInt16', 'gx:BigInteger': 'GxBigInteger', 'g:Float': 'GFloatT',
        'g:Double': 'GDoubleT', 'g:UUID': 'GUUID', 'gx:BigDecimal': 'GxBigDecimal', 'gx:Duration': 'GxDuration',
        'dse:Duration': 'DseDuration', 'gx:InetAddress': 'GxInetAddress', 'gx:Instant': 'GxInstant', 'gx:LocalDate': 'GxLocalDate',
        'gx:LocalTime': 'GxLocalTime', 'dse:Polygon': 'DsePolygon', 'dse:Point': 'DsePoint', 'dse:LineString': 'DseLineString',
        'dse:Blob': 'DseBlob', 'gx:ByteBuffer': 'GxByteBuffer', 'g:List': 'GListT', 'g:Map': 'GMapT', 'g:Set': 'GSetT',
        'dse:Tuple': 'DseTuple'}
TIO = {'TextTypeIO': 'TText', 'BooleanTypeIO': 'TBoolean', 'ByteBufferTypeIO': 'TByteBuffer', 'BlobTypeIO': 'TBlob',
       'BigDecimalTypeIO': 'TBigDecimal', 'LocalDateTypeIO': 'TLocalDate', 'LocalTimeTypeIO': 'TLocalTime',
       'DurationTypeIO': 'TDurationIO', 'InstantTypeIO': 'TInstant', 'UUIDTypeIO': 'TUUID', 'PolygonTypeIO': 'TPolygon',
       'PointTypeIO': 'TPoint', 'LineStringTypeIO': 'TLineString', 'JsonMapTypeIO': 'TJsonMap', 'FloatTypeIO': 'TFloat',
       'DoubleTypeIO': 'TDouble', 'InetTypeIO': 'TInet', 'IntegerTypeIO': 'TInteger', 'Int16TypeIO': 'TInt16',
       'Int32TypeIO': 'TInt32', 'Int64TypeIO': 'TInt64', 'BigIntegerTypeIO': 'TBigInteger', 'MapTypeIO': 'TMap',
       'ListTypeIO': 'TListIO', 'SetTypeIO': 'TSetIO', 'TupleTypeIO': 'TTupleIO', 'DseDurationTypeIO': 'TDseDuration',
       'TypeWrapperTypeIO': 'TWrapper'}
PYCLS = {'str': 'KStr', 'bool': 'KBool', 'bytearray': 'KBytearray', 'Decimal': 'KDecimal', 'date': 'KDate', 'time': 'KTime',
         'timedelta': 'KTimedelta', 'datetime': 'KDatetime', 'UUID': 'KUuid', 'Polygon': 'KPolygon', 'Point': 'KPoint',
         'LineString': 'KLineString', 'dict': 'KDict', 'float': 'KFloat', 'IPv4Address': 'KIPv4', 'IPv6Address': 'KIPv6',
         'memoryview': 'KMemoryview', 'bytes': 'KBytes', 'int': 'KInt', 'list': 'KList', 'set': 'KSet', 'tuple': 'KTuple',
         'Duration': 'KDuration', 'TypeIOWrapper': 'KWrapper'}


class SubDatetime(dtm.datetime):
    """a user subclass of datetime.datetime (pandas.Timestamp, freezegun's FakeDatetime, ... are such classes)"""


def z(v):
    return '(%d)' % v if v < 0 else '%d' % v


def zl(l):
    return '[' + '; '.join(z(x) for x in l) + ']'


def txt(s):
    return zl([ord(c) for c in s])


def float_dy(x):
    n, d = x.as_integer_ratio()
    e = -(d.bit_length() - 1)
    while n != 0 and n % 2 == 0:
        n //= 2
        e += 1
    return n, e


def td_us(td):
    return (td.days * 86400 + td.seconds) * 10 ** 6 + td.microseconds


def build(vs):
    from cassandra import util
    t = vs[0]
    if t == 'str':
        return ''.join(chr(c) for c in vs[1])
    if t == 'bool':
        return bool(vs[1])
    if t == 'int':
        return int(vs[1])
    if t == 'float':
        return float.fromhex(vs[1])
    if t in ('bytes', 'bytearray', 'memoryview'):
        b = bytes.fromhex(vs[1])
        return b if t == 'bytes' else bytearray(b) if t == 'bytearray' else memoryview(b)
    if t == 'decimal':
        return decimal.Decimal(vs[1])
    if t == 'date':
        return dtm.date.fromordinal(vs[1])
    if t == 'time':
        us = vs[1]
        return dtm.time(us // 3600000000, us // 60000000 % 60, us // 1000000 % 60, us % 1000000)
    if t in ('datetime', 'subdatetime'):
        d = dtm.datetime(1, 1, 1) + dtm.timedelta(microseconds=vs[1])
        if t == 'subdatetime':
            d = SubDatetime(d.year, d.month, d.day, d.hour, d.minute, d.second, d.microsecond)
        return d
    if t == 'timedelta':
        return dtm.timedelta(microseconds=vs[1])
    if t == 'uuid':
        return uuid.UUID(int=int(vs[1]))
    if t == 'point':
        return util.Point(vs[1], vs[2])
    if t == 'linestring':
        return util.LineString([tuple(p) for p in vs[1]])
    if t == 'polygon':
        return util.Polygon([tuple(p) for p in vs[1]], [[tuple(p) for p in ring] for ring in (vs[2] if len(vs) > 2 else [])] or None)
    if t == 'adatetime':
        # aware datetime: wall clock vs[1] (microseconds since 0001-01-01), zone = fixed offset in minutes or a harness rule zone
        from vf import cols_harness
        tz = cols_harness.ZONES[vs[2]] if isinstance(vs[2], str) else dtm.timezone(dtm.timedelta(minutes=vs[2]))
        return (dtm.datetime(1, 1, 1) + dtm.timedelta(microseconds=vs[1])).replace(tzinfo=tz)
    if t == 'duration':
        return util.Duration(vs[1], vs[2], vs[3])
    if t == 'ipv4':
        return ipaddress.IPv4Address(vs[1])
    if t == 'list':
        return [build(x) for x in vs[1]]
    if t == 'set':
        return set(build(x) for x in vs[1])
    if t == 'tuple':
        return tuple(build(x) for x in vs[1])
    if t == 'dict':
        return dict((build(k), build(v)) for k, v in vs[1])
    raise ValueError(vs)


class Unprintable(Exception):
    pass


def utc_reading(o):
    """the naive UTC datetime of the instant of an aware datetime, by exact timedelta arithmetic (independent of utctimetuple)"""
    return o.replace(tzinfo=None) - o.utcoffset()


def gal_pt(p):
    x, y = float(p[0]), float(p[1])
    if x != x or y != y or abs(x) == float('inf') or abs(y) == float('inf'):
        raise Unprintable('non-finite coordinate')
    return '((%s, %s), (%s, %s))' % tuple(z(a) for a in float_dy(x) + float_dy(y))


def gal_ring(coords):
    return '[%s]' % '; '.join(gal_pt(p) for p in coords)


WKT_NUM = r'[-+0-9.eE]+'


def gal_wkt(s):
    """the WKT text the driver produced -> Gallina wkt tokens"""
    def ring(body):
        pts = [q.split() for q in body.split(',')]
        return '[%s]' % '; '.join(gal_pt((float(a), float(b))) for a, b in pts)
    m = re.match(r'^POINT \((%s) (%s)\)$' % (WKT_NUM, WKT_NUM), s)
    if m:
        return '(JWkt (WPoint %s))' % gal_pt((float(m.group(1)), float(m.group(2))))
    if s == 'LINESTRING EMPTY':
        return '(JWkt WLineEmpty)'
    if s == 'POLYGON EMPTY':
        return '(JWkt WPolyEmpty)'
    m = re.match(r'^LINESTRING \(([^()]*)\)$', s)
    if m:
        return '(JWkt (WLine %s))' % ring(m.group(1))
    m = re.match(r'^POLYGON \((\([^()]*\)(, \([^()]*\))*)\)$', s)
    if m:
        return '(JWkt (WPoly [%s]))' % '; '.join(ring(r) for r in re.findall(r'\(([^()]*)\)', m.group(1)))
    raise Unprintable('WKT text %r' % s[:60])


def gal_g(o):
    """Python value -> Gallina rgval literal (leaves = the text Python prints for them)"""
    from cassandra import util
    c = 'txt txt txt txt txt'
    if isinstance(o, bool):
        return '(GBool %s %s)' % (c, 'true' if o else 'false')
    if isinstance(o, int):
        return '(GInt %s %s)' % (c, z(o))
    if isinstance(o, float):
        if o != o or o in (float('inf'), float('-inf')):
            raise Unprintable('non-finite float')
        return '(GFloat %s %s %s)' % ((c,) + tuple(z(a) for a in float_dy(o)))
    if isinstance(o, str):
        return '(GStr %s %s)' % (c, txt(o))
    if isinstance(o, (bytes, bytearray, memoryview)):
        k = 'BBytes' if isinstance(o, bytes) else 'BBytearray' if isinstance(o, bytearray) else 'BMemoryview'
        return '(GBlob %s %s %s)' % (c, k, zl(list(bytes(o))))
    if isinstance(o, decimal.Decimal):
        return '(GDecimal %s %s)' % (c, txt(str(o)))
    if isinstance(o, dtm.datetime):
        if o.tzinfo is not None:
            return '(GDatetimeAware %s %s %s)' % (c, txt(dtm.datetime.isoformat(o.replace(tzinfo=None))), txt(utc_reading(o).isoformat()))
        return '(GDatetime %s %s %s)' % (c, txt(dtm.datetime.isoformat(o)), 'false' if type(o) is dtm.datetime else 'true')
    if isinstance(o, dtm.date):
        return '(GDate %s %s)' % (c, txt(o.isoformat()))
    if isinstance(o, dtm.time):
        return '(GTime %s %s)' % (c, txt(o.strftime('%H:%M:%S.%f')))
    if isinstance(o, dtm.timedelta):
        return '(GTimedelta %s %s)' % (c, z(td_us(o)))
    if isinstance(o, uuid.UUID):
        return '(GUuid %s %s)' % (c, txt(str(o)))
    if isinstance(o, util.Point):
        return '(GGeom %s (GeoPoint %s))' % (c, gal_pt((o.x, o.y)))
    if isinstance(o, util.LineString):
        return '(GGeom %s (GeoLine %s))' % (c, gal_ring(o.coords))
    if isinstance(o, util.Polygon):
        return '(GGeom %s (GeoPoly %s [%s]))' % (c, gal_ring(o.exterior.coords), '; '.join(gal_ring(r.coords) for r in o.interiors))
    if isinstance(o, util.Duration):
        return '(GDuration %s %s %s %s)' % (c, z(o.months), z(o.days), z(o.nanoseconds))
    if isinstance(o, list):
        return '(GList %s [%s])' % (c, '; '.join(gal_g(x) for x in o))
    if isinstance(o, tuple):
        return '(GTuple %s [%s])' % (c, '; '.join(gal_g(x) for x in o))
    if isinstance(o, (set, frozenset)):
        return '(GSet %s [%s])' % (c, '; '.join(gal_g(x) for x in o))
    if isinstance(o, dict):
        return '(GDict %s [%s])' % (c, '; '.join('(%s, %s)' % (gal_g(a), gal_g(b)) for a, b in o.items()))
    raise Unprintable(type(o).__name__)


DUR_RE = re.compile(r'^(-)?P(-?\d+)DT(-?\d+)H(-?\d+)M(.+)S$')


def gal_dur(s):
    m = DUR_RE.match(s)
    if not m:
        raise Unprintable('duration text %r' % s)
    val = decimal.Decimal(m.group(5))
    sec = int(val // 1)
    us = int(((val - sec) * 10 ** 6).to_integral_value(rounding=decimal.ROUND_HALF_EVEN))
    sci = 'e' in m.group(5).lower()
    return ('(JDur {| d_neg := %s; d_days := %s; d_hours := %s; d_minutes := %s; d_sec := %s; d_us := %s; d_sci := %s |})'
            % ('true' if m.group(1) else 'false', z(int(m.group(2))), z(int(m.group(3))), z(int(m.group(4))), z(sec), z(us),
               'true' if sci else 'false'))


def gal_j(j, duration=False, wkt=False):
    """the JSON the real serializer produced -> Gallina json literal"""
    if j is None:
        return 'JNull'
    if isinstance(j, bool):
        return '(JBool %s)' % ('true' if j else 'false')
    if isinstance(j, int):
        return '(JInt %s)' % z(j)
    if isinstance(j, float):
        return '(JFloat %s %s)' % tuple(z(a) for a in float_dy(j))
    if isinstance(j, str):
        return gal_dur(j) if duration else gal_wkt(j) if wkt else '(JStr %s)' % txt(j)
    if isinstance(j, list):
        return '(JList [%s])' % '; '.join(gal_j(x) for x in j)
    if isinstance(j, dict):
        if '@type' in j:
            tag = j['@type']
            if tag not in TAGS:
                raise Unprintable('tag ' + tag)
            v = j.get('@value')
            if tag == 'dse:Tuple':
                inner = '(JTuple [%s])' % '; '.join(gal_j(x) for x in v['value'])
            elif tag == 'g:Map':
                inner = '(JPairs [%s])' % '; '.join('(%s, %s)' % (gal_j(a), gal_j(b)) for a, b in zip(v[0::2], v[1::2]))
            elif tag == 'dse:Duration':
                inner = '(JDseDur %s %s %s)' % (gal_j(v['months']), gal_j(v['days']), gal_j(v['nanos']))
            else:
                inner = gal_j(v, duration=(tag == 'gx:Duration'), wkt=tag in ('dse:Point', 'dse:LineString', 'dse:Polygon'))
            return '(JTyped %s %s)' % (TAGS[tag], inner)
        return '(JObj [%s])' % '; '.join('(%s, %s)' % (txt(k), gal_j(v)) for k, v in j.items())
    raise Unprintable(type(j).__name__)


def opt(s):
    return 'None' if s is None else '(Some %s)' % s


def roundtrip(ver, v):
    """real serializer -> json text -> real reader.  Returns dict(ser, ser_exc, back, back_exc, tio)"""
    from cassandra.datastax.graph import graphson as G
    out = {'ser': None, 'ser_exc': None, 'back': None, 'back_exc': None, 'tio': None}
    try:
        if ver == 1:
            tio = G.GraphSON1Serializer.get_serializer(v)
            out['tio'] = tio.__name__ if tio else None
            out['ser'] = json.loads(json.dumps(G.GraphSON1Serializer.serialize(v)))
        else:
            s = G.GraphSON2Serializer() if ver == 2 else G.GraphSON3Serializer({})
            tio = s.get_serializer(v)
            out['tio'] = tio.__name__ if tio else None
            out['ser'] = json.loads(json.dumps(s.serialize(v)))
    except Exception as e:
        out['ser_exc'] = type(e).__name__
        return out
    try:
        if ver == 1:
            tio = out['tio']
            if tio in (None, 'IntegerTypeIO'):
                out['back'] = G.GraphSON1Deserializer.deserialize_int(out['ser'])
            elif tio == 'TextTypeIO':
                out['back'] = out['ser']
            elif tio == 'BooleanTypeIO':
                out['back'] = G.GraphSON1Deserializer.deserialize_boolean(out['ser'])
            elif tio == 'FloatTypeIO':
                out['back'] = G.GraphSON1Deserializer.deserialize_double(out['ser'])
            else:
                out['back'] = G.GraphSON1Deserializer.deserialize(getattr(G, tio).graphson_type, out['ser'])
        else:
            r = G.GraphSON2Reader({}) if ver == 2 else G.GraphSON3Reader({})
            out['back'] = r.deserialize(out['ser'])
    except Exception as e:
        out['back_exc'] = type(e).__name__
    return out
