"""Shared driver of the C09 / C10 / C44 checks: generate histories, run oracles on the implementation, compare with the
model inside Coq at every check point."""
import json, os
from vf import core, conn_corr, conn_impl, conn_audit

PROFILES = [
    ('plain', {'nest': 0.25}),
    ('busy', {'nest': 0.2, 'busy': 1}),
    ('fail', {'nest': 0.3, 'fail': 1, 'busy': 1}),
    ('mixed', {'nest': 0.3, 'busy': 1, 'fail': 1, 'cp': 1, 'setks': 1, 'hb': 1, 'nopool': 0.15}),
    ('race', {'nest': 0.5, 'race': 1}),
    ('reprep', {'nest': 0.3, 'reprep': 0.5}),
]


def gen_cfg(rng):
    mif = rng.choice([3, 4, 4, 5])
    return dict(n_init=rng.choice([1, 2, mif]), max_in_flight=mif, thr=rng.choice([1, 2, 3]))


def random_histories(ctx, n, profiles=PROFILES, thread_threshold=False):
    out = []
    for k in range(n):
        name, prof = profiles[k % len(profiles)]
        cfg = gen_cfg(ctx.rng)
        if thread_threshold and ctx.rng.random() < 0.3:
            cfg['thread_threshold'] = 2
        h, acts = conn_corr.generate(ctx.rng, cfg, ctx.rng.randint(1, 6), prof, ctx.rng.randint(3, 14))
        out.append((name, cfg, acts, h))
        ctx.count('profile', name)
        ctx.count('requests', len(h.tokens))
        for ops, _ in h.points:
            for o in ops:
                ctx.count('op', o.split()[0])
    return out


def compare_with_model(ctx, hs, label):
    """hs: list of (name, cfg, actions, harness).  Returns indices that disagree with the model."""
    cases = [conn_corr.case_expr(h) for _, _, _, h in hs]
    try:
        bad = ctx.coq_filter(['Conn'], '(fun b : bool => b)', cases, shard=120)
    except RuntimeError as e:
        ctx.proof_broken.append(('correspondence:Conn', str(e)[-600:]))
        return []
    for i in bad[:5]:
        name, cfg, acts, h = hs[i]
        where = None
        try:
            res = ctx.coq_eval(['Conn'], conn_corr.first_bad_point_exprs(h))
            k = res.index('false') if 'false' in res else None
            if k is not None:
                ops = [o for p, _ in h.points[:k + 1] for o in p]
                m = ctx.coq_eval(['Conn'], ['let s := run %s [%s] in (obs s, log_codes s)' % (h.model_init(), '; '.join(ops))])
                where = {'point': k, 'ops_of_point': h.points[k][0], 'impl': h.points[k][1], 'model': m[0][:600]}
        except Exception as e:
            where = {'diagnosis_failed': str(e)[-200:]}
        ctx.disagreement('model-vs-impl.' + label, 'Conn model differs from the real Connection at check point %s of history %s'
                         % (where and where.get('point'), json.dumps(acts)[:400]),
                         case={'cfg': cfg, 'actions': acts}, actual=where and where.get('impl'), model=where and where.get('model'))
    return bad


def run_audit(ctx):
    probs, facts = conn_audit.audit(core.REPO)
    ctx.extra['lock_audit'] = probs or 'ok'
    ctx.extra['lock_audit_facts'] = facts
    ctx.trust('lock-region audit of connection.py / pool.py / cluster.py and of every reactor close() (lib/vf/conn_audit.py)')
    if probs:
        ctx.proof_broken.append(('atomicity-audit', '; '.join(probs)[:900]))
    return probs


def load_corpus(pid):
    d = os.path.join(core.VERIF, 'corpus', pid)
    out = []
    if os.path.isdir(d):
        for fn in sorted(os.listdir(d)):
            if fn.endswith('.json'):
                with open(os.path.join(d, fn)) as f:
                    out.append((fn, json.load(f)))
    return out


def max_id_of(cfg):
    """the protocol's bound, computed independently of the constructor: v3+ streams are 0..2^15-1 (and the driver never
    uses more than max_in_flight of them), v1/v2 streams are 0..127"""
    mif = cfg.get('max_in_flight')
    if mif is None:
        mif = 2 ** 15
    if cfg.get('protocol_version', 4) >= 3:
        return min(mif - 1, 2 ** 15 - 1)
    return min(mif, 2 ** 7 - 1)


def initial_state_problems(cfg):
    """C09 on the state the REAL Connection.__init__ produces: free ids pairwise distinct, exactly 0..highest_request_id,
    highest <= the protocol maximum (so that growing by highest+1 can never hand out an id that is already in the deque)"""
    h = conn_impl.Harness(**cfg)
    c = h.conn
    ids, hi, mx = list(c.request_ids), c.highest_request_id, max_id_of(cfg)
    out = []
    if len(set(ids)) != len(ids):
        out.append(('initial-state.duplicate-free-id', 'constructor left duplicate ids in request_ids'))
    if sorted(ids) != list(range(hi + 1)):
        out.append(('initial-state.free-ids-vs-highest', 'constructor: request_ids = %d..%d (%d ids) but highest_request_id = %d: get_request_id would '
                    'grow to %d, %s' % (min(ids), max(ids), len(ids), hi, hi + 1, 'an id that is already in the deque' if hi + 1 in ids else 'skipping ids')))
    if hi > mx or (ids and max(ids) > mx) or c.__dict__['_mri_real'] > mx:
        out.append(('initial-state.beyond-max', 'constructor: highest=%d max(free)=%d max_request_id=%d beyond the protocol maximum %d'
                    % (hi, max(ids), c.__dict__['_mri_real'], mx)))
    return out, {'free': [min(ids), max(ids), len(ids)], 'highest': hi, 'max_request_id': c.__dict__['_mri_real']}


INIT_CFGS = [dict(n_init=None, max_in_flight=None, thr=None), dict(n_init=None, max_in_flight=4, thr=None),
             dict(n_init=None, max_in_flight=300, thr=None), dict(n_init=None, max_in_flight=301, thr=None),
             dict(n_init=None, max_in_flight=1, thr=None),
             dict(n_init=None, max_in_flight=None, thr=None, protocol_version=2), dict(n_init=None, max_in_flight=10, thr=None, protocol_version=2),
             dict(n_init=None, max_in_flight=500, thr=None, protocol_version=1)]


def past_initial_fill(cfg, extra=3):
    """one history on the connection exactly as the constructor built it: more requests simultaneously in flight than ids were
    pre-allocated (the grow path of get_request_id), then every one answered"""
    h = conn_impl.Harness(**cfg)
    n = len(h.conn.request_ids) + extra
    acts = [{'a': 'query', 'r': k + 1, 'in_cb': [{'a': 'return'}]} for k in range(n)]
    acts += [{'a': 'respond_tok', 'r': k + 1} for k in range(n)]
    h2 = conn_corr.run_history(cfg, acts)
    return h2, acts
