"""Shared driver of the C09 / C10 / C44 checks: generate histories, run oracles on the implementation, compare with the
model inside Coq at every check point."""
import json, os
from vf import core, conn_corr, conn_impl, conn_audit

PROFILES = [
    ('plain', {'nest': 0.25}),
    ('busy', {'nest': 0.2, 'busy': 1}),
    ('fail', {'nest': 0.3, 'fail': 1, 'busy': 1}),
    ('mixed', {'nest': 0.3, 'busy': 1, 'fail': 1, 'cp': 1, 'setks': 1, 'hb': 1, 'nopool': 0.15}),
    ('race', {'nest': 0.5, 'race': 1}),
]


def gen_cfg(rng):
    mif = rng.choice([3, 4, 4, 5])
    return dict(n_init=rng.choice([1, 2, mif]), max_in_flight=mif, thr=rng.choice([1, 2, 3]))


def random_histories(ctx, n, profiles=PROFILES, thread_threshold=False):
    out = []
    for k in range(n):
        name, prof = profiles[k % len(profiles)]
        cfg = gen_cfg(ctx.rng)
        if thread_threshold and ctx.rng.random() < 0.3:
            cfg['thread_threshold'] = 2
        h, acts = conn_corr.generate(ctx.rng, cfg, ctx.rng.randint(1, 6), prof, ctx.rng.randint(3, 14))
        out.append((name, cfg, acts, h))
        ctx.count('profile', name)
        ctx.count('requests', len(h.tokens))
        for ops, _ in h.points:
            for o in ops:
                ctx.count('op', o.split()[0])
    return out


def compare_with_model(ctx, hs, label):
    """hs: list of (name, cfg, actions, harness).  Returns indices that disagree with the model."""
    cases = [conn_corr.case_expr(h) for _, _, _, h in hs]
    try:
        bad = ctx.coq_filter(['Conn'], '(fun b : bool => b)', cases, shard=120)
    except RuntimeError as e:
        ctx.proof_broken.append(('correspondence:Conn', str(e)[-600:]))
        return []
    for i in bad[:5]:
        name, cfg, acts, h = hs[i]
        where = None
        try:
            res = ctx.coq_eval(['Conn'], conn_corr.first_bad_point_exprs(h))
            k = res.index('false') if 'false' in res else None
            if k is not None:
                ops = [o for p, _ in h.points[:k + 1] for o in p]
                m = ctx.coq_eval(['Conn'], ['let s := run %s [%s] in (obs s, log_codes s)' % (h.model_init(), '; '.join(ops))])
                where = {'point': k, 'ops_of_point': h.points[k][0], 'impl': h.points[k][1], 'model': m[0][:600]}
        except Exception as e:
            where = {'diagnosis_failed': str(e)[-200:]}
        ctx.disagreement('model-vs-impl.' + label, 'Conn model differs from the real Connection at check point %s of history %s'
                         % (where and where.get('point'), json.dumps(acts)[:400]),
                         case={'cfg': cfg, 'actions': acts}, actual=where and where.get('impl'), model=where and where.get('model'))
    return bad


def run_audit(ctx):
    probs, facts = conn_audit.audit(core.REPO)
    ctx.extra['lock_audit'] = probs or 'ok'
    ctx.extra['lock_audit_facts'] = facts
    ctx.trust('lock-region audit of connection.py / pool.py / cluster.py and of every reactor close() (lib/vf/conn_audit.py)')
    if probs:
        ctx.proof_broken.append(('atomicity-audit', '; '.join(probs)[:900]))
    return probs


def load_corpus(pid):
    d = os.path.join(core.VERIF, 'corpus', pid)
    out = []
    if os.path.isdir(d):
        for fn in sorted(os.listdir(d)):
            if fn.endswith('.json'):
                with open(os.path.join(d, fn)) as f:
                    out.append((fn, json.load(f)))
    return out


def max_id_of(cfg):
    return min(cfg['max_in_flight'] - 1, 2 ** 15 - 1)
