"""Shared harness of C01/C02: CQL type trees and values in the model's syntax, conversion to/from the driver's
Python objects, Gallina literals, running cassandra.cqltypes, generators (structured, boundary, malformed).

Model syntax (JSON-able):
  type : ['s', name] | ['list', t] | ['set', t] | ['map', k, v] | ['tuple', [t..]] | ['udt', [t..]] |
         ['vector', t, n] | ['frozen', t] | ['reversed', t]
  value: ['null'] | ['int', z] | ['bool', b] | ['bytes', [..]] | ['text', [cp..]] | ['dec', u, s] | ['dur', m, d, n] |
         ['seq', [v..]] | ['map', [[k, v]..]]
"""
import datetime, decimal, json, socket, struct, uuid

SCALARS = ['ascii', 'bigint', 'blob', 'boolean', 'date', 'decimal', 'double', 'float', 'inet', 'int', 'smallint',
           'tinyint', 'text', 'time', 'timestamp', 'uuid', 'varint', 'duration']
COQ_SCALAR = {s: 'S' + s.capitalize() for s in SCALARS}
CASS_SCALAR = {'ascii': 'AsciiType', 'bigint': 'LongType', 'blob': 'BytesType', 'boolean': 'BooleanType',
               'date': 'SimpleDateType', 'decimal': 'DecimalType', 'double': 'DoubleType', 'float': 'FloatType',
               'inet': 'InetAddressType', 'int': 'Int32Type', 'smallint': 'ShortType', 'tinyint': 'ByteType',
               'text': 'UTF8Type', 'time': 'TimeType', 'timestamp': 'DateType', 'uuid': 'UUIDType',
               'varint': 'IntegerType', 'duration': 'DurationType'}
# aliases exercised by the generator: same codec, other class
ALIASES = {'bigint': ['LongType', 'CounterColumnType'], 'text': ['UTF8Type', 'VarcharType'],
           'uuid': ['UUIDType', 'TimeUUIDType'], 'timestamp': ['DateType', 'TimestampType']}
PVS = [1, 2, 3, 4, 5, 6, 65, 66]
DAY_NANOS = 86400 * 10 ** 9
TS_MIN, TS_MAX = -62135596800000, 253402300799999
EPOCH = datetime.datetime(1970, 1, 1)


# ----------------------------------------------------------------------------- Gallina literals
def gz(z):
    return '(%d)' % z if z < 0 else '%d' % z


def glist(items):
    # explicit cons/nil: nested [a;b] list notations make Coq's parser backtrack exponentially in the nesting depth
    out = 'nil'
    for x in reversed(list(items)):
        out = '(cons %s %s)' % (x, out)
    return out


def gzl(l):
    """Z list literal; long runs of one byte are written (app (repeat x (Z.to_nat n)) rest) so that 16-40 KiB elements stay small"""
    l = [int(x) for x in l]
    out, i = 'nil', len(l)
    while i > 0:
        j = i
        while j > 0 and l[j - 1] == l[i - 1]:
            j -= 1
        if i - j >= 32:
            out = '(app (repeat %s (Z.to_nat %d)) %s)' % (gz(l[i - 1]), i - j, out)
            i = j
        else:
            out = '(cons %s %s)' % (gz(l[i - 1]), out)
            i -= 1
    return out


def gtype(t):
    k = t[0]
    if k == 's':
        return '(TScalar %s)' % COQ_SCALAR[t[1]]
    if k in ('list', 'set', 'frozen', 'reversed'):
        return '(T%s %s)' % (k.capitalize(), gtype(t[1]))
    if k == 'map':
        return '(TMap %s %s)' % (gtype(t[1]), gtype(t[2]))
    if k in ('tuple', 'udt'):
        return '(T%s %s)' % (k.capitalize(), glist(gtype(x) for x in t[1]))
    if k == 'vector':
        return '(TVector %s %s)' % (gtype(t[1]), gz(t[2]))
    raise ValueError(t)


def gvlist(vs):
    """value list literal; long runs of one value are written (app (repeat v (Z.to_nat n)) rest)"""
    out, i = 'nil', len(vs)
    while i > 0:
        j = i
        while j > 0 and vs[j - 1] == vs[i - 1]:
            j -= 1
        if i - j >= 32:
            out = '(app (repeat %s (Z.to_nat %d)) %s)' % (gvalue(vs[i - 1]), i - j, out)
            i = j
        else:
            out = '(cons %s %s)' % (gvalue(vs[i - 1]), out)
            i -= 1
    return out


def gvalue(v):
    k = v[0]
    if k == 'null':
        return 'VNull'
    if k == 'int':
        return '(VInt %s)' % gz(v[1])
    if k == 'bool':
        return '(VBool %s)' % ('true' if v[1] else 'false')
    if k == 'bytes':
        return '(VBytes %s)' % gzl(v[1])
    if k == 'text':
        return '(VText %s)' % gzl(v[1])
    if k == 'dec':
        return '(VDec %s %s)' % (gz(v[1]), gz(v[2]))
    if k == 'dur':
        return '(VDur %s %s %s)' % (gz(v[1]), gz(v[2]), gz(v[3]))
    if k == 'seq':
        return '(VSeq %s)' % gvlist(v[1])
    if k == 'map':
        return '(VMap %s)' % glist('(%s,%s)' % (gvalue(a), gvalue(b)) for a, b in v[1])
    if k == 'int-us':
        return '(VDur 777 777 %s)' % gz(v[1])      # a datetime that is not a whole millisecond: equal to no model timestamp
    raise ValueError(v)


def gobytes(b):
    return 'None' if b is None else '(Some %s)' % gzl(b)


def govalue(v):
    return 'None' if v is None else '(Some %s)' % gvalue(v)


# ----------------------------------------------------------------------------- driver types
_udt_seq = [0]


def driver_type(t, alias_rng=None):
    from cassandra import cqltypes as C
    k = t[0]
    if k == 's':
        name = CASS_SCALAR[t[1]]
        if alias_rng is not None and t[1] in ALIASES:
            name = alias_rng.choice(ALIASES[t[1]])
        return getattr(C, name)
    if k == 'list':
        return C.ListType.apply_parameters([driver_type(t[1], alias_rng)])
    if k == 'set':
        return C.SetType.apply_parameters([driver_type(t[1], alias_rng)])
    if k == 'map':
        return C.MapType.apply_parameters([driver_type(t[1], alias_rng), driver_type(t[2], alias_rng)])
    if k == 'tuple':
        return C.TupleType.apply_parameters([driver_type(x, alias_rng) for x in t[1]])
    if k == 'udt':
        _udt_seq[0] += 1
        names = tuple('f%d' % i for i in range(len(t[1])))
        return C.UserType.make_udt_class('ks', 'u%d' % _udt_seq[0], names, tuple(driver_type(x, alias_rng) for x in t[1]))
    if k == 'vector':
        return C.VectorType.apply_parameters([driver_type(t[1], alias_rng), t[2]], None)
    if k == 'frozen':
        return C.FrozenType.apply_parameters([driver_type(t[1], alias_rng)])
    if k == 'reversed':
        return C.ReversedType.apply_parameters([driver_type(t[1], alias_rng)])
    raise ValueError(t)


# ----------------------------------------------------------------------------- model value -> Python object
def f32_from_bits(b):
    return struct.unpack('>f', struct.pack('>I', b))[0]


def f64_from_bits(b):
    return struct.unpack('>d', struct.pack('>Q', b))[0]


def is_snan32(b):
    return (b & 0x7f800000) == 0x7f800000 and (b & 0x007fffff) != 0 and (b & 0x00400000) == 0


class AttrUdt(object):
    """a UDT value given as an object with attributes (UserType falls back to getattr)"""
    def __init__(self, vals):
        for i, x in enumerate(vals):
            setattr(self, 'f%d' % i, x)


def to_py(t, v, rng=None):
    """The Python object a user would pass for model value v of type t (rng picks among equivalent containers)."""
    from cassandra import util
    k = t[0]
    if v[0] == 'null':
        return None
    if k in ('frozen', 'reversed'):
        return to_py(t[1], v, rng)
    if k == 's':
        s = t[1]
        if s in ('bigint', 'int', 'smallint', 'tinyint', 'varint'):
            return v[1]
        if s == 'boolean':
            return bool(v[1])
        if s == 'blob':
            return bytes(v[1])
        if s in ('ascii', 'text'):
            return ''.join(chr(c) for c in v[1])
        if s == 'date':
            d = v[1]
            how = rng.random() if rng is not None else 1.0
            if how < 0.45 and -719162 <= d <= 2932896:       # datetime's range
                if how < 0.25:       # a datetime on that day with an arbitrary time of day (also before 1970)
                    return EPOCH + datetime.timedelta(days=d, seconds=rng.choice([0, 1, 43200, 67500, 86399, rng.randrange(86400)]))
                if how < 0.35:
                    return (EPOCH + datetime.timedelta(days=d)).date()
                return '%04d-%02d-%02d' % (lambda x: (x.year, x.month, x.day))(EPOCH + datetime.timedelta(days=d))
            return util.Date(d)
        if s == 'time':
            return util.Time(v[1]) if 0 <= v[1] < DAY_NANOS else v[1]       # Time() itself refuses anything else
        if s == 'timestamp':
            if TS_MIN <= v[1] <= TS_MAX:
                return EPOCH + datetime.timedelta(milliseconds=v[1])
            return v[1]                                               # ints are valid timestamps too
        if s == 'decimal':
            u, sc = v[1], v[2]
            return decimal.Decimal((1 if u < 0 else 0, tuple(int(ch) for ch in str(abs(u))), -sc))
        if s == 'double':
            return f64_from_bits(v[1])
        if s == 'float':
            return f32_from_bits(v[1])
        if s == 'inet':
            b = bytes(v[1])
            if len(b) == 4:
                return socket.inet_ntop(socket.AF_INET, b)
            if len(b) == 16:
                return socket.inet_ntop(socket.AF_INET6, b)
            raise ValueError('inet bytes')
        if s == 'uuid':
            return uuid.UUID(bytes=bytes(v[1]))
        if s == 'duration':
            return util.Duration(v[1], v[2], v[3])
    if k in ('list', 'vector'):
        return [to_py(t[1], x, rng) for x in v[1]]
    if k == 'set':
        return [to_py(t[1], x, rng) for x in v[1]]    # any sized iterable is accepted; a list keeps the wire order known
    if k == 'map':
        return util.OrderedMap([(to_py(t[1], a, rng), to_py(t[2], b, rng)) for a, b in v[1]])
    if k == 'tuple':
        return tuple(to_py(tt, x, rng) for tt, x in zip(t[1] + [t[1][-1]] * len(v[1]), v[1]))
    if k == 'udt':
        vals = [to_py(tt, x, rng) for tt, x in zip(t[1] + [t[1][-1]] * len(v[1]), v[1])]
        if rng is not None and len(vals) == len(t[1]) and rng.random() < 0.2:
            return AttrUdt(vals)
        return tuple(vals)
    raise ValueError((t, v))


# ----------------------------------------------------------------------------- Python object -> model value
def canon32(b):
    # a binary32 signalling NaN cannot live in a Python float (the C conversion quiets it): compare modulo the quiet bit
    if (b & 0x7f800000) == 0x7f800000 and (b & 0x007fffff) != 0:
        return b | 0x00400000
    return b


def from_py(t, o):
    """Canonical model value of a decoded Python object (type-directed)."""
    from cassandra import util
    k = t[0]
    if o is None:
        return ['null']
    if k in ('frozen', 'reversed'):
        return from_py(t[1], o)
    if k == 's':
        s = t[1]
        if s in ('bigint', 'int', 'smallint', 'tinyint', 'varint'):
            assert isinstance(o, int) and not isinstance(o, bool)
            return ['int', o]
        if s == 'boolean':
            assert isinstance(o, bool)
            return ['bool', o]
        if s == 'blob':
            return ['bytes', list(bytes(o))]
        if s in ('ascii', 'text'):
            assert isinstance(o, str)
            return ['text', [ord(c) for c in o]]
        if s == 'date':
            return ['int', o.days_from_epoch]
        if s == 'time':
            return ['int', o.nanosecond_time]
        if s == 'timestamp':
            us = (o - EPOCH) // datetime.timedelta(microseconds=1)
            if us % 1000:
                return ['int-us', us]                    # not a whole millisecond: never equal to a model value
            return ['int', us // 1000]
        if s == 'decimal':
            sign, digits, exp = o.as_tuple()
            u = int(''.join(str(d) for d in digits))
            return ['dec', -u if sign else u, -exp]
        if s == 'double':
            return ['int', struct.unpack('>Q', struct.pack('>d', o))[0]]
        if s == 'float':
            return ['int', canon32(struct.unpack('>I', struct.pack('>f', o))[0])]
        if s == 'inet':
            return ['bytes', list(socket.inet_pton(socket.AF_INET6 if ':' in o else socket.AF_INET, o))]
        if s == 'uuid':
            return ['bytes', list(o.bytes)]
        if s == 'duration':
            return ['dur', o.months, o.days, o.nanoseconds]
    if k in ('list', 'set', 'vector'):
        return ['seq', [from_py(t[1], x) for x in o]]
    if k == 'map':
        # raw item list (what was decoded); whether the public Mapping API can read it back is api_check()'s business
        return ['map', [[from_py(t[1], a), from_py(t[2], b)] for a, b in o._items]]
    if k in ('tuple', 'udt'):
        return ['seq', [from_py(tt, x) for tt, x in zip(t[1], tuple(o))]]
    raise ValueError((t, o))


def api_check(t, o):
    """Every decoded map must be readable through the public Mapping API: items() looks every key up again (m[key]),
    which OrderedMapSerializedKey answers by re-serializing the key.  Returns None or the exception name.
    (Maps whose wire form repeats a key -- malformed stream only -- are skipped: items() then repeats the last value.)"""
    k = t[0]
    if o is None or k == 's':
        return None
    if k in ('frozen', 'reversed'):
        return api_check(t[1], o)
    if k in ('list', 'set', 'vector'):
        for x in o:
            e = api_check(t[1], x)
            if e:
                return e
        return None
    if k in ('tuple', 'udt'):
        for tt, x in zip(t[1], tuple(o)):
            e = api_check(tt, x)
            if e:
                return e
        return None
    if k == 'map':
        if len(o._index) == len(o._items):
            try:
                items = list(o.items())
                if len(items) != len(o._items):
                    return 'items-differ'
                for (a, b), (a2, b2) in zip(items, o._items):
                    if a is not a2 or b is not b2:
                        return 'items-differ'
            except Exception as e:
                return exc_name(e)
        for a, b in o._items:
            e = api_check(t[1], a) or api_check(t[2], b)
            if e:
                return e
        return None
    return None


def canon_model(t, v):
    """floats in model values compared modulo the binary32 quiet bit (see canon32)"""
    k = t[0]
    if v[0] == 'null':
        return v
    if k in ('frozen', 'reversed'):
        return canon_model(t[1], v)
    if k == 's':
        if t[1] == 'float' and v[0] == 'int':
            return ['int', canon32(v[1])]
        return v
    if k in ('list', 'set', 'vector'):
        return ['seq', [canon_model(t[1], x) for x in v[1]]]
    if k == 'map':
        return ['map', [[canon_model(t[1], a), canon_model(t[2], b)] for a, b in v[1]]]
    if k in ('tuple', 'udt'):
        return ['seq', [canon_model(tt, x) for tt, x in zip(t[1], v[1])]]
    return v


def norm(t, v):
    """The documented normalisations, as a canonical comparison key: tuples padded with nulls, sets as sorted
    lists of their elements' keys (the driver returns a sortedset; its order is util.SortedSet's business, C33)."""
    k = t[0]
    if v[0] == 'null':
        return v
    if k in ('frozen', 'reversed'):
        return norm(t[1], v)
    if k == 's':
        return canon_model(t, v)
    if k in ('list', 'vector'):
        return ['seq', [norm(t[1], x) for x in v[1]]]
    if k == 'set':
        return ['set', sorted((norm(t[1], x) for x in v[1]), key=lambda x: json.dumps(x))]
    if k == 'map':
        return ['map', [[norm(t[1], a), norm(t[2], b)] for a, b in v[1]]]
    if k in ('tuple', 'udt'):
        vs = [norm(tt, x) for tt, x in zip(t[1], v[1])]
        return ['seq', vs + [['null']] * (len(t[1]) - len(vs))]
    return v


# ----------------------------------------------------------------------------- running the implementation
def exc_name(e):
    return type(e).__name__


def impl_encode(T, obj, pv):
    """(bytes list | None, exception name | None)"""
    try:
        b = T.to_binary(obj, pv)
        return list(bytes(b)), None
    except Exception as e:          # 'any Python exception counts as raising' (DESIGN 4.0)
        return None, exc_name(e)


def impl_decode(T, t, bs, pv):
    """(model value | None, exception name | None)"""
    try:
        o = T.from_binary(bytes(bs), pv)
    except Exception as e:
        return None, exc_name(e)
    return from_py(t, o), None


def impl_api_check(T, t, bs, pv):
    try:
        o = T.from_binary(bytes(bs), pv)
    except Exception:
        return None
    return api_check(t, o)


# ----------------------------------------------------------------------------- generators
INT_POOL = [0, 1, -1, 2, 127, 128, -128, -129, 255, 256, 32767, 32768, -32768, -32769, 65535, 65536,
            2 ** 31 - 1, 2 ** 31, -2 ** 31, -2 ** 31 - 1, 2 ** 32 - 1, 2 ** 32, 2 ** 63 - 1, 2 ** 63, -2 ** 63, -2 ** 63 - 1,
            2 ** 64 - 1, 2 ** 64, -2 ** 64, 2 ** 56 - 1, 2 ** 56, 2 ** 49, 2 ** 7 - 1, 2 ** 14 - 1, 2 ** 14, 2 ** 21, 2 ** 28, 2 ** 35, 2 ** 42]
CP_POOL = [0, 0x41, 0x7f, 0x80, 0xe9, 0x7ff, 0x800, 0x20ac, 0xd7ff, 0xe000, 0xfffd, 0xffff, 0x10000, 0x1f600, 0x10ffff]
RANGES = {'bigint': (-2 ** 63, 2 ** 63 - 1), 'int': (-2 ** 31, 2 ** 31 - 1), 'smallint': (-2 ** 15, 2 ** 15 - 1),
          'tinyint': (-128, 127), 'date': (-2 ** 31, 2 ** 31 - 1), 'time': (0, DAY_NANOS - 1),
          'timestamp': (TS_MIN, TS_MAX), 'double': (0, 2 ** 64 - 1), 'float': (0, 2 ** 32 - 1)}


def gen_int_in(rng, lo, hi):
    r = rng.random()
    if r < 0.35:
        c = [x for x in INT_POOL if lo <= x <= hi] + [lo, hi, lo + 1, hi - 1]
        return rng.choice([x for x in c if lo <= x <= hi])
    if r < 0.6:
        return rng.randint(max(lo, -300), min(hi, 300)) if lo <= 300 and hi >= -300 else rng.randint(lo, hi)
    bits = rng.randint(1, max(1, (hi - lo).bit_length()))
    x = rng.getrandbits(bits)
    if lo < 0 and rng.random() < 0.5:
        x = -x
    return min(hi, max(lo, x))


def gen_scalar(rng, s, valid=True):
    """A model value of scalar type s; valid=False: just outside the accepted range where there is one."""
    if s in RANGES:
        lo, hi = RANGES[s]
        if not valid:
            if s == 'timestamp':
                lo, hi = -2 ** 63, 2 ** 63 - 1          # as ints; datetime range only matters for decoding
            if s in ('double', 'float'):
                return ['int', rng.choice([0, hi])]
            return ['int', rng.choice([lo - 1, hi + 1, lo - rng.randint(1, 2 ** 40), hi + rng.randint(1, 2 ** 70)])]
        z = gen_int_in(rng, lo, hi)
        if s == 'float' and is_snan32(z):
            z |= 0x00400000
        if s == 'time' and rng.random() < 0.9:
            z = abs(z) % DAY_NANOS
        return ['int', z]
    if s == 'varint':
        r = rng.random()
        if r < 0.4:
            return ['int', rng.choice(INT_POOL)]
        if r < 0.5:
            z = rng.getrandbits(rng.choice([200, 512, 1024]))
        else:
            k = rng.randint(1, 20)
            z = rng.choice([2 ** (8 * k - 1) - 1, 2 ** (8 * k - 1), 2 ** (8 * k) - 1, 2 ** (8 * k), rng.getrandbits(8 * k)])
        return ['int', -z - rng.randint(0, 1) if rng.random() < 0.5 else z]
    if s == 'boolean':
        return ['bool', rng.random() < 0.5]
    if s == 'blob':
        return ['bytes', [rng.randrange(256) for _ in range(rng.choice([0, 0, 1, 2, 5, 17]))]]
    if s == 'ascii':
        if not valid:
            return ['text', [0x41, rng.choice([0x80, 0xe9, 0x20ac])]]
        return ['text', [rng.choice([0, 0x20, 0x41, 0x7a, 0x7f]) for _ in range(rng.choice([0, 0, 1, 3, 8]))]]
    if s == 'text':
        if not valid:
            return ['text', [0x41, rng.choice([0xd800, 0xdbff, 0xdc00, 0xdfff])]]
        return ['text', [rng.choice(CP_POOL) if rng.random() < 0.7 else rng.randrange(0x20, 0x3000)
                         for _ in range(rng.choice([0, 0, 1, 2, 4, 9]))]]
    if s == 'decimal':
        u = gen_scalar(rng, 'varint')[1]
        if u > 2 ** 600:
            u = u % 2 ** 600
        if not valid:
            return ['dec', u, rng.choice([2 ** 31, -2 ** 31 - 1])]
        return ['dec', u, rng.choice([0, 1, 2, -1, -5, 17, 2 ** 31 - 1, -2 ** 31, rng.randint(-400, 400)])]
    if s == 'inet':
        return ['bytes', [rng.randrange(256) for _ in range(rng.choice([4, 16]))]]
    if s == 'uuid':
        return ['bytes', [rng.randrange(256) for _ in range(16)]]
    if s == 'duration':
        def comp(big):
            lo, hi = (-2 ** 63, 2 ** 63 - 1)
            if not valid and big:
                return rng.choice([hi + 1, lo - 1, hi + 2 ** 64, lo - 2 ** 64])
            return gen_int_in(rng, lo, hi)
        i = rng.randrange(3)
        return ['dur'] + [comp(j == i) for j in range(3)]
    raise ValueError(s)


def gen_type(rng, depth, top=True, for_key=False):
    r = rng.random()
    if depth <= 0 or r < 0.35:
        return ['s', rng.choice(SCALARS)]
    k = rng.choice(['list', 'set', 'map', 'tuple', 'udt', 'vector', 'list', 'map', 'tuple', 'frozen', 'reversed'])
    if k in ('list', 'set'):
        return [k, gen_type(rng, depth - 1, False)]
    if k == 'map':
        return ['map', gen_type(rng, depth - 1, False), gen_type(rng, depth - 1, False)]
    if k in ('tuple', 'udt'):
        return [k, [gen_type(rng, depth - 1, False) for _ in range(rng.randint(1, 4))]]
    if k == 'vector':
        return ['vector', gen_type(rng, depth - 1, False), rng.randint(1, 4)]
    sub = gen_type(rng, depth - 1, False)
    return [k, sub]


def type_depth(t):
    k = t[0]
    if k == 's':
        return 0
    if k in ('tuple', 'udt'):
        return 1 + max(type_depth(x) for x in t[1])
    if k == 'map':
        return 1 + max(type_depth(t[1]), type_depth(t[2]))
    return 1 + type_depth(t[1])


def key_of(v):
    return json.dumps(v)


def _py_eq(a, b):
    try:
        return bool(a == b)
    except Exception:
        return False


def gen_value(rng, t, nulls=True, pnull=0.15):
    """A model value of type t that the driver is expected to accept (possibly with nulls inside)."""
    k = t[0]
    if k == 's':
        return gen_scalar(rng, t[1])
    if k in ('frozen', 'reversed'):
        return gen_value(rng, t[1], nulls, pnull)

    def elem(tt, allow_null=True):
        if nulls and allow_null and rng.random() < pnull:
            return ['null']
        return gen_value(rng, tt, nulls, pnull)
    if k == 'list':
        return ['seq', [elem(t[1]) for _ in range(rng.choice([0, 1, 1, 2, 3, 5]))]]
    if k == 'set':
        # elements must be distinct as PYTHON values (0.0 == -0.0, Decimal('1.0') == Decimal('1')): a set cannot hold
        # both, and util.sortedset keeps only one of them
        out, seen, objs = [], set(), []
        for _ in range(rng.choice([0, 1, 2, 3, 5])):
            x = elem(t[1])
            kx = key_of(norm(t[1], x))
            if kx in seen:
                continue
            try:
                o = to_py(t[1], x)
                dup = any(_py_eq(o, p) for p in objs)
            except Exception:
                o, dup = None, False
            if dup:
                continue
            seen.add(kx)
            objs.append(o)
            out.append(x)
        return ['seq', out]
    if k == 'map':
        out, seen = [], set()
        for _ in range(rng.choice([0, 1, 2, 3, 4])):
            a = elem(t[1])
            kx = key_of(norm(t[1], a))
            if kx not in seen:
                seen.add(kx)
                out.append([a, elem(t[2])])
        return ['map', out]
    if k == 'tuple':
        n = len(t[1]) if rng.random() < 0.8 else rng.randint(1, len(t[1]))
        return ['seq', [elem(tt) for tt in t[1][:n]]]
    if k == 'udt':
        return ['seq', [elem(tt) for tt in t[1]]]
    if k == 'vector':
        return ['seq', [elem(t[1], allow_null=False) for _ in range(t[2])]]
    raise ValueError(t)


def has_coll_null(t, v):
    """a null directly inside a list/set/map somewhere in v"""
    k = t[0]
    if v[0] == 'null' or k == 's':
        return False
    if k in ('frozen', 'reversed'):
        return has_coll_null(t[1], v)
    if k in ('list', 'set'):
        return any(x[0] == 'null' or has_coll_null(t[1], x) for x in v[1])
    if k == 'vector':
        return any(has_coll_null(t[1], x) for x in v[1])
    if k == 'map':
        return any(a[0] == 'null' or b[0] == 'null' or has_coll_null(t[1], a) or has_coll_null(t[2], b) for a, b in v[1])
    if k in ('tuple', 'udt'):
        return any(has_coll_null(tt, x) for tt, x in zip(t[1], v[1]))
    return False


def contains_scalar(t, name):
    k = t[0]
    if k == 's':
        return t[1] == name
    if k in ('tuple', 'udt'):
        return any(contains_scalar(x, name) for x in t[1])
    if k == 'map':
        return contains_scalar(t[1], name) or contains_scalar(t[2], name)
    return contains_scalar(t[1], name)


def contains_kind(t, kind):
    k = t[0]
    if k == kind:
        return True
    if k == 's':
        return False
    if k in ('tuple', 'udt'):
        return any(contains_kind(x, kind) for x in t[1])
    if k == 'map':
        return contains_kind(t[1], kind) or contains_kind(t[2], kind)
    return contains_kind(t[1], kind)


def kind_of(t):
    return t[1] if t[0] == 's' else t[0]


def mutate_bytes(rng, bs):
    """malformed stream: truncate / extend / flip / random"""
    bs = list(bs)
    r = rng.random()
    if r < 0.3 and bs:
        return bs[:rng.randrange(len(bs))]
    if r < 0.5:
        return bs + [rng.randrange(256) for _ in range(rng.randint(1, 3))]
    if r < 0.85 and bs:
        i = rng.randrange(len(bs))
        bs[i] = rng.choice([0, 1, 0x7f, 0x80, 0xff, bs[i] ^ (1 << rng.randrange(8))])
        return bs
    return [rng.randrange(256) for _ in range(rng.choice([0, 1, 2, 3, 4, 8, 16]))]
