"""Independent Python CQL lexer used as the executable statement of C27/C29 on the implementation (agent ag-lex).
Mirrors coq/Model/CqlLex.v Part 1 (the lexer); the two are compared against each other on every run."""

LETTERS = 'abcdefghijklmnopqrstuvwxyzABCDEFGHIJKLMNOPQRSTUVWXYZ'
DIGITS = '0123456789'
IDENT = LETTERS + DIGITS + '_'
SPACE = ' \t\n\r'
# independent transcription: words reserved in every Cassandra release (same list as core_reserved_words in CqlLex.v)
CORE_RESERVED = frozenset('''add allow alter and apply asc authorize batch begin by columnfamily create delete desc describe drop
entries execute from full grant if in index infinity insert into is keyspace limit materialized modify nan norecursive not null of on
or order primary rename replace revoke schema select set table to token truncate unlogged update use using view where
with'''.split())


def lexer_reserved(driver_reserved):
    """what the CQL lexer treats as keywords: the driver table (DESIGN 4.0) plus the core list"""
    return set(driver_reserved) | CORE_RESERVED


def ascii_lower(s):
    return ''.join(chr(ord(c) + 32) if 'A' <= c <= 'Z' else c for c in s)


def lex_quoted_body(q, s, i):
    """after the opening quote at s[i-1]; returns (value, next index) or None"""
    out = []
    n = len(s)
    while True:
        if i >= n:
            return None
        c = s[i]
        if c == q:
            if i + 1 < n and s[i + 1] == q:
                out.append(q)
                i += 2
                continue
            return ''.join(out), i + 1
        out.append(c)
        i += 1


def span(chars, s, i=0):
    j = i
    while j < len(s) and s[j] in chars:
        j += 1
    return j


def lex_ident(s, reserved):
    """-> (name as Cassandra reads it, rest) or None"""
    if not s:
        return None
    if s[0] == '"':
        r = lex_quoted_body('"', s, 1)
        return None if r is None else (r[0], s[r[1]:])
    if s[0] in LETTERS:
        j = span(IDENT, s)
        w = ascii_lower(s[:j])
        if w in reserved:
            return None
        return w, s[j:]
    return None


def lex_string(s):
    if not s or s[0] != "'":
        return None
    r = lex_quoted_body("'", s, 1)
    return None if r is None else (r[0], s[r[1]:])


def lex_integer(s):
    i = 1 if s[:1] == '-' else 0
    j = span(DIGITS, s, i)
    if j == i:
        return None
    v = 0
    for c in s[i:j]:
        v = v * 10 + (ord(c) - 48)
    return (-v if i else v), s[j:]


def lex_word(s):
    j = span(IDENT, s)
    return ascii_lower(s[:j]), s[j:]


def lex_use(s, reserved):
    w, r = lex_word(s)
    if w != 'use' or not r or r[0] not in SPACE:
        return None
    r = r[span(SPACE, r):]
    x = lex_ident(r, reserved)
    if x is None or x[1] != '':
        return None
    return x[0]


# ---------------------------------------------------------------- Gallina literals
def zl(v):
    return '(%d)' % v if v < 0 else '%d' % v


def zstr(s):
    """Python str -> Gallina list Z of code points"""
    return '[' + '; '.join(str(ord(c)) for c in s) + ']'


def zlist(l):
    return '[' + '; '.join(zl(x) for x in l) + ']'


def opt_pair(r):
    """(str, str) or None -> Gallina option (str * str)"""
    return 'None' if r is None else '(Some (%s, %s))' % (zstr(r[0]), zstr(r[1]))


LEX_PRELUDE = '''
Definition opt_pair_eqb (a b : option (str * str)) : bool :=
  match a, b with
  | Some (x, y), Some (x', y') => str_eqb x x' && str_eqb y y'
  | None, None => true
  | _, _ => false
  end.
Definition opt_str_eqb (a b : option str) : bool :=
  match a, b with Some x, Some y => str_eqb x y | None, None => true | _, _ => false end.
Definition opt_int_eqb (a b : option (Z * str)) : bool :=
  match a, b with Some (x, y), Some (x', y') => (x =? x') && str_eqb y y' | None, None => true | _, _ => false end.
'''
