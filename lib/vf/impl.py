"""Importing the real driver from VERIF_REPO inside the pinned environment (py3.12: no asyncore, no libev)."""
import sys, types


def install_reactor_stub():
    """cassandra.cluster picks a default connection class at import time; none is importable here.
    A stub cassandra.io.libevreactor.LibevConnection(Connection) makes cluster/concurrent/cqlengine import.
    Nothing in /repo is changed."""
    if 'cassandra.io.libevreactor' in sys.modules:
        return
    from cassandra.connection import Connection
    m = types.ModuleType('cassandra.io.libevreactor')

    class LibevConnection(Connection):
        @classmethod
        def initialize_reactor(cls):
            pass

        @classmethod
        def handle_fork(cls):
            pass

        @classmethod
        def create_timer(cls, timeout, callback):
            raise NotImplementedError('stub reactor')
    m.LibevConnection = LibevConnection
    sys.modules['cassandra.io.libevreactor'] = m
    import cassandra.io
    cassandra.io.libevreactor = m


def import_cluster():
    install_reactor_stub()
    import cassandra.cluster
    return cassandra.cluster
