"""Regenerate MANIFEST.json and known_findings.json from checks/*.py META, findings/*.json, meta/*.json."""
import json, os, sys
from . import core
from .setup import load_checks


def main():
    V = core.VERIF
    mods = load_checks()
    props = [json.loads(l)['id'] for l in open(os.path.join(V, 'properties.jsonl'))]
    na_path = os.path.join(V, 'meta', 'not_applicable.json')
    na = json.load(open(na_path)) if os.path.exists(na_path) else {}
    hooks_path = os.path.join(V, 'meta', 'hooks.json')
    hooks = json.load(open(hooks_path)) if os.path.exists(hooks_path) else {}
    checks = []
    for pid in props:
        if pid not in mods or pid in na:
            continue
        M = mods[pid].META
        c = {'property_id': pid,
             'quick_cmd': 'bin/check %s --tier quick' % pid,
             'thorough_cmd': 'bin/check %s --tier thorough' % pid,
             'evidence_file': 'evidence/%s.json' % pid,
             'replay_cmd_template': 'bin/check %s --replay {path}' % pid,
             'engine': 'coq-model+correspondence',
             'level_claimed': {'category': 'proof', 'text': M['level_text'], 'design_ref': M.get('design_ref', 'DESIGN.md section 4')},
             'level_note': M['level_note'],
             'technique': M['technique']}
        checks.append(c)
    not_app = []
    for pid in props:
        if pid in na:
            not_app.append({'property_id': pid, 'reason': na[pid]})
        elif pid not in mods:
            not_app.append({'property_id': pid, 'reason': 'not yet claimed: model/check not built in this development (see DESIGN.md section 9)'})
    man = {
        'version': 1,
        'setup_cmd': 'bin/setup',
        'hooks': {'guard': 'CASSANDRA_DRIVER_VERIF', 'enable': 'checks export CASSANDRA_DRIVER_VERIF=1 (bin/check); no hook is currently needed',
                  'baseline_off_cmd': 'cd /repo && /venv/bin/python -m pytest -ra -q -p no:cacheprovider --timeout=900 --continue-on-collection-errors',
                  'source_commits': hooks.get('source_commits', []), 'add_only': True},
        'engines': [{'name': 'coq-model+correspondence', 'path': 'bin/check',
                     'serves_properties': [c['property_id'] for c in checks],
                     'kind_free_text': 'Coq 8.16 theorems about executable models; models regenerated from source (py2coq) and/or run '
                                       'against the implementation (vm_compute inside coqc) on generated inputs/histories'}],
        'checks': checks,
        'not_applicable': not_app,
        'notes': 'See DESIGN.md. known_findings.json lists genuine defects (open/fixed).',
    }
    with open(os.path.join(V, 'MANIFEST.json'), 'w') as f:
        json.dump(man, f, indent=1)
    # known findings: concatenate findings/*.json
    allf = []
    fd = os.path.join(V, 'findings')
    for fn in sorted(os.listdir(fd)) if os.path.isdir(fd) else []:
        if fn.endswith('.json'):
            allf.extend(json.load(open(os.path.join(fd, fn))))
    import re
    for e in allf:
        what = re.sub(r'^(fixed: property=\w+ \w+ |KNOWN-FINDING: property=\w+ )', '', str(e.get('what', ''))).replace('\n', ' ')
        if e.get('status') == 'fixed':
            e['line'] = 'fixed: property=%s %s %s' % (e.get('property'), e.get('commit'), what)
        else:
            e['line'] = 'KNOWN-FINDING: property=%s %s' % (e.get('property'), what)
    with open(os.path.join(V, 'known_findings.json'), 'w') as f:
        json.dump({'findings': allf}, f, indent=1)
    # the same list, one line per finding, in the format of the interface: "fixed: property=<id> <commit> <what failed>" (suppresses
    # nothing) and "KNOWN-FINDING: property=<id> <what fails>" (an open finding, matched by the keys given in known_findings.json)
    with open(os.path.join(V, 'known_findings.txt'), 'w') as f:
        for e in allf:
            f.write(e['line'] + '\n')
    print('MANIFEST.json: %d checks, %d not claimed; known_findings.json: %d entries' % (len(checks), len(not_app), len(allf)))


if __name__ == '__main__':
    main()
